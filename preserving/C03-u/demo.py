"""C03 / change b: RelionMotl.parse_tomo_id parses every distinct tomogram name once (functools.lru_cache on a pure
function of the complete name).  Tests the property C03 against hand-written rotation matrices, an independent STAR writer
and parser, and compares the function of the tree with the original text of the function.
run: cd /tmp/wt11/C03 && /venv/bin/python /tmp/seedsV/C03/b/demo.py"""
import sys, os

sys.path.insert(0, os.getcwd())
import copy, io, logging, re, tempfile, textwrap, warnings

warnings.simplefilter("ignore")
import numpy as np
import pandas as pd

from cryocat import cryomotl
from cryocat.cryomotl import RelionMotl, Motl

FAILS = []
NCHECK = [0]


def check(cond, msg):
    NCHECK[0] += 1
    if not cond:
        FAILS.append(msg)
        if len(FAILS) <= 25:
            print("FAIL:", msg)


# ----------------------------------------------------------------------------------------------------------------
# independent statement of the conventions (hand-written matrices, no scipy)
# ----------------------------------------------------------------------------------------------------------------
def Rz(a):
    a = np.deg2rad(np.asarray(a, dtype=float))
    c, s, o, l = np.cos(a), np.sin(a), np.zeros_like(a), np.ones_like(a)
    return np.stack([np.stack([c, -s, o], -1), np.stack([s, c, o], -1), np.stack([o, o, l], -1)], -2)


def Rx(a):
    a = np.deg2rad(np.asarray(a, dtype=float))
    c, s, o, l = np.cos(a), np.sin(a), np.zeros_like(a), np.ones_like(a)
    return np.stack([np.stack([l, o, o], -1), np.stack([o, c, -s], -1), np.stack([o, s, c], -1)], -2)


def Ry(a):
    a = np.deg2rad(np.asarray(a, dtype=float))
    c, s, o, l = np.cos(a), np.sin(a), np.zeros_like(a), np.ones_like(a)
    return np.stack([np.stack([c, o, s], -1), np.stack([o, l, o], -1), np.stack([-s, o, c], -1)], -2)


def R_cryocat(phi, theta, psi):
    """particle rotation of cryoCAT: extrinsic z-x-z, i.e. first phi about z, then theta about x, then psi about z"""
    return Rz(psi) @ Rx(theta) @ Rz(phi)


def R_relion(rot_, tilt, psi):
    """RELION: intrinsic Z-Y-Z (rot, tilt, psi)"""
    return Rz(rot_) @ Ry(tilt) @ Rz(psi)


def T(m):
    return np.swapaxes(m, -1, -2)


def maxdiff(a, b):
    a = np.asarray(a, dtype=float)
    b = np.asarray(b, dtype=float)
    if a.shape != b.shape:
        return np.inf
    if a.size == 0:
        return 0.0
    d = np.abs(a - b)
    return np.inf if np.isnan(d).any() else float(d.max())


# ----------------------------------------------------------------------------------------------------------------
# generators
# ----------------------------------------------------------------------------------------------------------------
def gen_motl(rng, n, kind="random"):
    df = pd.DataFrame(np.zeros((n, 20)), columns=Motl.motl_columns)
    ntomo = int(rng.integers(1, 6))
    tomos = np.sort(rng.choice(np.arange(1, 1500), size=ntomo, replace=False))
    df["tomo_id"] = np.sort(rng.choice(tomos, size=n)).astype(float)
    step = rng.integers(1, 4, size=n)
    df["subtomo_id"] = (np.cumsum(step) + int(rng.integers(0, 50))).astype(float)
    if kind == "all_odd":
        df["subtomo_id"] = (2 * np.arange(n) + 1).astype(float)
    df["class"] = rng.integers(1, 6, size=n).astype(float)
    df["object_id"] = rng.integers(1, 9, size=n).astype(float)
    df["score"] = rng.uniform(0, 1, n)
    scale = 10.0 ** rng.integers(0, 4)
    df[["x", "y", "z"]] = np.round(rng.uniform(-scale, scale, (n, 3)))
    df[["shift_x", "shift_y", "shift_z"]] = rng.uniform(-5, 5, (n, 3))
    ang = rng.uniform(-720, 720, (n, 3))
    if kind == "canonical":
        ang = np.column_stack([rng.uniform(-180, 180, n), rng.uniform(0, 180, n), rng.uniform(-180, 180, n)])
    if kind in ("gimbal", "random"):
        lock = rng.random(n) < (0.6 if kind == "gimbal" else 0.15)
        ang[lock, 1] = rng.choice([0.0, 180.0, -180.0, 360.0, -0.0, 540.0], size=int(lock.sum()))
    if kind == "zeros":
        ang[:] = 0.0
        df[["shift_x", "shift_y", "shift_z"]] = 0.0
    if kind == "same_tilt":
        ang[:, 1] = 37.5
    if kind == "descending_tilt":
        ang[:, 0] = 0.0
        ang[:, 2] = 0.0
        ang[:, 1] = np.linspace(179.0, 1.0, n)
    df[["phi", "theta", "psi"]] = ang
    return df


def names_for(version, tomo_id, subtomo_id, ps, style):
    """RELION names written by an independent writer"""
    t, s = int(tomo_id), int(subtomo_id)
    if version >= 4.0:
        tn = ["TS_%03d" % t, "TS_%d" % t, "tomo%04d" % t][style % 3]
        return tn, "%s/%d" % (tn, s)
    tn = ["/data/run12/tomo_%03d.rec" % t, "%04d_bin4.mrc" % t, "/a1/b22/TS_%d" % t][style % 3]
    sn = ["/data/sub3/%03d_%06d_%sA.mrc" % (t, s, ps), "subtomo/TS%d_%d.mrc" % (t, s), "%d_%05d_1.0A.mrc" % (t, s)][
        style % 3
    ]
    return tn, sn


def gen_relion(rng, n, version, ps, style=0, halves=True, with_pixel_column=True):
    """independent RELION table: origin in px for 3.0, in Angstrom otherwise"""
    ntomo = int(rng.integers(1, 5))
    tomos = np.sort(rng.choice(np.arange(1, 999), size=ntomo, replace=False))
    tomo_id = np.sort(rng.choice(tomos, size=n))
    sub = np.cumsum(rng.integers(1, 4, size=n)) + int(rng.integers(0, 30))
    coords = np.round(rng.uniform(-2000, 2000, (n, 3)), 3)
    origin = np.round(rng.uniform(-12, 12, (n, 3)), 4)
    ang = np.column_stack([rng.uniform(-360, 360, n), rng.uniform(0, 180, n), rng.uniform(-360, 360, n)])
    lock = rng.random(n) < 0.2
    ang[lock, 1] = rng.choice([0.0, 180.0], size=int(lock.sum()))
    ang = np.round(ang, 5)
    cls = rng.integers(1, 7, size=n)
    half = rng.integers(1, 3, size=n)
    d = {}
    tn, sn = zip(*[names_for(version, t, s, ps, style) for t, s in zip(tomo_id, sub)])
    if version >= 4.0:
        d["rlnTomoName"], d["rlnTomoParticleName"] = list(tn), list(sn)
    else:
        d["rlnMicrographName"], d["rlnImageName"] = list(tn), list(sn)
    for i, c in enumerate("XYZ"):
        d["rlnCoordinate" + c] = coords[:, i]
    for i, c in enumerate("XYZ"):
        d["rlnOrigin" + c + ("Angst" if version >= 3.1 else "")] = origin[:, i]
    d["rlnAngleRot"], d["rlnAngleTilt"], d["rlnAnglePsi"] = ang[:, 0], ang[:, 1], ang[:, 2]
    d["rlnClassNumber"] = cls
    if halves:
        d["rlnRandomSubset"] = half
    if with_pixel_column and version < 4.0:
        d["rlnPixelSize"] = np.full(n, ps)
    if version >= 3.1:
        d["rlnOpticsGroup"] = np.ones(n, dtype=int)
    rel = pd.DataFrame(d)
    # shuffle the column order - nothing may depend on it
    rel = rel[list(rng.permutation(rel.columns))]
    truth = dict(tomo_id=tomo_id, sub=sub, coords=coords, origin=origin, ang=ang, cls=cls, half=half if halves else None)
    return rel, truth


def write_star(path, rel, version, ps, optics):
    """independent STAR writer"""
    out = io.StringIO()
    if version >= 3.1 and optics:
        out.write("\n# version 30001\n\ndata_optics\n\nloop_\n")
        cols = ["rlnOpticsGroup", "rlnOpticsGroupName", "rlnImagePixelSize", "rlnVoltage"]
        for i, c in enumerate(cols, 1):
            out.write("_%s #%d\n" % (c, i))
        out.write("1 opticsGroup1 %r 300.000000\n\n" % float(ps))
    out.write("\n%s\n\nloop_\n" % ("data_" if version < 3.1 else "data_particles"))
    for i, c in enumerate(rel.columns, 1):
        out.write("_%s #%d\n" % (c, i))
    for row in rel.itertuples(index=False):
        out.write("  ".join(repr(float(v)) if isinstance(v, (float, np.floating)) else str(v) for v in row) + "\n")
    out.write("\n")
    with open(path, "w") as f:
        f.write(out.getvalue())


def parse_star(path):
    """independent STAR parser -> {specifier: DataFrame of strings}"""
    blocks, cur, labels, rows = {}, None, [], []

    def flush():
        if cur is not None:
            blocks[cur] = pd.DataFrame(rows, columns=labels)

    for line in open(path).read().splitlines():
        line = line.split("#")[0].strip() if not line.strip().startswith("_") else line.strip()
        if not line:
            continue
        if line.startswith("data_"):
            flush()
            cur, labels, rows = line, [], []
        elif line == "loop_":
            continue
        elif line.startswith("_"):
            labels.append(line.split()[0][1:])
        else:
            rows.append(line.split())
    flush()
    return blocks


# ----------------------------------------------------------------------------------------------------------------
# property checks
# ----------------------------------------------------------------------------------------------------------------
def shift_cols(version):
    return ["rlnOrigin" + c + ("Angst" if version >= 3.1 else "") for c in "XYZ"]


def name_cols(version):
    return ("rlnTomoName", "rlnTomoParticleName") if version >= 4.0 else ("rlnMicrographName", "rlnImageName")


def export_formats(version, k):
    if k == 0:
        return "", ""
    if version >= 4.0:
        return [("TS_$xxx", "TS_$xxx/$yyyy"), ("/d1/t$xxxxx", "/d1/t$xx/$yyyyyy"), ("$x", "$x/$y")][k % 3]
    return [
        ("/p/tomo_$xxx.rec", "/p/sub/$xxx_$yyyyyy_a.mrc"),
        ("/d7/$xxxx_bin2.mrc", "/d7/$xx/TS$xxxx_$yy.mrc"),
        ("$x", "$x_$y"),
    ][k % 3]


def expected_name(fmt, tomo_id, subtomo_id):
    """independent formatting of $xxx / $yyy: the longest run is replaced by the zero padded number"""
    out = fmt
    for letter, val in (("y", subtomo_id), ("x", tomo_id)):
        runs = re.findall(r"\$%s+" % letter, fmt)
        if not runs:
            continue
        longest = max(runs, key=len)
        out = out.replace(longest, ("%0" + str(len(longest) - 1) + "d") % int(val))
    return out


def check_export_table(tag, rel, df, version, tf, sf, tol):
    """rel: exported table with numeric columns (from memory or parsed from file), df: the particle list"""
    n = len(df)
    check(len(rel) == n, f"{tag}: number of rows")
    pos = df[["x", "y", "z"]].to_numpy() + df[["shift_x", "shift_y", "shift_z"]].to_numpy()
    got = np.column_stack([pd.to_numeric(rel["rlnCoordinate" + c]) for c in "XYZ"])
    check(maxdiff(got, pos) <= tol, f"{tag}: rlnCoordinate = x + shift ({maxdiff(got, pos)})")
    org = np.column_stack([pd.to_numeric(rel[c]) for c in shift_cols(version)])
    check(maxdiff(org, np.zeros((n, 3))) == 0.0, f"{tag}: zero origin")
    a = [pd.to_numeric(rel[c]).to_numpy() for c in ("rlnAngleRot", "rlnAngleTilt", "rlnAnglePsi")]
    Rr = R_relion(*a)
    Rc = R_cryocat(df["phi"].to_numpy(), df["theta"].to_numpy(), df["psi"].to_numpy())
    check(maxdiff(Rr, T(Rc)) <= max(tol, 1e-9) * 10, f"{tag}: ZYZ rotation is the inverse ({maxdiff(Rr, T(Rc))})")
    check(np.all((a[1] >= -1e-9) & (a[1] <= 180 + 1e-9)), f"{tag}: tilt in [0,180]")
    check(maxdiff(pd.to_numeric(rel["rlnClassNumber"]), df["class"]) == 0.0, f"{tag}: class")
    tn, sn = name_cols(version)
    exp_t = [expected_name(tf, t, s) if tf else str(int(t)) for t, s in zip(df["tomo_id"], df["subtomo_id"])]
    exp_s = [expected_name(sf, t, s) if sf else str(int(s)) for t, s in zip(df["tomo_id"], df["subtomo_id"])]
    check([str(v) for v in rel[tn]] == exp_t, f"{tag}: tomogram names")
    check([str(v) for v in rel[sn]] == exp_s, f"{tag}: subtomogram names")
    half = pd.to_numeric(rel["rlnRandomSubset"]).to_numpy()
    exp_h = np.where(df["subtomo_id"].to_numpy() % 2 == 1, 1, 2)
    check(maxdiff(half, exp_h) == 0.0, f"{tag}: half-set 1/2 = odd/even")


def check_import(tag, m, truth, version, ps, tol):
    d = m.df
    n = len(truth["sub"])
    check(len(d) == n, f"{tag}: rows")
    check(maxdiff(d[["x", "y", "z"]], truth["coords"]) <= tol, f"{tag}: x,y,z = rlnCoordinate")
    exp_shift = -truth["origin"] / (ps if version >= 3.1 else 1.0)
    check(
        maxdiff(d[["shift_x", "shift_y", "shift_z"]], exp_shift) <= tol,
        f"{tag}: shift = -origin (/ps) ({maxdiff(d[['shift_x', 'shift_y', 'shift_z']], exp_shift)})",
    )
    Rc = R_cryocat(d["phi"].to_numpy(), d["theta"].to_numpy(), d["psi"].to_numpy())
    Rr = R_relion(truth["ang"][:, 0], truth["ang"][:, 1], truth["ang"][:, 2])
    check(maxdiff(Rc, T(Rr)) <= 1e-8, f"{tag}: zxz rotation is the inverse ({maxdiff(Rc, T(Rr))})")
    check(maxdiff(d["tomo_id"], truth["tomo_id"]) == 0.0, f"{tag}: tomo_id")
    check(maxdiff(d["class"], truth["cls"]) == 0.0, f"{tag}: class")
    check(maxdiff(d["geom3"], truth["sub"]) == 0.0, f"{tag}: geom3 = subtomogram number")
    sid = d["subtomo_id"].to_numpy()
    check(len(np.unique(sid)) == n, f"{tag}: subtomo ids unique")
    if truth["half"] is not None and len(np.unique(truth["half"])) == 2:
        check(np.array_equal(sid % 2, truth["half"] % 2), f"{tag}: half-set parity")
        check(np.all(np.diff(sid) > 0), f"{tag}: renumbering increasing")
    else:
        check(maxdiff(sid, truth["sub"]) == 0.0, f"{tag}: subtomo_id kept")


def check_roundtrip(tag, back, df, tol):
    pos = df[["x", "y", "z"]].to_numpy() + df[["shift_x", "shift_y", "shift_z"]].to_numpy()
    pos_b = back[["x", "y", "z"]].to_numpy() + back[["shift_x", "shift_y", "shift_z"]].to_numpy()
    check(maxdiff(pos_b, pos) <= tol, f"{tag}: position returns ({maxdiff(pos_b, pos)})")
    Ra = R_cryocat(df["phi"].to_numpy(), df["theta"].to_numpy(), df["psi"].to_numpy())
    Rb = R_cryocat(back["phi"].to_numpy(), back["theta"].to_numpy(), back["psi"].to_numpy())
    check(maxdiff(Ra, Rb) <= max(tol, 1e-9) * 10, f"{tag}: orientation returns ({maxdiff(Ra, Rb)})")
    check(maxdiff(back["tomo_id"], df["tomo_id"]) == 0.0, f"{tag}: tomo_id returns")
    check(maxdiff(back["class"], df["class"]) == 0.0, f"{tag}: class returns")
    check(maxdiff(back["geom3"], df["subtomo_id"]) == 0.0, f"{tag}: subtomogram number in geom3")
    check(
        np.array_equal(back["subtomo_id"].to_numpy() % 2, df["subtomo_id"].to_numpy() % 2), f"{tag}: parity returns"
    )


def run_property(seed=20260928, n_lists=14, tmpdir=None):
    rng = np.random.default_rng(seed)
    kinds = ["random", "gimbal", "canonical", "zeros", "same_tilt", "descending_tilt", "all_odd"]
    sizes = [1, 2, 3, 7, 300, 150]
    case = 0
    for li in range(n_lists):
        kind = kinds[li % len(kinds)]
        n = sizes[li] if li < len(sizes) else int(rng.integers(1, 120))
        df = gen_motl(rng, n, kind)
        df_keep = df.copy(deep=True)
        for version in (3.0, 3.1, 4.0):
            ps = float(rng.choice([1.0, 2.5, 0.827, 13.48, 4.0]))
            k = int((li + int(version * 10)) % 4)
            tf, sf = export_formats(version, k)
            optics = bool((li + k) % 2) and version >= 3.1
            tag = f"list {li} ({kind}, n={n}) v{version} ps={ps} fmt={k} optics={optics}"
            m = RelionMotl(df, version=version, pixel_size=ps, binning=1.0)
            mdf_keep = m.df.copy(deep=True)
            rel1 = m.create_relion_df(tomo_format=tf, subtomo_format=sf)
            check_export_table(tag + " export", rel1, df, version, tf, sf, 1e-9)
            # repeated call on the same object: identical table, particle list untouched
            rel2 = m.create_relion_df(tomo_format=tf, subtomo_format=sf)
            check(rel1.equals(rel2), f"{tag}: repeated export identical")
            check(m.df.equals(mdf_keep), f"{tag}: particle list of the object untouched")
            check(df.equals(df_keep), f"{tag}: caller's table untouched")
            # in-memory round trip
            back = RelionMotl(rel1, version=version, pixel_size=ps).df
            check_roundtrip(tag + " memory", back, df, 1e-9)
            # through a STAR file, parsed independently and re-imported
            path = os.path.join(tmpdir, f"exp_{case}.star")
            case += 1
            m.write_out(path, write_optics=optics, tomo_format=tf, subtomo_format=sf)
            blocks = parse_star(path)
            spec = "data_" if version < 3.1 else "data_particles"
            check(spec in blocks, f"{tag}: block {spec} in file")
            check(("data_optics" in blocks) == optics, f"{tag}: optics block on/off")
            if spec in blocks:
                check_export_table(tag + " file", blocks[spec], df, version, tf, sf, 6e-7)
            back_f = RelionMotl(path, pixel_size=None if (version < 4.0 or optics) else ps)
            check(back_f.version == version, f"{tag}: version recognised from file")
            check_roundtrip(tag + " file", back_f.df, df, 2e-6)
            check(m.df.equals(mdf_keep) and df.equals(df_keep), f"{tag}: inputs untouched after write_out")

    # import of independently written RELION data
    for li in range(n_lists):
        n = sizes[li] if li < len(sizes) else int(rng.integers(1, 120))
        for version in (3.0, 3.1, 4.0):
            ps = float(rng.choice([1.0, 2.5, 0.827, 13.48, 4.0]))
            halves = (li % 3) != 2
            rel, truth = gen_relion(rng, n, version, ps, style=li, halves=halves)
            rel_keep = rel.copy(deep=True)
            tag = f"import {li} n={n} v{version} ps={ps}"
            m = RelionMotl(rel, version=version, pixel_size=ps)
            check_import(tag + " memory", m, truth, version, ps, 1e-9)
            m_again = RelionMotl(rel, version=version, pixel_size=ps)
            check(m.df.equals(m_again.df), f"{tag}: repeated import identical")
            check(rel.equals(rel_keep), f"{tag}: caller's RELION table untouched")
            optics = version >= 3.1 and (li % 2 == 0)
            path = os.path.join(tmpdir, f"imp_{li}_{version}.star")
            write_star(path, rel, version, ps, optics)
            mf = RelionMotl(path, pixel_size=ps if (version >= 4.0 and not optics) else None)
            check(mf.version == version, f"{tag}: version from file")
            check_import(tag + " file", mf, truth, version, ps, 1e-9)


# ----------------------------------------------------------------------------------------------------------------
# change (b): the tree's RelionMotl.parse_tomo_id against the original text of the function
# ----------------------------------------------------------------------------------------------------------------
ORIGINAL_SRC = '''
def parse_tomo_id(self, relion_df):
    if self.tomo_id_name in relion_df.columns:
        micrograph_names = relion_df[self.tomo_id_name].tolist()

        if all(isinstance(i, (int, float)) for i in micrograph_names):
            tomo_idx = micrograph_names
        else:
            tomo_names = [i.rsplit("/", 1)[-1] for i in micrograph_names]
            tomo_idx = []

            for j in tomo_names:
                tomo_idx.append(float(re.search(r"\\d+", j).group()))

        self.df["tomo_id"] = tomo_idx

    # in case there is no migrograph name fetch tomo id from subtomo path
    elif self.subtomo_id_name in relion_df.columns:
        if self.version <= 3.1:
            tomo_position = -1
        else:
            tomo_position = 0
        micrograph_names = relion_df[self.subtomo_id_name].tolist()

        if all(isinstance(i, (int, float)) for i in micrograph_names):
            tomo_idx = micrograph_names
        else:
            tomo_names = [i.rsplit("/", 1)[tomo_position] for i in micrograph_names]
            tomo_idx = []

            for j in tomo_names:
                tomo_idx.append(float(re.findall(r"\\d+", j)[0]))

        self.df["tomo_id"] = tomo_idx
'''
_ns = dict(vars(cryomotl))
exec(ORIGINAL_SRC, _ns)
orig_parse_tomo_id = _ns["parse_tomo_id"]


class OrigRelionMotl(RelionMotl):
    parse_tomo_id = orig_parse_tomo_id


def outcome(f):
    try:
        return ("ok", f())
    except Exception as e:  # same kind of failure is the same behaviour
        return ("raise", type(e).__name__)


def clear_cache():
    helper = getattr(cryomotl, "_first_number_in_name", None)
    if helper is not None and hasattr(helper, "cache_clear"):
        helper.cache_clear()


# tomogram names that would collide in a cache keyed by anything less than the complete name
TRICKY = [
    ("/a/TS_01.rec", 1.0),
    ("/b/TS_01.rec", 1.0),
    ("/a/TS_1.rec", 1.0),
    ("/a/TS_10.rec", 10.0),
    ("/a/TS_010.rec", 10.0),
    ("/a/TS_100.rec", 100.0),
    ("TS_01", 1.0),
    ("run7/TS_01", 1.0),
    ("run7/12_TS_01", 12.0),
    ("run7/TS_01_12", 1.0),
    ("/d3/tomo0007_bin8.mrc", 7.0),
    ("/d3/tomo0007_bin4.mrc", 7.0),
    ("/d4/tomo0070_bin4.mrc", 70.0),
    ("x/9", 9.0),
    ("9", 9.0),
    ("t-5", 5.0),
    ("/p/00000.rec", 0.0),
    ("/p/123456789012.rec", 123456789012.0),
]


def compare_with_original(tmpdir, seed):
    rng = np.random.default_rng(seed)
    sizes = [1, 1, 2, 3, 5, 300, 299, 64]
    for li in range(36):
        n = sizes[li] if li < len(sizes) else int(rng.integers(1, 301))
        if li % 5 == 0:
            clear_cache()
        for version in (3.0, 3.1, 4.0):
            ps = float(rng.choice([1.0, 2.5, 0.827, 13.48]))
            rel, truth = gen_relion(rng, n, version, ps, style=li, halves=(li % 3) != 2)
            tn, sn = name_cols(version)
            variant = li % 6
            if variant == 3:  # numeric tomogram names
                rel[tn] = truth["tomo_id"].astype(int)
            elif variant == 4:  # no tomogram name column: taken from the subtomogram name
                rel = rel.drop(columns=[tn])
            elif variant == 5:  # tricky names, many particles per name, in arbitrary order
                pick = rng.integers(0, len(TRICKY), size=n)
                rel[tn] = [TRICKY[i][0] for i in pick]
                truth["tomo_id"] = np.array([TRICKY[i][1] for i in pick])
            rel_keep = rel.copy(deep=True)
            tag = f"orig-vs-tree {li} n={n} v{version} variant={variant}"
            m_new = RelionMotl(rel, version=version, pixel_size=ps)
            m_old = OrigRelionMotl(rel, version=version, pixel_size=ps)
            check(m_new.df.equals(m_old.df), f"{tag}: imported particle lists equal")
            check(m_new.relion_df.equals(m_old.relion_df), f"{tag}: stored RELION tables equal")
            check(maxdiff(m_new.df["tomo_id"], truth["tomo_id"]) == 0.0, f"{tag}: tomo_id as written")
            check(m_new.df["tomo_id"].dtype == m_old.df["tomo_id"].dtype, f"{tag}: dtype of tomo_id")
            # the function alone, repeatedly on the same object and the same table (warm cache), in reversed row order too
            for rep in range(3):
                ret = m_new.parse_tomo_id(rel)
                check(ret is None, f"{tag}: returns None")
                check(m_new.df.equals(m_old.df), f"{tag}: repeated call {rep}")
            rev = rel.iloc[::-1].reset_index(drop=True)
            a = RelionMotl(rev, version=version, pixel_size=ps).df
            b = OrigRelionMotl(rev, version=version, pixel_size=ps).df
            check(a.equals(b), f"{tag}: reversed order equal")
            check(maxdiff(a["tomo_id"], truth["tomo_id"][::-1]) == 0.0, f"{tag}: reversed order follows the rows")
            check(rel.equals(rel_keep), f"{tag}: caller's RELION table untouched")
            if li % 4 == 1:
                path = os.path.join(tmpdir, "cmp.star")
                write_star(path, rel, version, ps, optics=version >= 3.1)
                fa, fb = RelionMotl(path, pixel_size=ps), OrigRelionMotl(path, pixel_size=ps)
                check(fa.df.equals(fb.df), f"{tag}: import from file equal")
    # each tricky name alone, cold and warm, in both orders
    for order in (TRICKY, TRICKY[::-1]):
        clear_cache()
        for rep in range(2):
            for name, want in order:
                for version in (3.1, 4.0):
                    tn, sn = name_cols(version)
                    rel = pd.DataFrame({tn: [name, name], sn: ["1_1_1.mrc", "1_2_1.mrc"] if version < 4 else ["1/1", "1/2"]})
                    for c in "XYZ":
                        rel["rlnCoordinate" + c] = 0.0
                    for c in ("rlnAngleRot", "rlnAngleTilt", "rlnAnglePsi"):
                        rel[c] = 0.0
                    a = RelionMotl(rel, version=version, pixel_size=1.0).df["tomo_id"].tolist()
                    b = OrigRelionMotl(rel, version=version, pixel_size=1.0).df["tomo_id"].tolist()
                    check(a == b == [want, want], f"tricky name {name!r} v{version}: {a} {b} {want}")
                    check(all(type(v) is float for v in a), f"tricky name {name!r}: plain floats")
    # outside the quantifier, same behaviour all the same: a name without a number fails alike and leaves no trace
    for bad in (["/a/no_number.rec", "/a/TS_3.rec"], ["/a/TS_3.rec", "/a/none"], [5, "/a/TS_3.rec"]):
        rel = pd.DataFrame({"rlnMicrographName": bad, "rlnImageName": ["1_1_1.mrc", "1_2_1.mrc"]})
        for c in "XYZ":
            rel["rlnCoordinate" + c] = 0.0
        for c in ("rlnAngleRot", "rlnAngleTilt", "rlnAnglePsi"):
            rel[c] = 0.0
        a = outcome(lambda: RelionMotl(rel, version=3.1, pixel_size=1.0).df)
        b = outcome(lambda: OrigRelionMotl(rel, version=3.1, pixel_size=1.0).df)
        check(a[0] == b[0] == "raise" and a[1] == b[1], f"names {bad}: same failure ({a[1]}/{b[1]})")
        good = rel.copy()
        good["rlnMicrographName"] = ["/a/TS_3.rec", "/a/TS_4.rec"]
        check(RelionMotl(good, version=3.1, pixel_size=1.0).df["tomo_id"].tolist() == [3.0, 4.0], "good names after a failure")


def main():
    err_before = np.seterr()
    state_before = np.random.get_state()[1].copy()
    with tempfile.TemporaryDirectory() as td:
        run_property(seed=20260928, tmpdir=td)
        compare_with_original(td, seed=21)
        # once more with everything already in the cache, then from a cold cache
        run_property(seed=20260928, n_lists=8, tmpdir=td)
        clear_cache()
        compare_with_original(td, seed=22)
        run_property(seed=5, n_lists=8, tmpdir=td)
    check(np.seterr() == err_before, "numpy error state unchanged")
    check(np.array_equal(np.random.get_state()[1], state_before), "global random state unchanged")
    helper = getattr(cryomotl, "_first_number_in_name", None)
    info = helper.cache_info() if helper is not None else "no cache in this tree"
    print(f"{NCHECK[0]} checks, {len(FAILS)} failed, cache: {info}")
    if FAILS:
        print("FAILED")
        sys.exit(1)
    print("PASS")


if __name__ == "__main__":
    main()
