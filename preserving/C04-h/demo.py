import os
import sys

sys.path.insert(0, os.getcwd())

import decimal
import tempfile
import warnings
from fractions import Fraction
from pathlib import Path

import numpy as np
import pandas as pd

warnings.filterwarnings("ignore")

from cryocat import cryomotl, starfileio
from cryocat.cryomotl import Motl, EmMotl, StopgapMotl

# --------------------------------------------------------------------------------------------------------------
# independent statement of the property
# --------------------------------------------------------------------------------------------------------------
# documented renaming, written out again here (not taken from StopgapMotl.pairs)
RENAME = [
    ("score", "score"),
    ("subtomo_id", "subtomo_num"),
    ("tomo_id", "tomo_num"),
    ("object_id", "object"),
    ("x", "orig_x"),
    ("y", "orig_y"),
    ("z", "orig_z"),
    ("shift_x", "x_shift"),
    ("shift_y", "y_shift"),
    ("shift_z", "z_shift"),
    ("phi", "phi"),
    ("psi", "psi"),
    ("theta", "the"),
    ("class", "class"),
]
SG_COLUMNS = [
    "motl_idx", "tomo_num", "object", "subtomo_num", "halfset", "orig_x", "orig_y", "orig_z", "score",
    "x_shift", "y_shift", "z_shift", "phi", "psi", "the", "class",
]
MOTL_COLUMNS = [
    "score", "geom1", "geom2", "subtomo_id", "tomo_id", "object_id", "subtomo_mean", "x", "y", "z",
    "shift_x", "shift_y", "shift_z", "geom3", "geom4", "geom5", "phi", "psi", "theta", "class",
]
FAILS = []


def check(cond, msg):
    if not cond:
        FAILS.append(msg)
        if len(FAILS) < 20:
            print("FAIL:", msg)


def same_bits(a, b):
    a = np.ascontiguousarray(np.asarray(a, dtype=float))
    b = np.ascontiguousarray(np.asarray(b, dtype=float))
    return a.shape == b.shape and a.tobytes() == b.tobytes()


def star_close(written, expected):
    """STAR precision: the writer keeps six decimals."""
    written = np.asarray(written, dtype=float)
    expected = np.asarray(expected, dtype=float)
    if written.shape != expected.shape:
        return False
    tol = 0.5e-6 + 4 * np.spacing(np.abs(expected))
    return bool(np.all(np.abs(written - expected) <= tol))


def half_up(v):
    """exact round-half-away-from-zero of a float (independent of the decimal module)"""
    f = Fraction(float(v))
    s = -1 if f < 0 else 1
    return float(s * ((abs(f) + Fraction(1, 2)).__floor__()))


def expected_after_update(df):
    """reference for update_coordinates: integer positions, rest in the shifts"""
    out = df.copy()
    for c, s in (("x", "shift_x"), ("y", "shift_y"), ("z", "shift_z")):
        tot = df[c].to_numpy(dtype=float) + df[s].to_numpy(dtype=float)
        new = np.array([half_up(t) for t in tot], dtype=float)
        out[c] = new
        out[s] = tot - new
    return out


def parse_star_independently(path):
    """a minimal reader of the written file that does not use cryocat"""
    with open(path) as fh:
        lines = [ln.strip() for ln in fh.read().split("\n")]
    lines = [ln for ln in lines if ln and not ln.startswith("#")]
    assert lines[0] == "data_stopgap_motivelist", lines[0]
    assert lines[1] == "loop_", lines[1]
    cols = []
    k = 2
    while k < len(lines) and lines[k].startswith("_"):
        cols.append(lines[k].split()[0][1:])
        k += 1
    rows = [ln.split() for ln in lines[k:]]
    return cols, rows


# --------------------------------------------------------------------------------------------------------------
# generators of particle lists
# --------------------------------------------------------------------------------------------------------------
def random_motl_df(rng, n, index_kind=0, magnitude=0):
    data = {}
    scale = [1.0, 1e3, 1e6][magnitude]
    for c in MOTL_COLUMNS:
        data[c] = rng.normal(0.0, scale, n)
    # non-sequential, not sorted, possibly repeated parity pattern; integers
    ids = rng.choice(np.arange(1, 5 * n + 50), size=n, replace=False).astype(float)
    if rng.random() < 0.2:
        ids = np.sort(ids)
    if rng.random() < 0.15:
        ids = ids * 2  # all even
    elif rng.random() < 0.15:
        ids = ids * 2 + 1  # all odd
    data["subtomo_id"] = ids
    data["tomo_id"] = rng.integers(1, 40, n).astype(float)
    data["object_id"] = rng.integers(-3, 200, n).astype(float)
    data["class"] = rng.integers(0, 6, n).astype(float)
    data["x"] = np.round(rng.uniform(-50, 2000, n), rng.integers(0, 4))
    data["y"] = np.round(rng.uniform(-50, 2000, n), rng.integers(0, 4))
    data["z"] = np.round(rng.uniform(-50, 600, n), rng.integers(0, 4))
    data["shift_x"] = rng.uniform(-6, 6, n)
    data["shift_y"] = rng.uniform(-6, 6, n)
    data["shift_z"] = rng.uniform(-6, 6, n)
    # halves and integers in the shifts (ties of the rounding), signed
    tie = rng.random(n) < 0.2
    data["shift_x"][tie] = rng.integers(-5, 6, tie.sum()) + 0.5
    data["shift_y"][tie] = rng.integers(-5, 6, tie.sum()) - 0.5
    data["shift_z"][tie] = rng.integers(-5, 6, tie.sum()).astype(float)
    # Euler angles with poles
    data["phi"] = rng.uniform(-180, 180, n)
    data["psi"] = rng.uniform(-180, 180, n)
    data["theta"] = rng.uniform(0, 180, n)
    pole = rng.random(n) < 0.2
    data["theta"][pole] = rng.choice([0.0, 180.0, -0.0], pole.sum())
    zero = rng.random(n) < 0.1
    data["phi"][zero] = 0.0
    data["psi"][zero] = rng.choice([0.0, 180.0, -180.0], zero.sum())
    df = pd.DataFrame(data, columns=MOTL_COLUMNS)
    if rng.random() < 0.3:
        df = df[list(rng.permutation(MOTL_COLUMNS))]  # column order of the input is free
    if index_kind == 1:
        df.index = rng.permutation(n) + 7
    elif index_kind == 2:
        df.index = np.arange(n)[::-1] * 3
    elif index_kind == 3:
        df.index = [f"p{i}" for i in range(n)]
    return df


def sizes(rng, count):
    base = [1, 1, 2, 3, 4, 5, 17, 64, 299, 300]
    return base + [int(v) for v in rng.integers(1, 120, max(0, count - len(base)))]


# --------------------------------------------------------------------------------------------------------------
# the property
# --------------------------------------------------------------------------------------------------------------
def check_export_frame(sg, ref, reset_index, tag, exact=True):
    n = ref.shape[0]
    check(list(sg.columns) == SG_COLUMNS, f"{tag}: columns {list(sg.columns)}")
    check(sg.shape[0] == n, f"{tag}: row count")
    for em, st in RENAME:
        if exact:
            check(same_bits(sg[st].to_numpy(), ref[em].to_numpy()), f"{tag}: field {em}->{st} changed")
        else:
            check(star_close(sg[st].to_numpy(), ref[em].to_numpy()), f"{tag}: field {em}->{st} differs")
    ids = ref["subtomo_id"].to_numpy(dtype=float)
    exp_half = ["A" if int(round(v)) % 2 == 0 else "B" for v in ids]
    check([str(h) for h in sg["halfset"]] == exp_half, f"{tag}: halfset")
    exp_idx = np.arange(1, n + 1, dtype=float) if reset_index else ids
    check(np.array_equal(sg["motl_idx"].to_numpy(dtype=float), exp_idx), f"{tag}: motl_idx")


def check_import_frame(df, ref_sg, tag, exact=True):
    check(sorted(df.columns) == sorted(MOTL_COLUMNS), f"{tag}: motl columns")
    check(df.shape[0] == ref_sg.shape[0], f"{tag}: row count")
    for em, st in RENAME:
        if exact:
            check(same_bits(df[em].to_numpy(), ref_sg[st].to_numpy()), f"{tag}: field {st}->{em} changed")
        else:
            check(star_close(df[em].to_numpy(), ref_sg[st].to_numpy()), f"{tag}: field {st}->{em} differs")


def property_round(rng, n, index_kind, magnitude, tmpdir, tag):
    df = random_motl_df(rng, n, index_kind, magnitude)
    pristine = df.copy(deep=True)

    # ---------------- in-memory export, both reset settings, repeated calls on the same object
    for reset in (False, True, False):
        sg = StopgapMotl.convert_to_sg_motl(df, reset_index=reset)
        check_export_frame(sg, pristine, reset, f"{tag} mem reset={reset}")
        check(list(sg.index) == list(range(n)), f"{tag}: sg index")
    check(df.equals(pristine) and list(df.index) == list(pristine.index), f"{tag}: input frame modified")
    sg_default = StopgapMotl.convert_to_sg_motl(df)
    check_export_frame(sg_default, pristine, False, f"{tag} mem default")

    # ---------------- in-memory import (constructor with a stopgap frame, and the method)
    sg_in = sg_default.copy()
    if index_kind:
        sg_in.index = df.index
    sg_keep = sg_in.copy(deep=True)
    m1 = StopgapMotl(sg_in)
    check_import_frame(m1.df, sg_keep, f"{tag} import ctor")
    check(list(m1.df.index) == list(sg_keep.index), f"{tag}: import keeps the row labels")
    m2 = StopgapMotl()
    m2.convert_to_motl(sg_in)
    check_import_frame(m2.df, sg_keep, f"{tag} import method")
    check(sg_in.equals(sg_keep), f"{tag}: stopgap input modified")
    # there and back
    back = StopgapMotl.convert_to_sg_motl(m1.df)
    check_export_frame(back, pristine, False, f"{tag} there-and-back")

    # ---------------- constructor with a particle list
    sm = StopgapMotl(df)
    for em, _ in RENAME:
        check(same_bits(sm.df[em].to_numpy(), pristine[em].to_numpy()), f"{tag}: ctor field {em}")
    check(list(sm.df.index) == list(range(n)), f"{tag}: ctor index")

    # ---------------- via file
    for reset in (False, True):
        for upd in (False, True):
            path = os.path.join(tmpdir, f"m_{tag}_{int(reset)}_{int(upd)}.star")
            ref = expected_after_update(pristine) if upd else pristine
            sgm = cryomotl.emmotl2stopgap(df, output_motl_path=path, update_coordinates=upd, reset_index=reset)
            for em, _ in RENAME:
                check(
                    np.allclose(sgm.df[em].to_numpy(), ref[em].to_numpy(), rtol=0, atol=1e-9 * (10 ** (3 * magnitude))),
                    f"{tag}: emmotl2stopgap field {em} (upd={upd})",
                )
            # independent parse of the written text
            cols, rows = parse_star_independently(path)
            check(cols == SG_COLUMNS, f"{tag}: written labels {cols}")
            check(len(rows) == n and all(len(r) == 16 for r in rows), f"{tag}: written rows")
            txt = pd.DataFrame(rows, columns=cols)
            halves = list(txt["halfset"])
            num = txt.drop(columns=["halfset"]).astype(float)
            num["halfset"] = halves
            check_export_frame(num[SG_COLUMNS], ref, reset, f"{tag} file reset={reset} upd={upd}", exact=False)
            # read back with the package
            loaded = StopgapMotl(path)
            for em, _ in RENAME:
                check(star_close(loaded.df[em].to_numpy(), ref[em].to_numpy()), f"{tag}: loaded field {em}")
            check(list(loaded.df.index) == list(range(n)), f"{tag}: loaded index")
            check([str(h) for h in loaded.sg_df["halfset"]] == halves, f"{tag}: loaded halfset")
            em = cryomotl.stopgap2emmotl(path)
            for k, _ in RENAME:
                check(star_close(em.df[k].to_numpy(), ref[k].to_numpy()), f"{tag}: stopgap2emmotl field {k}")
            # write_out of the object itself, with update_coord through the method
            path2 = path[:-5] + "_w.star"
            obj = StopgapMotl(df)
            obj.write_out(path2, update_coord=upd, reset_index=reset)
            with open(path) as f1, open(path2) as f2:
                check(f1.read() == f2.read(), f"{tag}: write_out differs from emmotl2stopgap (upd={upd})")
            # second write of the loaded object reproduces the text (fixed point of STAR precision)
            path3 = path[:-5] + "_r.star"
            loaded.write_out(path3, reset_index=reset)
            c3, r3 = parse_star_independently(path3)
            check(c3 == cols and r3 == rows, f"{tag}: rewrite of the loaded list differs")
    check(df.equals(pristine), f"{tag}: input frame modified by the file path")


def run_property(seed=2024, rounds=26):
    rng = np.random.default_rng(seed)
    with tempfile.TemporaryDirectory() as tmpdir:
        for i, n in enumerate(sizes(rng, rounds)):
            property_round(rng, n, index_kind=i % 4, magnitude=(i // 4) % 3, tmpdir=tmpdir, tag=f"r{i}n{n}")


# --------------------------------------------------------------------------------------------------------------
# the helper itself: text of Starfile.write as it stands in the unmodified tree, compared byte for byte
# --------------------------------------------------------------------------------------------------------------
def original_write(frames, path, specifiers=None, comments=None, number_columns=True, float_precision=6):
    if specifiers is None:
        specifiers = ["data"] * len(frames)
    if comments is None:
        comments = (None,) * len(frames)

    if len(frames) != len(specifiers) or len(frames) != len(comments) or len(specifiers) != len(comments):
        raise ValueError(
            f"Invalid size of the lists found. "
            f"The sizes are (frames: {len(frames)}), "
            f"(specifiers: {len(specifiers)}), "
            f"and (comments: {len(comments)})."
        )

    for i, f in enumerate(frames):
        frames[i] = f.round(float_precision)

    with open(path, "w") as file:

        def write_with_number(name, number):
            file.write(f"_{name} #{number}\n")

        def write_without_number(name, _):
            file.write(f"_{name}\n")

        def format_value(value):
            return "{:<10}".format(str(value))

        for frame, specifier, comment in zip(frames, specifiers, comments):
            # DataFrame.applymap was renamed to DataFrame.map in pandas 2.1 and removed in pandas 3
            frame = frame.map(format_value) if hasattr(frame, "map") else frame.applymap(format_value)
            stopgap = "stopgap" in specifier
            write_function = write_without_number if not number_columns or stopgap else write_with_number
            if comment is not None:
                for c in comment:
                    file.write(f"\n# {c}")
                file.write("\n")
            file.write(f"\n{specifier}\n\n")
            file.write("loop_\n")
            for index, column in enumerate(frame.columns, 1):
                write_function(column, index)
            if stopgap:
                file.write("\n")

            for row in frame.itertuples(index=False):
                file.write("\t".join(map(str, row)) + "\n")
            file.write("\n")


def random_generic_frame(rng, n):
    ncol = int(rng.integers(0, 9))
    data = {}
    names = ["rlnCoordinateX", "rlnAngleRot", "a b", "{x}", "col{0}", 7, "_u", "long_column_name_123", "h"]
    for j in range(ncol):
        kind = rng.integers(0, 7)
        if kind == 0:
            v = rng.normal(0, 10.0 ** rng.integers(-8, 9), n)
        elif kind == 1:
            v = rng.integers(-10**6, 10**6, n)
        elif kind == 2:
            v = np.array([rng.choice(["A", "B", "tomo_01.mrc", "x" * 14, "", "0123456789"]) for _ in range(n)], dtype=object)
        elif kind == 3:
            v = rng.normal(0, 1, n)
            v[rng.random(n) < 0.3] = np.nan
        elif kind == 4:
            v = rng.random(n) < 0.5
        elif kind == 5:
            v = np.array([rng.choice([None, 1.5, "s", 3]) for _ in range(n)], dtype=object)
        else:
            v = np.round(rng.normal(0, 100, n), 7) + 0.0000005
        data[names[j]] = v
    df = pd.DataFrame(data, index=None if rng.random() < 0.5 else rng.permutation(n) * 2 + 1)
    return df


def compare_helper():
    rng = np.random.default_rng(77)
    now = starfileio.Starfile.write
    with tempfile.TemporaryDirectory() as d:
        p1, p2 = os.path.join(d, "o.star"), os.path.join(d, "n.star")
        for it in range(400):
            nfr = int(rng.integers(0, 4))
            frames = []
            for _ in range(nfr):
                n = int(rng.choice([0, 1, 2, 3, 10, 57]))
                if rng.random() < 0.4 and n > 0:
                    frames.append(StopgapMotl.convert_to_sg_motl(random_motl_df(rng, n, int(rng.integers(0, 4)), int(rng.integers(0, 3))), bool(rng.integers(0, 2))))
                else:
                    frames.append(random_generic_frame(rng, n))
            kw = {}
            if rng.random() < 0.7:
                kw["specifiers"] = [str(rng.choice(["data_stopgap_motivelist", "data_particles", "data_optics", "data_", "stopgap"])) for _ in range(nfr)]
            if rng.random() < 0.5:
                kw["comments"] = [rng.choice([None, "c"]) and [f"version {k}" for k in range(int(rng.integers(0, 3)))] for _ in range(nfr)]
                kw["comments"] = [c if c else (None if rng.random() < 0.5 else []) for c in kw["comments"]]
            if rng.random() < 0.4:
                kw["number_columns"] = bool(rng.integers(0, 2))
            if rng.random() < 0.3:
                kw["float_precision"] = int(rng.integers(0, 9))
            fa = [f.copy(deep=True) for f in frames]
            fb = [f.copy(deep=True) for f in frames]
            original_write(fa, p1, **{k: (list(v) if isinstance(v, list) else v) for k, v in kw.items()})
            now(fb, p2, **{k: (list(v) if isinstance(v, list) else v) for k, v in kw.items()})
            with open(p1, "rb") as f1, open(p2, "rb") as f2:
                check(f1.read() == f2.read(), f"helper: written bytes differ in trial {it} ({kw})")
            # effect on the caller's list: entries replaced by the rounded frames, the same in both
            for x, y, z in zip(fa, fb, frames):
                check(x.equals(y) and list(x.index) == list(y.index) and list(x.dtypes) == list(y.dtypes), f"helper: list entry differs in trial {it}")
        # argument validation unchanged
        for bad in ({"specifiers": ["a", "b"]}, {"comments": [None, None]}):
            try:
                now([pd.DataFrame({"a": [1.0]})], p2, **bad)
                check(False, "helper: size mismatch accepted")
            except ValueError:
                pass


if __name__ == "__main__":
    run_property()
    compare_helper()
    if FAILS:
        print(f"FAIL ({len(FAILS)} checks)")
        sys.exit(1)
    print("PASS")
