"""C11 -- map files round-trip voxels and axis order across MRC, REC and EM; conversions preserve every voxel.
Change a: em2mrc / mrc2em negate the freshly read copy in place (np.multiply(..., out=same array)).
The property is checked against independent header parsers (struct) and the patched functions are compared with
the original function text kept below.  Run:  cd /tmp/wt11/C11 && /venv/bin/python /tmp/seedsV/C11/a/demo.py
"""
import os
import sys

sys.path.insert(0, os.getcwd())

ORIG = r'''
def read(input_map, transpose=True, data_type=None):
    """Reads a map file (from the file or numpy array) and returns the data as a numpy array.

    Parameters
    ----------
    input_map : str or numpy.ndarray
        The input map file name or a numpy array containing the map data. The accepted formats are MRC and EM.
    transpose : bool, optional
        Whether to transpose the data. Default is True.
    data_type : numpy.dtype, optional
        The desired data type of the returned array. If None, the data type is not modified.

    Returns
    -------
    numpy.ndarray
        The map data as a numpy array.

    Raises
    ------
    ValueError
        If the input map file name does not have a valid extension.
        If the input map file is not a valid path or numpy array.

    Notes
    -----
    This function supports reading map files with the following extensions: .mrc, .rec, .st, .ali, .em.

    If the input_map is a string, the function will attempt to open the file and read the data.
    If the input_map is a numpy array, it will be directly used as the map data.

    If transpose is True, the data will be transposed using the transpose(2, 1, 0) method.

    If data_type is not None, the data will be cast to the specified data type using the astype method.

    Examples
    --------
    >>> data = read("map.mrc")
    >>> data = read("map.em", transpose=False, data_type=np.float32)
    >>> data = read(np.random.rand(10, 10, 10))
    """

    if isinstance(input_map, str):

        def valid_mrc(filename):
            pattern = r"\.(mrc|ali|rec|st)(\.\d+)?$"
            return bool(re.search(pattern, filename))

        if valid_mrc(input_map):
            data = mrcfile.open(input_map).data
        elif input_map.endswith(".em"):
            data = emfile.read(input_map)[1]
        else:
            raise ValueError("The input map file name", input_map, "is neither em or mrc file!")

        if transpose:
            data = data.transpose(2, 1, 0)
    elif isinstance(input_map, np.ndarray):
        data = np.array(input_map)
    else:
        raise ValueError(f"Input map must be path to valid file or nparray")

    data = np.array(data, copy=True)
    if data_type is not None:
        data = data.astype(data_type)

    return data


def write(data_to_write, file_name, transpose=True, data_type=None, overwrite=True):
    """Write data to a specified file in a given format.

    Parameters
    ----------
    data_to_write : numpy.ndarray
        The data array to be written to the file. It can be of any shape and type.

    file_name : str
        The name of the file to which the data will be written. The file extension must be
        one of the following: '.mrc', '.rec', or '.em'.

    transpose : bool, default=True
        If True (default), the data will be transposed before writing. The transposition
        will change the order of the axes to (2, 1, 0). Default is True.

    data_type : type, optional
        If specified, the data will be cast to this type before writing. If None (default),
        the original data type will be used.

    overwrite : bool, default=True
        If True (default), existing files will be overwritten. If False, an error will be
        raised if the file already exists. Default is True.

    Raises
    ------
    ValueError
        If the provided file name does not end with one of the allowed extensions
        ('.mrc', '.rec', or '.em').

    Notes
    -----
    The function will convert the data to float32 if the original data type is float64
    before writing to the file.
    """

    if data_type is not None:
        data_to_write = data_to_write.astype(data_type)

    if transpose and data_to_write.ndim == 3:
        data_to_write = data_to_write.transpose(2, 1, 0)

    if data_to_write.dtype == np.float64:
        data_to_write = data_to_write.astype(np.float32)

    if file_name.endswith(".mrc") or file_name.endswith(".rec"):
        mrcfile.write(name=file_name, data=data_to_write, overwrite=overwrite)
    elif file_name.endswith(".em"):
        emfile.write(file_name, data=data_to_write, overwrite=overwrite)
    else:
        raise ValueError("The output file name", file_name, "has to end with .mrc, .rec or .em!")


def invert_contrast(input_map, output_name=None):
    """Invert the contrast of an input volume map.

    Parameters
    ----------
    input_map : str or numpy.ndarray
        The path to the input volume map file or the volume map data itself.
    output_name : str, optional
        The name of the output file where the inverted volume map will be saved.
        If not provided, the output will not be saved to a file.

    Returns
    -------
    numpy.ndarray
        The inverted volume map.

    Notes
    -----
    The contrast is inverted by multiplying the input map by -1. The data type
    of the output file will be set to single precision if the input map is of
    type float64; otherwise, it will retain the original data type.
    """

    input_map = read(input_map)
    inverted_map = input_map * (-1)

    if output_name is not None:
        if inverted_map.dtype == np.float64:
            data_type = np.single
        else:
            data_type = inverted_map.dtype

        write(inverted_map, output_name, data_type=data_type)

    return inverted_map


def em2mrc(map_name, invert=False, overwrite=True, output_name=None):
    """Convert a file in EM format to MRC format.

    Parameters
    ----------
    map_name : str
        The name of the input map file to be converted.
    invert : bool, default=False
        If True, the data will be inverted (multiplied by -1). Default is False.
    overwrite : bool, default=True
        If True, allows overwriting of the output file if it already exists. Default is True.
    output_name : str, optional
        The name of the output MRC file. If None, the output name will be derived from `map_name` by replacing the
        last two characters with 'mrc'.

    Returns
    -------
    None
        The function writes the converted data to the specified output file.

    Raises
    -------
    ValueError
        If input map_name is not a valid .em file path

    """
    if not isinstance(map_name, str):
        raise ValueError(f"Input file must be a string, valid path")
    elif not map_name.endswith(".em"):
        raise ValueError(f"Provided path must be .em file")
    data_to_write = read(map_name)

    if invert:
        data_to_write = data_to_write * (-1)

    if output_name is None:
        output_name = map_name[:-2] + "mrc"
    elif not output_name.endswith(".mrc"):
        raise ValueError(f"Specified output file name must end with .mrc")
    write(data_to_write, output_name, overwrite=overwrite)


def mrc2em(map_name, invert=False, overwrite=True, output_name=None):
    """Convert a file in MRC format to EM format.

    map_name : str
        The name of the input map file to be converted.
    invert : bool, default=False
        If True, the data will be inverted (multiplied by -1). Default is False.
    overwrite : bool, default=True
        If True, allows overwriting of the output file if it already exists. Default is True.
    output_name : str, optional
        The name of the output EM file. If None, the output name will be derived from `map_name` by replacing the
        last three characters with 'em'.

    Returns
    -------
    None
        The function writes the converted data to the specified output file.

    Raises
    -------
    ValueError
        If the provided file name does not end with .em extension.

    """
    if not isinstance(map_name, str):
        raise ValueError(f"Input is not a string")
    else:
        if not map_name.endswith(".mrc"):
            raise ValueError(f"Input file is not .mrc file")
    data_to_write = read(map_name)

    if invert:
        data_to_write = data_to_write * (-1)

    if output_name is None:
        output_name = map_name[:-3] + "em"
    elif not output_name.endswith(".em"):
        raise ValueError(f"Specified output_name is not .em file")

    write(data_to_write, output_name, overwrite=overwrite)
'''

import shutil
import struct
import tempfile
import warnings

import numpy as np

from cryocat import cryomap

warnings.filterwarnings("ignore")

# ---------------------------------------------------------------------------------------------------------------
# original functions (text of cryomap.read / write / invert_contrast / em2mrc / mrc2em at HEAD), executed in a copy
# of the module namespace so that the originals call each other and not the (possibly patched) module functions
# ---------------------------------------------------------------------------------------------------------------
_ns = dict(vars(cryomap))
exec(compile(ORIG, "<orig cryomap>", "exec"), _ns)
o_read, o_write, o_invert, o_em2mrc, o_mrc2em = (_ns[k] for k in ("read", "write", "invert_contrast", "em2mrc", "mrc2em"))
assert _ns["em2mrc"].__globals__["read"] is o_read and _ns["em2mrc"].__globals__["write"] is o_write

rng = np.random.default_rng(20260928)
TMP = tempfile.mkdtemp(prefix="c11demo_")
FAIL = []
N = {"checks": 0}


def check(cond, msg):
    N["checks"] += 1
    if not cond:
        FAIL.append(msg)
        if len(FAIL) <= 20:
            print("FAIL:", msg)


def same(a, b):
    """same shape, same dtype, same values (NaN == NaN)"""
    a = np.asarray(a)
    b = np.asarray(b)
    return a.shape == b.shape and a.dtype == b.dtype and bool(np.array_equal(a, b, equal_nan=a.dtype.kind in "fc"))


def same_bytes(a, b):
    a = np.asarray(a)
    b = np.asarray(b)
    return a.shape == b.shape and a.dtype == b.dtype and np.ascontiguousarray(a).tobytes() == np.ascontiguousarray(b).tobytes()


# ---------------------------------------------------------------------------------------------------------------
# independent parsers: nothing of mrcfile / emfile is used here
# ---------------------------------------------------------------------------------------------------------------
MRC_MODES = {0: "<i1", 1: "<i2", 2: "<f4", 6: "<u2", 12: "<f2"}
EM_CODES = {1: "<i1", 2: "<i2", 4: "<i4", 5: "<f4", 9: "<f8"}


def parse_mrc(path):
    raw = open(path, "rb").read()
    nx, ny, nz, mode = struct.unpack("<4i", raw[0:16])
    mapc, mapr, maps = struct.unpack("<3i", raw[64:76])
    nsymbt = struct.unpack("<i", raw[92:96])[0]
    assert raw[208:212] == b"MAP ", "no MAP tag"
    assert raw[212:214] == b"\x44\x44" or raw[212:214] == b"\x44\x41", "not little endian"
    assert (mapc, mapr, maps) == (1, 2, 3), "axis mapping is not x,y,z"
    dt = np.dtype(MRC_MODES[mode])
    body = raw[1024 + nsymbt :]
    assert len(body) == nx * ny * nz * dt.itemsize, "data block length does not match header"
    vox = np.frombuffer(body, dtype=dt)
    # x fastest: linear index = x + nx * (y + ny * z)
    return (nx, ny, nz), dt, vox


def parse_em(path):
    raw = open(path, "rb").read()
    machine, _, _, code = struct.unpack("<4b", raw[0:4])
    nx, ny, nz = struct.unpack("<3i", raw[4:16])
    assert machine == 6, "not PC byte order"
    dt = np.dtype(EM_CODES[code])
    body = raw[512:]
    assert len(body) == nx * ny * nz * dt.itemsize, "data block length does not match header"
    return (nx, ny, nz), dt, np.frombuffer(body, dtype=dt)


def parse(path):
    return parse_em(path) if path.endswith(".em") else parse_mrc(path)


def x_fastest(arr):
    """voxels of arr[x, y, z] in the order in which they have to be on disk (x fastest) -- by explicit strides"""
    nx, ny, nz = arr.shape
    lin = np.empty(nx * ny * nz, dtype=arr.dtype)
    xs, ys, zs = np.meshgrid(np.arange(nx), np.arange(ny), np.arange(nz), indexing="ij")
    lin[(xs + nx * (ys + ny * zs)).ravel()] = arr.ravel()
    return lin


def narrow(arr):
    """float64 -> float32 through struct (independent of numpy's cast); other dtypes unchanged"""
    if arr.dtype != np.float64:
        return arr
    flat = arr.ravel()
    out = np.empty(flat.size, dtype=np.float32)
    fin = np.isfinite(flat)
    packed = struct.pack("<%df" % int(fin.sum()), *flat[fin].tolist())
    out[fin] = np.frombuffer(packed, dtype="<f4")
    out[~fin] = flat[~fin]  # nan / inf keep their kind
    return out.reshape(arr.shape)


def mrc_masked(path):
    """file bytes without the label block (mrcfile stamps the time of writing into the first label)"""
    raw = bytearray(open(path, "rb").read())
    if not path.endswith(".em"):
        raw[224:1024] = b"\0" * 800
    return bytes(raw)


# ---------------------------------------------------------------------------------------------------------------
# inputs
# ---------------------------------------------------------------------------------------------------------------
DTYPES = [np.float32, np.float64, np.int16, np.int8]
EXTS = [".mrc", ".rec", ".em"]


def make(shape, dtype, special=True):
    dtype = np.dtype(dtype)
    if dtype.kind == "f":
        a = (rng.standard_normal(shape) * rng.choice([1e-3, 1.0, 1e4])).astype(dtype)
        if special and a.size >= 6:
            f = a.reshape(-1)
            idx = rng.choice(a.size, 6, replace=False)
            f[idx[0]] = 0.0
            f[idx[1]] = -0.0
            f[idx[2]] = np.nan
            f[idx[3]] = np.inf
            f[idx[4]] = -np.inf
            f[idx[5]] = 1.0 / 3.0
    else:
        info = np.iinfo(dtype)
        a = rng.integers(info.min, info.max + 1, size=shape).astype(dtype)
        if special and a.size >= 3:
            f = a.reshape(-1)
            idx = rng.choice(a.size, 3, replace=False)
            f[idx[0]] = info.min  # -min wraps
            f[idx[1]] = info.max
            f[idx[2]] = 0
    return a


def layouts(a):
    """the same values in different memory layouts"""
    yield "C", np.ascontiguousarray(a)
    yield "F", np.asfortranarray(a)
    big = np.zeros(tuple(2 * s + 1 for s in a.shape), dtype=a.dtype)
    v = big[1::2, 1::2, 1::2]
    v[...] = a
    yield "strided", v
    yield "reversed", np.ascontiguousarray(a[::-1, ::-1, ::-1])[::-1, ::-1, ::-1]


EDGE_SHAPES = [(1, 1, 1), (48, 1, 1), (1, 48, 1), (1, 1, 48), (48, 47, 46), (2, 3, 5), (5, 3, 2), (1, 2, 1), (7, 1, 3), (48, 48, 2)]
shapes = list(EDGE_SHAPES)
while len(shapes) < 34:
    s = tuple(int(v) for v in rng.integers(1, 49, size=3))
    if len(set(s)) == 3:
        shapes.append(s)

counter = [0]


def fresh(ext, sub="w"):
    counter[0] += 1
    return os.path.join(TMP, "%s_%05d%s" % (sub, counter[0], ext))


# ---------------------------------------------------------------------------------------------------------------
# 1. write -> bytes on disk -> read
# ---------------------------------------------------------------------------------------------------------------
for si, shape in enumerate(shapes):
    for dtype in DTYPES:
        base = make(shape, dtype)
        lay = list(layouts(base))
        name, arr = lay[(si + DTYPES.index(dtype)) % len(lay)]
        for ext in EXTS:
            tag = "%s %s %s %s" % (shape, np.dtype(dtype).name, name, ext)
            keep = arr.copy()
            flags = (arr.flags.c_contiguous, arr.flags.f_contiguous, arr.flags.writeable, arr.strides)
            p = fresh(ext)
            cryomap.write(arr, p)
            check(same_bytes(arr, keep) and flags == (arr.flags.c_contiguous, arr.flags.f_contiguous, arr.flags.writeable, arr.strides),
                  "write changed its input: " + tag)
            dims, dt, vox = parse(p)
            want = narrow(keep)
            check(dims == tuple(shape), "header nx,ny,nz %s != shape: %s" % (dims, tag))
            check(dt == want.dtype, "dtype on disk %s: %s" % (dt, tag))
            check(same(vox, x_fastest(want)), "voxels on disk are not x-fastest / differ: " + tag)
            # original writer gives the same file
            po = fresh(ext, "o")
            o_write(arr, po)
            check(mrc_masked(p) == mrc_masked(po), "file differs from the original writer's: " + tag)
            # read back, twice, and with the original reader
            r1 = cryomap.read(p)
            r2 = cryomap.read(p)
            ro = o_read(p)
            check(same(r1, want), "read back differs: " + tag)
            check(same_bytes(r1, r2) and not np.shares_memory(r1, r2), "second read differs / shares memory: " + tag)
            check(same_bytes(r1, ro) and r1.flags.c_contiguous == ro.flags.c_contiguous and r1.strides == ro.strides and r1.flags.writeable,
                  "read differs from the original reader: " + tag)
            r1 *= 0  # the returned array is the caller's; the next read is not affected
            check(same(cryomap.read(p), want), "read after the caller modified an earlier result: " + tag)
            if si % 3 == 0:
                # transpose option on either side
                rt = cryomap.read(p, transpose=False)
                check(same(rt, want.transpose(2, 1, 0)) and same_bytes(rt, o_read(p, transpose=False)), "read(transpose=False): " + tag)
                pt = fresh(ext)
                cryomap.write(arr, pt, transpose=False)
                dims_t, dt_t, vox_t = parse(pt)
                check(dims_t == tuple(shape)[::-1] and same(vox_t, x_fastest(want.transpose(2, 1, 0))), "write(transpose=False) on disk: " + tag)
                check(same(cryomap.read(pt, transpose=False), want), "transpose=False both sides: " + tag)
                check(same(cryomap.read(pt), want.transpose(2, 1, 0)), "write(transpose=False), read(): " + tag)
                o_write(arr, po, transpose=False)
                check(mrc_masked(pt) == mrc_masked(po), "write(transpose=False) differs from original: " + tag)
                # data_type option on either side
                for wt in DTYPES:
                    pd = fresh(ext)
                    cryomap.write(arr, pd, data_type=wt)
                    with np.errstate(all="ignore"):
                        want_d = narrow(keep.astype(wt))
                    dims_d, dt_d, vox_d = parse(pd)
                    check(dims_d == tuple(shape) and dt_d == want_d.dtype and same(vox_d, x_fastest(want_d)),
                          "write(data_type=%s) on disk: %s" % (np.dtype(wt).name, tag))
                    o_write(arr, po, data_type=wt)
                    check(mrc_masked(pd) == mrc_masked(po), "write(data_type) differs from original: " + tag)
                    for rt_ in DTYPES:
                        with np.errstate(all="ignore"):
                            got = cryomap.read(pd, data_type=rt_)
                            exp = want_d.astype(rt_)
                            org = o_read(pd, data_type=rt_)
                        check(same(got, exp) and same_bytes(got, org), "read(data_type=%s): %s" % (np.dtype(rt_).name, tag))
                check(same_bytes(arr, keep), "write changed its input (options): " + tag)
            # an array given to read comes back as an independent copy
            ra = cryomap.read(arr)
            check(same_bytes(ra, keep) and not np.shares_memory(ra, arr) and same_bytes(arr, keep) and same_bytes(ra, o_read(arr)), "read(array): " + tag)
    for f in os.listdir(TMP):
        os.unlink(os.path.join(TMP, f))

# ---------------------------------------------------------------------------------------------------------------
# 2. names the reader accepts (classification done here by splitting, not by the regular expression); the same name
#    is read again after the file behind it was replaced
# ---------------------------------------------------------------------------------------------------------------
def is_mrc_name(n):
    parts = n.split(".")
    if len(parts) >= 3 and parts[-1] != "" and all(c in "0123456789" for c in parts[-1]) and parts[-1].isascii():
        parts = parts[:-1]
    return len(parts) >= 2 and parts[-1] in ("mrc", "ali", "rec", "st")


a1 = make((4, 6, 9), np.float32)
a2 = make((11, 3, 5), np.int16)
src1, src2 = fresh(".mrc"), fresh(".mrc")
cryomap.write(a1, src1)
cryomap.write(a2, src2)
e1, e2 = fresh(".em"), fresh(".em")
cryomap.write(a1, e1)
cryomap.write(a2, e2)
names = ["v.mrc", "v.rec", "v.st", "v.ali", "v.mrc.1", "v.rec.023", "v.st.7", "v.ali.12", "v.mrcs", "v.MRC", "v.mrc.", "v.mrc.a1", "v.em.1",
         "v.map", "mrc", "vmrc", "v.em", "v.1.em", "v.mrc.em", "v.em.mrc", "v.rec.1.2", "v.st2", "x.mrc.9.txt", ".mrc", "a.b.c.ali.00"]
for rep in range(3):  # the same names again and again
    for n in names:
        full = os.path.join(TMP, n)
        for (m, e, a) in ((src1, e1, a1), (src2, e2, a2)):  # replace the file behind the name
            kind = "mrc" if is_mrc_name(n) else ("em" if n.endswith(".em") else None)
            shutil.copyfile(e if kind == "em" else m, full)
            res = []
            for fn in (cryomap.read, o_read):
                try:
                    res.append(fn(full))
                except ValueError as ex:
                    res.append("ValueError")
                except Exception as ex:  # a file of the other format under this name
                    res.append(type(ex).__name__)
            if kind is None:
                check(isinstance(res[0], str) and res[0] == "ValueError" and res[1] == "ValueError", "name %r should be refused: %r" % (n, res))
            else:
                check(not isinstance(res[0], str) and same(res[0], a) and not isinstance(res[1], str) and same_bytes(res[0], res[1]),
                      "name %r (%s) read wrongly (rep %d)" % (n, kind, rep))
            os.unlink(full)
for bad in (None, 3, 2.5, ["a.mrc"], b"a.mrc"):
    for fn in (cryomap.read, o_read):
        try:
            fn(bad)
            check(False, "read(%r) accepted" % (bad,))
        except ValueError:
            check(True, "")
for ext in (".map", ".mrcs", ".st", ".ali", ".mrc.1", ".EM", ""):
    for fn in (cryomap.write, o_write):
        try:
            fn(a1, os.path.join(TMP, "w" + ext))
            check(False, "write to %r accepted" % ext)
        except ValueError:
            check(not os.path.exists(os.path.join(TMP, "w" + ext)), "refused write left a file: " + ext)

# ---------------------------------------------------------------------------------------------------------------
# 3. conversion EM <-> MRC, inversion, default / explicit names, overwrite
# ---------------------------------------------------------------------------------------------------------------
def negated(a):
    """independent negation: element by element in python (ints wrap like the file's integer type)"""
    if a.dtype.kind == "f":
        out = np.array([-v for v in a.ravel().tolist()], dtype=np.float64).astype(a.dtype)
    else:
        bits = 8 * a.dtype.itemsize
        out = np.array([((-v + (1 << (bits - 1))) % (1 << bits)) - (1 << (bits - 1)) for v in a.ravel().tolist()], dtype=a.dtype)
    return out.reshape(a.shape)


conv_shapes = EDGE_SHAPES + [tuple(int(v) for v in rng.integers(1, 49, size=3)) for _ in range(14)]
for ci, shape in enumerate(conv_shapes):
    for dtype in DTYPES:
        arr = make(shape, dtype)
        want = narrow(arr)
        for direction in ("em2mrc", "mrc2em"):
            new_f, old_f = (cryomap.em2mrc, o_em2mrc) if direction == "em2mrc" else (cryomap.mrc2em, o_mrc2em)
            ext_in, ext_out = (".em", ".mrc") if direction == "em2mrc" else (".mrc", ".em")
            for invert in (False, True):
                for explicit in (False, True):
                    tag = "%s %s %s invert=%s explicit=%s" % (direction, shape, np.dtype(dtype).name, invert, explicit)
                    d_new = tempfile.mkdtemp(dir=TMP)
                    d_old = tempfile.mkdtemp(dir=TMP)
                    outs = []
                    for d, fn in ((d_new, new_f), (d_old, old_f)):
                        src = os.path.join(d, "vol" + ext_in)
                        cryomap.write(arr, src)
                        before = open(src, "rb").read()
                        out = os.path.join(d, "named_by_caller" + ext_out) if explicit else os.path.join(d, "vol" + ext_out)
                        kw = {"output_name": out} if explicit else {}
                        if invert or ci % 2:
                            kw["invert"] = invert
                        ret = fn(src, **kw)
                        check(ret is None, "return value: " + tag)
                        check(open(src, "rb").read() == before, "source file changed: " + tag)
                        check(sorted(os.listdir(d)) == sorted([os.path.basename(src), os.path.basename(out)]), "unexpected files %s: %s" % (os.listdir(d), tag))
                        outs.append(out)
                        # second call on the same file: same result (overwrite defaults to True)
                        first = mrc_masked(out)
                        fn(src, **kw)
                        check(mrc_masked(out) == first and open(src, "rb").read() == before, "second conversion differs: " + tag)
                    dims, dt, vox = parse(outs[0])
                    exp = negated(want) if invert else want
                    check(dims == tuple(shape) and dt == want.dtype, "converted header %s %s: %s" % (dims, dt, tag))
                    check(same(vox, x_fastest(exp)), "converted voxels differ: " + tag)
                    check(same(cryomap.read(outs[0]), exp), "converted file read back differs: " + tag)
                    check(mrc_masked(outs[0]) == mrc_masked(outs[1]), "converted file differs from the original function's (bytes): " + tag)
                    if ci < 6:
                        # overwrite=False: refuses when the target exists and leaves it alone, writes when it does not
                        src, out = os.path.join(d_new, "vol" + ext_in), outs[0]
                        marker = b"do not touch"
                        open(out, "wb").write(marker)
                        for fn in (new_f, old_f):
                            try:
                                fn(src, invert=invert, overwrite=False, **({"output_name": out} if explicit else {}))
                                check(False, "overwrite=False overwrote: " + tag)
                            except ValueError:
                                check(open(out, "rb").read() == marker, "refused conversion touched the target: " + tag)
                            except Exception as ex:
                                check(False, "overwrite=False raised %s: %s" % (type(ex).__name__, tag))
                        os.unlink(out)
                        new_f(src, invert=invert, overwrite=False, **({"output_name": out} if explicit else {}))
                        check(mrc_masked(out) == mrc_masked(outs[1]), "overwrite=False on a free name: " + tag)
                        # wrong explicit extension / wrong input
                        for fn in (new_f, old_f):
                            for bad_kw, bad_src in (({"output_name": os.path.join(d_new, "x" + ext_in)}, src), ({}, os.path.join(d_new, "vol" + ext_out)), ({}, 5)):
                                try:
                                    fn(bad_src, **bad_kw)
                                    check(False, "bad call accepted: " + tag)
                                except ValueError:
                                    check(True, "")
                    shutil.rmtree(d_new)
                    shutil.rmtree(d_old)
        # invert_contrast (array and file input), compared with the original
        for inp_kind in ("array", "file"):
            src = fresh(".mrc" if ci % 2 else ".em")
            cryomap.write(arr, src)
            inp = arr if inp_kind == "array" else src
            keep = arr.copy()
            o1, o2 = fresh(".mrc"), fresh(".em")
            g1 = cryomap.invert_contrast(inp, output_name=o1)
            g2 = o_invert(inp, output_name=o2)
            base = arr if inp_kind == "array" else want
            check(same(g1, negated(base)) and same_bytes(g1, g2) and same_bytes(arr, keep), "invert_contrast(%s) %s %s" % (inp_kind, shape, np.dtype(dtype).name))
            check(same(cryomap.read(o1), negated(want)) and same(cryomap.read(o2), negated(want)), "invert_contrast file %s %s" % (shape, np.dtype(dtype).name))
    for f in os.listdir(TMP):
        fp = os.path.join(TMP, f)
        if os.path.isfile(fp):
            os.unlink(fp)

shutil.rmtree(TMP, ignore_errors=True)
print("checks: %d, failures: %d" % (N["checks"], len(FAIL)))
if FAIL:
    print("FAIL")
    sys.exit(1)
print("PASS")
