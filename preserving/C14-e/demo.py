"""C14 demo: map rotation, placement, windowing and symmetrisation share one active convention.

Run as:  cd /tmp/wt6/C14 && /venv/bin/python /tmp/seedsQ/C14/<x>/demo.py
Prints PASS and exits 0 when the property holds (clean tree and patched tree).

Two layers of evidence:
  (1) independent computations (integer voxel permutation, map_coordinates, analytic gaussians, per-voxel window loop),
  (2) bit-for-bit comparison with copies of the ORIGINAL functions kept in this file, on the same inputs, including
      second and third calls after the inputs were edited in place and calls in shuffled order.
"""
import sys, os

sys.path.insert(0, os.getcwd())
CHANGE = "b"

import inspect
import itertools
import re
import warnings

import numpy as np
import pandas as pd
from scipy.ndimage import affine_transform, map_coordinates
from scipy.spatial.transform import Rotation as srot

from cryocat import cryomap, cryomotl

warnings.filterwarnings("ignore")
rng = np.random.default_rng(20240914)
FAIL = []


def check(cond, msg):
    if not cond:
        FAIL.append(msg)
        if len(FAIL) < 25:
            print("FAIL:", msg)


# --------------------------------------------------------------------------------------------------------------------
# copies of the ORIGINAL functions (text of the unmodified tree, only renamed o_*)
# --------------------------------------------------------------------------------------------------------------------
read = cryomap.read


def o_rotate(
    input_map,
    rotation=None,
    rotation_angles=None,
    coord_space="zxz",
    transpose_rotation=False,
    degrees=True,
    spline_order=3,
    output_name=None,
):
    input_map = read(input_map)
    # create translation to the center of the box
    T = np.eye(4)
    structure_center = np.asarray(input_map.shape) // 2
    T[:3, -1] = structure_center

    rot_matrix = np.eye(4)

    if rotation is not None:
        if transpose_rotation:
            rot_matrix[0:3, 0:3] = rotation.as_matrix().T
        else:
            rot_matrix[0:3, 0:3] = rotation.as_matrix()

    elif rotation_angles is not None:
        rot = srot.from_euler(coord_space, rotation_angles, degrees=degrees)
        rot_matrix[0:3, 0:3] = rot.as_matrix().T

    else:
        raise ValueError("Either rotation_angles or rotation has to be specified!!!")

    final_matrix = T @ rot_matrix @ np.linalg.inv(T)

    rot_struct = np.empty(input_map.shape)
    affine_transform(input=input_map, output=rot_struct, matrix=final_matrix, order=spline_order)

    return rot_struct


def o_get_start_end_indices(coord, volume_shape, subvolume_shape):
    subvolume_shape = np.asarray(subvolume_shape)
    subvolume_half = subvolume_shape / 2

    volume_start = np.floor(coord - subvolume_half).astype(int)
    volume_end = (volume_start + subvolume_shape).astype(int)

    volume_start_clip = np.minimum(np.maximum([0, 0, 0], volume_start), np.asarray(volume_shape))
    volume_end_clip = np.maximum(np.minimum(np.asarray(volume_shape), volume_end), [0, 0, 0])

    subvolume_start = volume_start_clip - volume_start
    subvolume_end = volume_end - volume_start
    subvolume_end = volume_end_clip - volume_end + subvolume_end

    subvolume_start = np.minimum(np.maximum([0, 0, 0], subvolume_start), subvolume_shape)
    subvolume_end = np.maximum(np.minimum(subvolume_shape, subvolume_end), [0, 0, 0])

    return volume_start_clip, volume_end_clip, subvolume_start, subvolume_end


def o_extract_subvolume(volume, coordinates, subvolume_shape, enforce_shape=False, output_file=None):
    vs, ve, ss, se = o_get_start_end_indices(coordinates, volume.shape, subvolume_shape)
    if enforce_shape is not False:
        subvolume = np.full(volume.shape, np.mean(volume))
        subvolume[vs[0] : ve[0], vs[1] : ve[1], vs[2] : ve[2]] = volume[vs[0] : ve[0], vs[1] : ve[1], vs[2] : ve[2]]
    else:
        subvolume = np.full(subvolume_shape, np.mean(volume))
        subvolume[ss[0] : se[0], ss[1] : se[1], ss[2] : se[2]] = volume[vs[0] : ve[0], vs[1] : ve[1], vs[2] : ve[2]]
    return subvolume


def o_crop(input_map, new_size, output_file=None, crop_coord=None):
    input_map = read(input_map)
    new_size = cryomap.cryomask.get_correct_format(new_size)
    if crop_coord is None:
        crop_coord = cryomap.cryomask.get_correct_format(input_map.shape) // 2
    else:
        crop_coord = cryomap.cryomask.get_correct_format(crop_coord)
    vs, ve, _, _ = o_get_start_end_indices(crop_coord, input_map.shape, new_size)
    cropped_volume = input_map[vs[0] : ve[0], vs[1] : ve[1], vs[2] : ve[2]]
    return cropped_volume


def o_pad(input_volume, new_size, fill_value=None):
    volume = read(input_volume)
    if fill_value is None:
        padded_volume = np.full(new_size, np.mean(volume))
    else:
        padded_volume = np.full(new_size, fill_value)
    vol_size = volume.shape
    x_start = int(np.ceil((new_size[0] - vol_size[0]) / 2))
    y_start = int(np.ceil((new_size[1] - vol_size[1]) / 2))
    z_start = int(np.ceil((new_size[2] - vol_size[2]) / 2))
    x_end = int(x_start + vol_size[0])
    y_end = int(y_start + vol_size[1])
    z_end = int(z_start + vol_size[2])
    padded_volume[x_start:x_end, y_start:y_end, z_start:z_end] = volume
    return padded_volume


def o_place_object(input_object, motl, volume_shape=None, volume=None, feature_to_color="object_id"):
    if not isinstance(input_object, list):
        input_object = read(input_object)

    if volume is not None:
        object_container = read(volume)
    elif volume_shape is not None:
        object_container = np.zeros(volume_shape)

    rotations = motl.get_rotations()
    coordinates = motl.get_coordinates() - 1.0
    colors = motl.df[feature_to_color]

    for i, coord in enumerate(coordinates):

        if isinstance(input_object, list):
            object_map = o_rotate(input_object[i], rotation=rotations[i], transpose_rotation=True)
        else:
            object_map = o_rotate(input_object, rotation=rotations[i], transpose_rotation=True)

        object_map = np.where(object_map > 0.1, 1.0, 0.0)

        ls, le, os, oe = o_get_start_end_indices(coord, object_container.shape, object_map.shape)

        object_shape = object_map[os[0] : oe[0], os[1] : oe[1], os[2] : oe[2]]
        object_container[ls[0] : le[0], ls[1] : le[1], ls[2] : le[2]] = np.where(
            object_shape == 1.0,
            colors[i],
            object_container[ls[0] : le[0], ls[1] : le[1], ls[2] : le[2]],
        )

    return object_container


def o_symmetrize_volume(vol, symmetry):
    if isinstance(symmetry, str):
        nfold = int(re.findall(r"\d+", symmetry)[-1])
    elif isinstance(symmetry, (int, float)):
        nfold = symmetry
    else:
        raise ValueError("The symmetry has to be specified as a string (starting with C) or as a number (only for C)!")

    inplane_step = 360 / nfold
    rotated_sum = np.zeros(vol.shape)

    for inplane in range(1, nfold + 1):
        rotated_volume = o_rotate(vol, rotation_angles=[0, 0, (inplane * inplane_step) % 360])
        rotated_sum = np.add(rotated_sum, rotated_volume)
    sym_vol = np.divide(rotated_sum, nfold)

    return sym_vol


# --------------------------------------------------------------------------------------------------------------------
# independent reference computations
# --------------------------------------------------------------------------------------------------------------------
def Rz(a):
    c, s = np.cos(np.deg2rad(a)), np.sin(np.deg2rad(a))
    return np.array([[c, -s, 0.0], [s, c, 0.0], [0.0, 0.0, 1.0]])


def Rx(a):
    c, s = np.cos(np.deg2rad(a)), np.sin(np.deg2rad(a))
    return np.array([[1.0, 0.0, 0.0], [0.0, c, -s], [0.0, s, c]])


def zxz_matrix(phi, theta, psi):
    """active rotation of the (phi, theta, psi) zxz convention: first phi about z, then theta about x, then psi about z."""
    return Rz(psi) @ Rx(theta) @ Rz(phi)


def indep_rotate(vol, R, order=3):
    """density at offset v from floor(N/2) moves to offset R v (evaluated with map_coordinates)."""
    vol = np.asarray(vol, dtype=float)
    c = (np.array(vol.shape) // 2).astype(float)[:, None]
    idx = np.indices(vol.shape).reshape(3, -1).astype(float)
    src = R.T @ (idx - c) + c
    return map_coordinates(vol, src, order=order, mode="constant", cval=0.0).reshape(vol.shape)


def gaussians(shape, offsets, sigmas, amps):
    c = np.array(shape) // 2
    g = np.indices(shape).astype(float)
    out = np.zeros(shape)
    for v, s, a in zip(offsets, sigmas, amps):
        d2 = sum((g[k] - c[k] - v[k]) ** 2 for k in range(3))
        out += a * np.exp(-d2 / (2 * s * s))
    return out


def indep_window(volume, coord, shape):
    """requested window, voxel by voxel; out-of-volume voxels get the volume mean."""
    shape = tuple(int(s) for s in shape)
    start = [int(np.floor(coord[k] - shape[k] / 2)) for k in range(3)]
    out = np.empty(shape)
    m = np.mean(volume)
    for j in itertools.product(*[range(s) for s in shape]):
        p = [start[k] + j[k] for k in range(3)]
        if all(0 <= p[k] < volume.shape[k] for k in range(3)):
            out[j] = volume[tuple(p)]
        else:
            out[j] = m
    return out


def make_motl(n, vol_shape, fractional=False, edge=False):
    df = pd.DataFrame(0.0, index=range(n), columns=cryomotl.Motl.motl_columns)
    lo, hi = (-3, 4) if edge else (6, -5)
    for k, ax in enumerate("xyz"):
        df[ax] = rng.integers(lo, vol_shape[k] + hi, size=n).astype(float)
        if fractional:
            df["shift_" + ax] = np.round(rng.uniform(-3, 3, size=n), 2)
    df["phi"] = rng.uniform(-180, 180, n)
    df["theta"] = rng.uniform(0, 180, n)
    df["psi"] = rng.uniform(-180, 180, n)
    df["object_id"] = np.arange(1, n + 1, dtype=float)
    df["class"] = rng.integers(1, 5, n).astype(float)
    df["geom1"] = rng.integers(2, 9, n).astype(float) + 0.5
    df["tomo_id"] = 1.0
    df["subtomo_id"] = np.arange(1, n + 1, dtype=float)
    return cryomotl.Motl(df)


def indep_place(template, motl, container, feature):
    """stamp the rotated, thresholded template at each particle's complete 0-based position with the colour value."""
    df = motl.df
    out = np.array(container, dtype=float, copy=True)
    for i in range(df.shape[0]):
        row = df.iloc[i]
        tmpl = template[i] if isinstance(template, list) else template
        R = zxz_matrix(row["phi"], row["theta"], row["psi"])
        stamp = indep_rotate(tmpl, R) > 0.1
        pos = [row[a] + row["shift_" + a] - 1.0 for a in "xyz"]
        start = [int(np.floor(pos[k] - tmpl.shape[k] / 2)) for k in range(3)]
        for j in np.argwhere(stamp):
            p = [start[k] + j[k] for k in range(3)]
            if all(0 <= p[k] < out.shape[k] for k in range(3)):
                out[tuple(p)] = row[feature]
    return out


# --------------------------------------------------------------------------------------------------------------------
# 1. right-angle rotations: exact permutation of the voxels away from the faces (exhaustive)
# --------------------------------------------------------------------------------------------------------------------
def test_cube_rotations():
    seen = set()
    combos = list(itertools.product([0, 90, 180, 270], repeat=3))
    rng.shuffle(combos)
    vols = {N: rng.normal(size=(N, N, N)) for N in (7, 8)}
    for phi, theta, psi in combos:
        R = np.rint(zxz_matrix(phi, theta, psi)).astype(int)
        key = tuple(R.ravel())
        first = key not in seen
        seen.add(key)
        for N, vol in vols.items():
            keep = vol.copy()
            out = cryomap.rotate(vol, rotation_angles=[phi, theta, psi])
            check(np.array_equal(vol, keep), "rotate modified its input")
            check(np.array_equal(out, o_rotate(vol, rotation_angles=[phi, theta, psi])), f"rotate != original {phi,theta,psi} N={N}")
            if not first:
                continue
            c = N // 2
            p = np.array(list(itertools.product(range(1, N - 1), repeat=3)))
            q = (p - c) @ R.T + c
            ok = np.all((q >= 1) & (q <= N - 2), axis=1)
            p, q = p[ok], q[ok]
            check(ok.sum() >= (N - 3) ** 3, "too few voxels compared")
            d = np.abs(out[q[:, 0], q[:, 1], q[:, 2]] - vol[p[:, 0], p[:, 1], p[:, 2]]).max()
            check(d < 1e-9, f"cube rotation {phi,theta,psi} N={N} not a permutation: {d}")
            # the same through a Rotation object, as place_object calls it
            r = srot.from_matrix(R.astype(float))
            out2 = cryomap.rotate(vol, rotation=r, transpose_rotation=True)
            d2 = np.abs(out2[q[:, 0], q[:, 1], q[:, 2]] - vol[p[:, 0], p[:, 1], p[:, 2]]).max()
            check(d2 < 1e-9, f"cube rotation via rotation= {phi,theta,psi} N={N}: {d2}")
            check(np.array_equal(out2, o_rotate(vol, rotation=r, transpose_rotation=True)), "rotate(rotation=) != original")
            out3 = cryomap.rotate(vol, rotation=r)  # inverse
            d3 = np.abs(out3[p[:, 0], p[:, 1], p[:, 2]] - vol[q[:, 0], q[:, 1], q[:, 2]]).max()
            check(d3 < 1e-9, f"inverse cube rotation {phi,theta,psi} N={N}: {d3}")
    check(len(seen) == 24, f"only {len(seen)} cube rotations covered")


# --------------------------------------------------------------------------------------------------------------------
# 2. random rotations on smooth blobs; link to the particle orientation
# --------------------------------------------------------------------------------------------------------------------
def test_random_rotations():
    shapes = [(28, 28, 28), (29, 29, 29), (28, 30, 31)]
    for it in range(12):
        shape = shapes[it % 3]
        k = int(rng.integers(1, 5))
        offs = rng.uniform(-2.5, 2.5, size=(k, 3))
        sig = rng.uniform(2.2, 3.0, size=k)
        amp = rng.uniform(0.5, 1.5, size=k)
        vol = gaussians(shape, offs, sig, amp)
        ang = np.array([rng.uniform(-180, 180), rng.uniform(0, 180), rng.uniform(-180, 180)])
        if it == 0:
            ang = np.array([0.0, 0.0, 0.0])
        if it == 1:
            ang = np.array([30.0, 0.0, 40.0])  # gimbal lock
        R = zxz_matrix(*ang)
        out = cryomap.rotate(vol, rotation_angles=ang)
        check(np.array_equal(out, o_rotate(vol, rotation_angles=ang)), "random rotate != original")
        # independent evaluation of the same statement
        check(np.abs(out - indep_rotate(vol, R)).max() < 1e-9, "rotate != map_coordinates evaluation")
        # analytic: the gaussians sit at R v
        ana = gaussians(shape, offs @ R.T, sig, amp)
        check(np.abs(out - ana).max() < 0.02 * amp.max(), f"blob not moved to R v: {np.abs(out - ana).max()}")
        # the particle orientation carries the same offsets
        df = pd.DataFrame(0.0, index=range(1), columns=cryomotl.Motl.motl_columns)
        df.loc[0, ["phi", "theta", "psi"]] = ang
        m = cryomotl.Motl(df)
        r = m.get_rotations()[0]
        check(np.abs(r.apply(offs) - offs @ R.T).max() < 1e-9, "Motl.get_rotations disagrees with the zxz matrix")
        out_r = cryomap.rotate(vol, rotation=r, transpose_rotation=True)
        check(np.abs(out_r - out).max() < 1e-9, "rotation= / rotation_angles= disagree")
        if k == 1:
            peak = np.array(np.unravel_index(np.argmax(out), shape)) - np.array(shape) // 2
            check(np.abs(peak - r.apply(offs[0])).max() <= 0.5 + 1e-6, "peak not at R v")
        # inverse restores
        back = cryomap.rotate(out, rotation=r)
        check(np.abs(back - vol).max() < 0.02 * amp.max(), f"inverse does not restore: {np.abs(back - vol).max()}")
        check(np.array_equal(back, o_rotate(out, rotation=r)), "inverse rotate != original")
        # other options
        for order in (1, 3):
            a = cryomap.rotate(vol, rotation_angles=np.deg2rad(ang), degrees=False, spline_order=order)
            b = o_rotate(vol, rotation_angles=np.deg2rad(ang), degrees=False, spline_order=order)
            check(np.array_equal(a, b), "rotate(degrees=False, spline_order) != original")
        a = cryomap.rotate(vol.astype(np.float32), rotation_angles=list(ang), coord_space="ZXZ")
        b = o_rotate(vol.astype(np.float32), rotation_angles=list(ang), coord_space="ZXZ")
        check(np.array_equal(a, b), "rotate(coord_space=ZXZ) != original")
        # edit in place, call again (2nd and 3rd call on the same object)
        for rep in range(2):
            vol *= 1.5
            vol[tuple(np.array(shape) // 2)] += 0.25
            a = cryomap.rotate(vol, rotation_angles=ang)
            check(np.array_equal(a, o_rotate(vol, rotation_angles=ang)), "rotate after in-place edit != original")
            check(np.abs(a - indep_rotate(vol, R)).max() < 1e-9, "rotate after in-place edit != independent")
            a[...] = -7.0  # writing into a result must not influence later calls
    try:
        cryomap.rotate(np.zeros((4, 4, 4)))
        check(False, "rotate without rotation did not raise")
    except ValueError:
        pass


# --------------------------------------------------------------------------------------------------------------------
# 3. windows
# --------------------------------------------------------------------------------------------------------------------
def test_windows():
    cases = []
    for it in range(40):
        vshape = tuple(int(x) for x in rng.integers(12, 19, 3))
        sshape = tuple(int(x) for x in 2 * rng.integers(1, 5, 3))  # even
        kind = it % 4
        if kind == 0:  # fully inside
            coord = np.array([rng.integers(s // 2 + 1, v - s // 2 - 1) for s, v in zip(sshape, vshape)], dtype=float)
        elif kind == 1:  # partly outside
            coord = np.array([rng.integers(-s // 2 + 1, v + s // 2 - 1) for s, v in zip(sshape, vshape)], dtype=float)
        elif kind == 2:  # fully outside
            coord = np.array([rng.integers(0, v) for v in vshape], dtype=float)
            ax = int(rng.integers(0, 3))
            coord[ax] = vshape[ax] + sshape[ax] + 3 if rng.random() < 0.5 else -sshape[ax] - 3
        else:  # fractional
            coord = np.array([rng.uniform(-2, v + 2) for v in vshape])
        cases.append((vshape, sshape, coord))
    # edge coordinates
    cases.append(((10, 10, 10), (4, 4, 4), np.array([0.0, 0.0, 0.0])))
    cases.append(((10, 10, 10), (4, 4, 4), np.array([10.0, 10.0, 10.0])))
    cases.append(((10, 12, 14), (10, 12, 14), np.array([5.0, 6.0, 7.0])))
    cases.append(((10, 12, 14), (12, 14, 16), np.array([5.0, 6.0, 7.0])))
    order = rng.permutation(len(cases))
    for ci in order:
        vshape, sshape, coord = cases[ci]
        vol = rng.normal(size=vshape) + 3.0
        for rep in range(3):
            keep, keepc = vol.copy(), coord.copy()
            sub = cryomap.extract_subvolume(vol, coord, sshape)
            check(np.array_equal(vol, keep) and np.array_equal(coord, keepc), "extract_subvolume modified its inputs")
            check(sub.shape == tuple(sshape), "window shape")
            ref = indep_window(vol, coord, sshape)
            check(np.array_equal(sub, ref), f"window differs from voxel-wise reference {vshape} {sshape} {coord}")
            check(np.array_equal(sub, o_extract_subvolume(vol, coord, sshape)), "extract_subvolume != original")
            # other argument forms
            sub_l = cryomap.extract_subvolume(vol, coord, list(sshape))
            check(np.array_equal(sub_l, sub), "list shape differs")
            sub_a = cryomap.extract_subvolume(vol, coord, np.asarray(sshape))
            check(np.array_equal(sub_a, sub), "array shape differs")
            e1 = cryomap.extract_subvolume(vol, coord, sshape, enforce_shape=True)
            check(np.array_equal(e1, o_extract_subvolume(vol, coord, sshape, enforce_shape=True)), "enforce_shape != original")
            e2 = cryomap.extract_subvolume(vol, coord, sshape, True)
            check(np.array_equal(e1, e2), "positional enforce_shape differs")
            got = cryomap.get_start_end_indices(coord, vshape, sshape)
            exp = o_get_start_end_indices(coord, vshape, sshape)
            for g, e in zip(got, exp):
                check(np.array_equal(g, e) and np.asarray(g).dtype == np.asarray(e).dtype, "get_start_end_indices != original")
            got = cryomap.get_start_end_indices(list(coord), list(vshape), list(sshape)) if rep == 0 else got
            for g, e in zip(got, exp):
                check(np.array_equal(g, e), "get_start_end_indices(list args) != original")
            # edit in place for the next repetition
            vol[tuple(rng.integers(0, s) for s in vshape)] += 5.0
            vol *= 0.5
            coord += rng.integers(-1, 2, 3)
            sub[...] = np.nan
    # crop / pad (window helpers around the same index arithmetic)
    for it in range(15):
        vshape = tuple(int(x) for x in rng.integers(8, 14, 3))
        vol = rng.normal(size=vshape)
        new = tuple(int(x) for x in 2 * rng.integers(1, 4, 3))
        check(np.array_equal(cryomap.crop(vol, new), o_crop(vol, new)), "crop != original")
        cc = tuple(int(x) for x in rng.integers(3, 7, 3))
        check(np.array_equal(cryomap.crop(vol, new, crop_coord=cc), o_crop(vol, new, crop_coord=cc)), "crop(coord) != original")
        big = tuple(int(v + x) for v, x in zip(vshape, rng.integers(0, 6, 3)))
        check(np.array_equal(cryomap.pad(vol, big), o_pad(vol, big)), "pad != original")
        check(np.array_equal(cryomap.pad(vol, big, fill_value=-1.0), o_pad(vol, big, fill_value=-1.0)), "pad(fill) != original")


# --------------------------------------------------------------------------------------------------------------------
# 4. placement
# --------------------------------------------------------------------------------------------------------------------
def test_placement():
    ns = [1, 2, 3, 5, 8, 13, 20]
    for it, n in enumerate(ns):
        vshape = (30, 32, 28) if it % 2 else (26, 26, 26)
        tshape = (8, 8, 8) if it % 2 else (7, 7, 7)
        tmpl = gaussians(tshape, [rng.uniform(-1.5, 1.5, 3)], [rng.uniform(1.2, 2.0)], [1.0])
        tmpl[tuple(np.array(tshape) // 2 + [2, 0, 0])] += 0.5
        motl = make_motl(n, vshape, fractional=(it % 3 == 1), edge=(it % 3 == 2))
        feature = ["object_id", "class", "geom1"][it % 3]
        for rep in range(3):
            keep_df, keep_t = motl.df.copy(), tmpl.copy()
            if feature == "object_id" and rep == 0:
                got = cryomap.place_object(tmpl, motl, volume_shape=vshape)
            else:
                got = cryomap.place_object(tmpl, motl, volume_shape=vshape, feature_to_color=feature)
            check(motl.df.equals(keep_df) and np.array_equal(tmpl, keep_t), "place_object modified its inputs")
            check(got.shape == vshape, "placed volume shape")
            exp = o_place_object(tmpl, motl, volume_shape=vshape, feature_to_color=feature)
            check(np.array_equal(got, exp), f"place_object != original n={n}")
            ref = indep_place(tmpl, motl, np.zeros(vshape), feature)
            check(np.array_equal(got, ref), f"place_object != independent stamping n={n}: {np.sum(got != ref)} voxels")
            # into an existing volume (must not be modified), positional volume_shape=None
            base = rng.integers(0, 2, vshape).astype(float) * 100.0
            keep_b = base.copy()
            got_v = cryomap.place_object(tmpl, motl, None, base, feature)
            check(np.array_equal(base, keep_b), "place_object modified the volume it was given")
            check(np.array_equal(got_v, o_place_object(tmpl, motl, None, base, feature)), "place_object(volume) != original")
            check(np.array_equal(got_v, indep_place(tmpl, motl, base, feature)), "place_object(volume) != independent")
            # list of templates
            tl = [tmpl * (1.0 + 0.1 * (i % 3)) for i in range(n)]
            got_l = cryomap.place_object(tl, motl, volume_shape=vshape, feature_to_color=feature)
            check(np.array_equal(got_l, o_place_object(tl, motl, volume_shape=vshape, feature_to_color=feature)), "place_object(list) != original")
            check(np.array_equal(got_l, indep_place(tl, motl, np.zeros(vshape), feature)), "place_object(list) != independent")
            # edit the particle list and the template in place; call again
            j = int(rng.integers(0, n))
            motl.df.loc[j, ["x", "y", "z"]] = motl.df.loc[j, ["x", "y", "z"]].to_numpy() + rng.integers(-2, 3, 3)
            motl.df.loc[j, "shift_x"] = float(np.round(rng.uniform(-2, 2), 2))
            motl.df.loc[j, ["phi", "theta", "psi"]] = [rng.uniform(-180, 180), rng.uniform(0, 180), rng.uniform(-180, 180)]
            motl.df.loc[j, feature] = motl.df.loc[j, feature] + 10.0
            tmpl[tuple(np.array(tshape) // 2 - [0, 2, 0])] += 0.4
            got[...] = -1.0
    # axis aligned sanity: one voxel template lands on x-1
    df = pd.DataFrame(0.0, index=range(1), columns=cryomotl.Motl.motl_columns)
    df.loc[0, ["x", "y", "z"]] = [5.0, 6.0, 7.0]
    df.loc[0, ["shift_x", "shift_y", "shift_z"]] = [1.0, 0.0, -1.0]
    df.loc[0, "object_id"] = 9.0
    one = np.zeros((4, 4, 4))
    one[2, 2, 2] = 1.0
    got = cryomap.place_object(one, cryomotl.Motl(df), volume_shape=(12, 12, 12))
    check(got[5, 5, 5] == 9.0 and np.count_nonzero(got) == 1, "single voxel not stamped at the 0-based complete position")


# --------------------------------------------------------------------------------------------------------------------
# 5. symmetrisation
# --------------------------------------------------------------------------------------------------------------------
def test_symmetrize():
    ns = list(range(2, 13))
    rng.shuffle(ns)
    for it, n in enumerate(ns):
        shape = (28, 28, 24) if it % 2 else (29, 29, 21)
        k = 3
        offs = rng.uniform(-2.5, 2.5, size=(k, 3))
        vol = gaussians(shape, offs, rng.uniform(2.0, 2.6, k), rng.uniform(0.5, 1.5, k))
        for rep in range(3):
            sym_arg = [n, f"C{n}", f"c{n}"][rep]
            keep = vol.copy()
            sym = cryomap.symmetrize_volume(vol, sym_arg)
            check(np.array_equal(vol, keep), "symmetrize_volume modified its input")
            check(np.array_equal(sym, o_symmetrize_volume(vol, sym_arg)), f"symmetrize_volume != original n={n}")
            ref = np.zeros(shape)
            for j in range(n):
                ref += indep_rotate(vol, Rz(j * 360.0 / n))
            ref /= n
            # voxels whose source is a face voxel can fall outside the interpolation domain by rounding
            inner = (slice(2, -2),) * 3
            d = np.abs(sym - ref)[inner].max()
            check(d < 1e-9, f"symmetrize_volume is not the mean of the n rotated copies n={n}: {d}")
            turned = cryomap.rotate(sym, rotation_angles=[0, 0, 360.0 / n])
            check(np.abs(turned - sym).max() < 0.02 * vol.max(), f"not invariant n={n}: {np.abs(turned - sym).max()}")
            check(abs(sym.sum() - vol.sum()) < 2e-3 * abs(vol.sum()), f"total density changed n={n}")
            vol *= 0.7
            vol[tuple(np.array(shape) // 2)] += 0.1
            sym[...] = 0.0
    for bad in (None, [3], (2,)):
        try:
            cryomap.symmetrize_volume(np.zeros((4, 4, 4)), bad)
            check(False, "symmetrize_volume accepted a bad symmetry")
        except ValueError:
            pass


# --------------------------------------------------------------------------------------------------------------------
# change specific checks (written so that they hold on the clean tree as well)
# --------------------------------------------------------------------------------------------------------------------
def test_change_specific():
    # change b: extract_subvolume(..., fill_value=None); None must reproduce the volume mean in every corner
    import tempfile
    from cryocat import pana

    has_fill = "fill_value" in inspect.signature(cryomap.extract_subvolume).parameters
    check(
        list(inspect.signature(cryomap.extract_subvolume).parameters)[:5]
        == ["volume", "coordinates", "subvolume_shape", "enforce_shape", "output_file"],
        "leading parameters of extract_subvolume changed",
    )
    for it in range(30):
        vshape = tuple(int(x) for x in rng.integers(8, 14, 3))
        sshape = tuple(int(x) for x in 2 * rng.integers(1, 5, 3))
        coord = rng.uniform(-4, 16, 3) if it % 2 else np.round(rng.uniform(-4, 16, 3))
        base = rng.normal(size=vshape) * 10 + 2
        for dt in (np.float64, np.float32, np.int16, np.uint8):
            vol = np.abs(base).astype(dt) if dt is np.uint8 else base.astype(dt)
            for enforce in (False, True):
                got = cryomap.extract_subvolume(vol, coord, sshape, enforce)
                exp = o_extract_subvolume(vol, coord, sshape, enforce)
                check(got.dtype == exp.dtype and np.array_equal(got, exp), f"default fill differs from the mean {dt} {enforce}")
                if not enforce and dt is np.float64:
                    check(np.array_equal(got, indep_window(vol, coord, sshape)), "default fill differs from voxel-wise reference")
                if has_fill:
                    g2 = cryomap.extract_subvolume(vol, coord, sshape, enforce, None, None)
                    g3 = cryomap.extract_subvolume(volume=vol, coordinates=coord, subvolume_shape=sshape, enforce_shape=enforce, fill_value=None)
                    check(g2.dtype == exp.dtype and np.array_equal(g2, exp), "fill_value=None (positional) differs")
                    check(g3.dtype == exp.dtype and np.array_equal(g3, exp), "fill_value=None (keyword) differs")
                    g4 = cryomap.extract_subvolume(vol, coord, sshape, enforce, fill_value=-3.5)
                    inside = got == g4
                    check(np.all(g4[~inside] == -3.5), "explicit fill value not used outside")
                    # a later default call is not influenced by an explicit one
                    g5 = cryomap.extract_subvolume(vol, coord, sshape, enforce)
                    check(np.array_equal(g5, exp), "default call after explicit fill differs")
    # the public caller that passes the window by keyword
    d = tempfile.mkdtemp()
    for it in range(6):
        n = int(rng.integers(1, 21))
        tomo = rng.normal(size=(18, 16, 20))
        m = make_motl(n, tomo.shape, fractional=True, edge=(it % 2 == 0))
        m.df["score"] = rng.permutation(n).astype(float)
        path = os.path.join(d, f"m{it}.em")
        m.write_out(path)
        box = (6, 8, 4)
        sub, ang = pana.cut_the_best_subtomo(tomo, path, box, None)
        mm = cryomotl.Motl.load(path)
        mm.update_coordinates()
        row = mm.df.iloc[int(np.argmax(mm.df["score"].to_numpy()))]
        win = indep_window(tomo, row[["x", "y", "z"]].to_numpy(dtype=float) - 1, box)
        exp = cryomap.shift2(win, -row[["shift_x", "shift_y", "shift_z"]].to_numpy(dtype=float))
        check(np.array_equal(sub, exp), "cut_the_best_subtomo window differs")
        check(np.allclose(ang, row[["phi", "theta", "psi"]].to_numpy(dtype=float)), "cut_the_best_subtomo angles differ")


tests = [test_cube_rotations, test_random_rotations, test_windows, test_placement, test_symmetrize, test_change_specific]
# calls in different orders: run once in the given order, then the cheap ones again in reverse order
for t in tests:
    t()
for t in [test_symmetrize, test_windows, test_random_rotations]:
    t()

if FAIL:
    print(f"{len(FAIL)} checks failed")
    sys.exit(1)
print("PASS")
