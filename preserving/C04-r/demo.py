#!/venv/bin/python
"""C04 -- STOPGAP <-> cryoCAT conversion is a lossless renaming with parity half-sets.
Change b: convert_to_sg_motl rejects a table without the shared fields, write_out rejects a path that is neither .star nor .em (both with UserInputError) and takes str(output_path).

Run:  cd /tmp/wt11/C04 && /venv/bin/python /tmp/seedsU/C04/b/demo.py
Checks (1) the property against an independent statement of it (renaming table, half-set rule, motl_idx rule,
own STAR reader, exact round-half-up for update_coord) and (2) the current code against a verbatim copy of the
original StopgapMotl class / converter functions (only renamed to OrigStopgapMotl / orig_*), on the same inputs.
"""
import sys, os

sys.path.insert(0, os.getcwd())
import fractions, inspect, logging, math, shutil, tempfile, warnings

warnings.filterwarnings("ignore", category=SyntaxWarning)  # old escape sequences in the package's sources
import numpy as np
import pandas as pd
from pathlib import Path
from cryocat import cryomotl
from cryocat.cryomotl import Motl, EmMotl, StopgapMotl, emmotl2stopgap, stopgap2emmotl
from cryocat.exceptions import UserInputError

ORIG_TEXT = r'''
class OrigStopgapMotl(Motl):
    pairs = {
        "subtomo_id": "subtomo_num",
        "tomo_id": "tomo_num",
        "object_id": "object",
        "x": "orig_x",
        "y": "orig_y",
        "z": "orig_z",
        "score": "score",
        "shift_x": "x_shift",
        "shift_y": "y_shift",
        "shift_z": "z_shift",
        "phi": "phi",
        "psi": "psi",
        "theta": "the",
        "class": "class",
    }

    columns = [
        "motl_idx",
        "tomo_num",
        "object",
        "subtomo_num",
        "halfset",
        "orig_x",
        "orig_y",
        "orig_z",
        "score",
        "x_shift",
        "y_shift",
        "z_shift",
        "phi",
        "psi",
        "the",
        "class",
    ]

    def __init__(self, input_motl=None):
        super().__init__()
        self.sg_df = pd.DataFrame()

        if input_motl is not None:
            if isinstance(input_motl, OrigStopgapMotl):
                self.df = input_motl.df.copy()
                self.sg_df = input_motl.sg_df.copy()

            elif isinstance(input_motl, pd.DataFrame):
                self.check_df_type(input_motl)
            elif isinstance(input_motl, str):
                sg_df = self.read_in(input_motl)
                self.convert_to_motl(sg_df)
            else:
                raise UserInputError(
                    f"Provided input_motl is neither DataFrame nor path to the motl file: {input_motl}."
                )

    @staticmethod
    def read_in(input_path):
        """Reads in a starfile in stopgap format and returns the particles as a dataframe in stopgap format.

        Parameters
        ----------
        input_path : str
            The path to the starfile in stopgap format.

        Returns
        -------
        pandas.DataFrame
            The dataframe in the stopgap format containing the particles.

        Raises
        ------
        UserInputError
            If the starfile does not exist.
        UserInputError
            If the starfile does not contain the 'data_stopgap_motivelist' specifier, i.e., is not a particle list.

        """

        frames, specifiers, _ = starfileio.Starfile.read(input_path)

        if "data_stopgap_motivelist" not in specifiers:
            raise UserInputError(f"Provided starfile does not contain particle list: {input_path}.")
        else:
            sg_id = starfileio.Starfile.get_specifier_id(specifiers, "data_stopgap_motivelist")
            stopgap_df = frames[sg_id]

        return stopgap_df

    def convert_to_motl(self, stopgap_df, keep_halfsets=False):
        """Converts a stopgap DataFrame to a motl DataFrame and stores it in self.df.

        Parameters
        ----------
        stopgap_df : pandas.DataFrame
            The Stopgap DataFrame to be converted.


        Warnings
        --------
        If the particles are split into A and B halfsets the subtomo_id will be assigned based on them and
        will not correspond to the "subtomo_num" anymore. The "subtomo_num" information will be store in "geom3"
        column instead. New extraction of subtomograms will be neceesary in such a case.

        Notes
        -----
        This method modifies the `df` attribute of the object.

        Returns
        -------
        None

        """

        self.sg_df = stopgap_df

        for em_key, star_key in OrigStopgapMotl.pairs.items():
            self.df[em_key] = stopgap_df[star_key]

        if keep_halfsets:
            if stopgap_df["halfset"].nunique() == 2:
                self.df["geom3"] = [1.0 if hs.lower() == "a" else 0.0 for hs in stopgap_df["halfset"]]
                halfset_num = self.df["geom3"].values % 2
                c = 1 if halfset_num[0] == 1 else 2
                subtomo_id_num = [c]
                for i in range(1, self.df.shape[0]):
                    if (c % 2 == 1 and halfset_num[i] == 1) or (c % 2 == 0 and halfset_num[i] == 0):
                        c += 2
                    else:
                        c += 1
                    subtomo_id_num.append(c)

                self.df["geom3"] = self.df["subtomo_id"]
                self.df["subtomo_id"] = subtomo_id_num

    @staticmethod
    def convert_to_sg_motl(motl_df, reset_index=False):
        """Converts a given motl DataFrame to a Stopgap DataFrame.

        Parameters
        ----------
        motl_df : pandas.DataFrame
            The input DataFrame in motl format.
        reset_index : bool, default=False
            Whether to reset the index of the resulting DataFrame. Defaults to False.

        Returns
        -------
        pandas.DataFrame
            The converted Stopgap DataFrame.

        """

        stopgap_df = pd.DataFrame(data=np.zeros((motl_df.shape[0], 16)), columns=OrigStopgapMotl.columns)

        for em_key, star_key in OrigStopgapMotl.pairs.items():
            stopgap_df[star_key] = motl_df[em_key].values

        stopgap_df["halfset"] = np.where(motl_df["subtomo_id"].mod(2).eq(0).to_numpy(), "A", "B")
        stopgap_df["motl_idx"] = stopgap_df["subtomo_num"]

        stopgap_df = OrigStopgapMotl.sg_df_reset_index(stopgap_df, reset_index)

        return stopgap_df

    @staticmethod
    def sg_df_reset_index(stopgap_df, reset_index=False):
        """Resets the "motl_idx" of a stopgap DataFrame to sequence from 1 to the length of the particle list if
        reset_index is True.

        Parameters
        ----------
        stopgap_df : pandas.DataFrame
            The DataFrame to set the "motl_idx" of.
        reset_index : bool, default=False
            Whether to set the "motl_idx" to a sequence from 1 to the length of the particle list or leave the
            original values. Defaults to False.

        Returns
        -------
        pandas.DataFrame
            The DataFrame with the "motl_idx" either reset to the sequence from 1 to the length of the particle
            list or original values.

        """

        if reset_index:
            stopgap_df["motl_idx"] = range(1, stopgap_df.shape[0] + 1)

        return stopgap_df

    def write_out(self, output_path, update_coord=False, reset_index=False):
        """Writes the OrigStopgapMotl object to a star file unless the extesions of the file is .em in which case it writes
        out the emfile type.

        Parameters
        ----------
        output_path : str
            The path to save the star or em file.
        update_coord : bool, default=False
            Whether to update the coordinates before writing. Defaults to False.
        reset_index : bool, default=False
            Whether to reset the index of the dataframe before writing. Defaults to False.

        Returns
        -------
        None

        See Also
        --------
        :meth:`cryocat.cryomotl.OrigStopgapMotl.sg_df_reset_index`
            Provides more details on index reseting.

        Examples
        --------
        >>> obj = OrigStopgapMotl()
        >>> obj.write("output.star", update_coord=True, reset_index=True)

        """

        if update_coord:
            self.update_coordinates()

        if output_path.endswith(".star"):
            stopgap_df = OrigStopgapMotl.convert_to_sg_motl(self.df, reset_index)
            stopgap_df.fillna(0, inplace=True)
            starfileio.Starfile.write([stopgap_df], output_path, specifiers=["data_stopgap_motivelist"])
        elif output_path.endswith(".em"):
            super().write_out(output_path=output_path, motl_type="emmotl")



def orig_stopgap2emmotl(input_motl, output_motl_path=None, update_coordinates=False):
    sg_motl = OrigStopgapMotl(input_motl)
    em_motl = EmMotl(sg_motl.df)

    if update_coordinates:
        em_motl.update_coordinates()

    if output_motl_path is not None:
        em_motl.write_out(output_motl_path)

    return em_motl


def orig_emmotl2stopgap(input_motl, output_motl_path=None, update_coordinates=False, reset_index=False):
    motl = EmMotl(input_motl)
    sg_motl = OrigStopgapMotl(motl.df)

    if update_coordinates:
        sg_motl.update_coordinates()

    if output_motl_path is not None:
        sg_motl.write_out(output_motl_path, update_coord=False, reset_index=reset_index)

    return sg_motl
'''

ns = dict(vars(cryomotl))
exec(ORIG_TEXT, ns)
Orig = ns["OrigStopgapMotl"]
orig_stopgap2emmotl = ns["orig_stopgap2emmotl"]
orig_emmotl2stopgap = ns["orig_emmotl2stopgap"]

# ---------------------------------------------------------------------------------------------------------------
# independent statement of the property (nothing below is taken from the class under test)
# ---------------------------------------------------------------------------------------------------------------
MOTL_COLUMNS = ["score", "geom1", "geom2", "subtomo_id", "tomo_id", "object_id", "subtomo_mean", "x", "y", "z",
                "shift_x", "shift_y", "shift_z", "geom3", "geom4", "geom5", "phi", "psi", "theta", "class"]
RENAMING = [("score", "score"), ("subtomo_id", "subtomo_num"), ("tomo_id", "tomo_num"), ("object_id", "object"),
            ("x", "orig_x"), ("y", "orig_y"), ("z", "orig_z"), ("shift_x", "x_shift"), ("shift_y", "y_shift"),
            ("shift_z", "z_shift"), ("phi", "phi"), ("psi", "psi"), ("theta", "the"), ("class", "class")]
SG_COLUMNS = ["motl_idx", "tomo_num", "object", "subtomo_num", "halfset", "orig_x", "orig_y", "orig_z", "score",
              "x_shift", "y_shift", "z_shift", "phi", "psi", "the", "class"]
assert len(RENAMING) == 14 and len(SG_COLUMNS) == 16

FAILS = []
COUNT = {"direct": 0, "file": 0, "import": 0, "orig": 0}


def fail(msg):
    FAILS.append(msg)
    if len(FAILS) <= 20:
        print("FAIL:", msg)


def expected_halfset(values):
    out = []
    for v in values:
        v = v.item() if hasattr(v, "item") else v
        out.append("A" if (v == v and not math.isinf(v) and v % 2 == 0) else "B")
    return out


def half_up(v):
    """round half away from zero, exactly (independent of decimal)"""
    f = fractions.Fraction(float(v))
    n = math.floor(abs(f) + fractions.Fraction(1, 2))
    return float(n if f >= 0 else -n)


def expected_after_update(df):
    exp = df.copy()
    for c, s in (("x", "shift_x"), ("y", "shift_y"), ("z", "shift_z")):
        tot = [float(a) + float(b) for a, b in zip(df[c].to_numpy(), df[s].to_numpy())]
        new = [half_up(t) for t in tot]
        exp[c] = np.array(new, dtype=float)
        exp[s] = np.array([t - n for t, n in zip(tot, new)], dtype=float)
    return exp


def parse_star(path):
    """minimal independent reader of a single-block STAR file: returns (specifier, labels, rows of strings)"""
    spec, labels, rows, in_loop = None, [], [], False
    with open(path) as fh:
        for line in fh:
            line = line.split("#")[0].strip()
            if not line:
                continue
            if line.startswith("data_"):
                spec = line
            elif line == "loop_":
                in_loop = True
            elif line.startswith("_") and in_loop:
                labels.append(line[1:].split()[0])
            else:
                rows.append(line.split())
    return spec, labels, rows


def close(a, b):
    a, b = float(a), float(b)
    return abs(a - b) <= 5.01e-7 + 1e-12 * abs(b)


# ---------------------------------------------------------------------------------------------------------------
# inputs
# ---------------------------------------------------------------------------------------------------------------
def make_motl(rng, n, kind):
    d = {}
    for c in MOTL_COLUMNS:
        d[c] = rng.uniform(-500, 500, n)
    d["score"] = rng.uniform(-1, 1, n)
    d["tomo_id"] = rng.integers(1, 400, n).astype(float)
    d["object_id"] = rng.integers(0, 50, n).astype(float)
    d["class"] = rng.integers(-2, 9, n).astype(float)
    d["subtomo_id"] = rng.choice(np.arange(1, 100000), n, replace=False).astype(float)  # non-sequential, unsorted
    d["phi"] = rng.uniform(-180, 180, n)
    d["psi"] = rng.uniform(-180, 180, n)
    d["theta"] = rng.uniform(0, 180, n)
    if kind == "edge":
        # poles of the Euler angles, zeros, negative values, exact .5 ties for the coordinate update
        d["theta"] = rng.choice([0.0, 180.0, 90.0, -0.0, 1e-7], n)
        d["phi"] = rng.choice([0.0, 180.0, -180.0, 360.0, 45.0], n)
        d["psi"] = rng.choice([0.0, -180.0, 180.0, -90.0, 12.5], n)
        d["x"] = rng.integers(-5, 2000, n).astype(float)
        d["y"] = rng.integers(0, 3, n).astype(float)
        d["z"] = np.zeros(n)
        d["shift_x"] = rng.choice([0.5, -0.5, 1.5, -1.5, 2.5, 0.0, 0.49999999, -0.50000001], n)
        d["shift_y"] = rng.choice([0.5, -0.5, 0.0], n)
        d["shift_z"] = rng.choice([0.0, -0.0, 0.25], n)
        d["score"] = rng.choice([0.0, 1.0, -1.0, 1e-7, 123456.789012, 1e6], n)
    df = pd.DataFrame(d, columns=MOTL_COLUMNS)
    if kind == "intids":
        for c in ("subtomo_id", "tomo_id", "object_id", "class"):
            df[c] = df[c].astype("int64")
    if kind == "allint":
        df = df.round().astype("int64")
        df["subtomo_id"] = rng.choice(np.arange(1, 100000), n, replace=False)
    if kind == "f32":
        df = df.astype("float32")
    return df


def reindexed(rng, df, how):
    n = df.shape[0]
    df = df.copy()
    if how == "shuffled":
        df.index = rng.permutation(n)
    elif how == "offset":
        df.index = np.arange(n) + 7
    elif how == "gaps":
        df.index = np.sort(rng.choice(np.arange(0, 10 * n + 5), n, replace=False))
    elif how == "reversed":
        df.index = np.arange(n)[::-1]
    elif how == "dupl":
        df.index = np.zeros(n, dtype=int)
    elif how == "labels":
        df.index = [f"p{i}" for i in range(n)]
    return df


# ---------------------------------------------------------------------------------------------------------------
# checks
# ---------------------------------------------------------------------------------------------------------------
def check_direct(df, reset, tag, cls=None):
    cls = cls or StopgapMotl
    keep = df.copy(deep=True)
    out = cls.convert_to_sg_motl(df, reset) if reset is not None else cls.convert_to_sg_motl(df)
    COUNT["direct"] += 1
    n = df.shape[0]
    try:
        pd.testing.assert_frame_equal(df, keep, check_exact=True)
    except AssertionError:
        fail(f"{tag}: convert_to_sg_motl changed its input")
    if list(out.columns) != SG_COLUMNS:
        fail(f"{tag}: columns {list(out.columns)}")
        return out
    if out.shape[0] != n or list(out.index) != list(range(n)):
        fail(f"{tag}: row count / index of the result")
        return out
    for em, sg in RENAMING:
        a, b = out[sg].to_numpy(), df[em].to_numpy()
        if a.dtype != b.dtype or not np.array_equal(a, b, equal_nan=True):
            fail(f"{tag}: field {em}->{sg} not copied unchanged by position")
    if list(out["halfset"]) != expected_halfset(df["subtomo_id"].to_numpy()):
        fail(f"{tag}: halfset")
    exp_idx = list(range(1, n + 1)) if reset else list(df["subtomo_id"].to_numpy())
    got_idx = list(out["motl_idx"].to_numpy())
    if not all((g == e) or (g != g and e != e) for g, e in zip(got_idx, exp_idx)):
        fail(f"{tag}: motl_idx")
    return out


def same_frames(a, b, tag):
    COUNT["orig"] += 1
    try:
        pd.testing.assert_frame_equal(a, b, check_exact=True)
        if not a.index.equals(b.index) or type(a.index) is not type(b.index):
            raise AssertionError("index")
        for c in a.columns:
            if a[c].dtype != b[c].dtype:
                raise AssertionError("dtype " + c)
    except AssertionError as e:
        fail(f"{tag}: differs from the original code: {str(e)[:200]}")


def check_file(df, update_coord, reset, tmp, tag):
    """df: motl table with finite values; via-object and via-file path"""
    n = df.shape[0]
    expected = df.reset_index(drop=True)
    if update_coord:
        expected = expected_after_update(expected)
    p_new, p_old = os.path.join(tmp, "new.star"), os.path.join(tmp, "old.star")

    new_obj, old_obj = StopgapMotl(df), Orig(df)
    same_frames(new_obj.df, old_obj.df, tag + " ctor")
    new_obj.write_out(p_new, update_coord=update_coord, reset_index=reset)
    old_obj.write_out(p_old, update_coord=update_coord, reset_index=reset)
    COUNT["file"] += 1
    same_frames(new_obj.df, old_obj.df, tag + " after write_out")
    if open(p_new).read() != open(p_old).read():
        fail(f"{tag}: written file differs from the file written by the original code")

    # object state after write_out: the 14 fields of the list, in order
    for em, _ in RENAMING:
        if not all(close(a, b) for a, b in zip(new_obj.df[em].to_numpy(), expected[em].to_numpy())):
            fail(f"{tag}: object field {em} after write_out")

    spec, labels, rows = parse_star(p_new)
    if spec != "data_stopgap_motivelist" or labels != SG_COLUMNS or len(rows) != n:
        fail(f"{tag}: star layout {spec} {labels} {len(rows)}")
        return
    col = {l: [r[i] for r in rows] for i, l in enumerate(labels)}
    for em, sg in RENAMING:
        if not all(close(a, b) for a, b in zip(col[sg], expected[em].to_numpy())):
            fail(f"{tag}: file field {sg} != {em}")
    sub = expected["subtomo_id"].to_numpy()
    if col["halfset"] != expected_halfset(sub):
        fail(f"{tag}: file halfset")
    exp_idx = list(range(1, n + 1)) if reset else [float(s) for s in sub]
    if [float(v) for v in col["motl_idx"]] != [float(v) for v in exp_idx]:
        fail(f"{tag}: file motl_idx")

    # load back
    back, back_old = StopgapMotl(p_new), Orig(p_new)
    COUNT["import"] += 1
    same_frames(back.df, back_old.df, tag + " load")
    same_frames(back.sg_df, back_old.sg_df, tag + " load sg_df")
    if back.df.shape[0] != n or list(back.df.columns) != MOTL_COLUMNS:
        fail(f"{tag}: loaded shape")
    for em, sg in RENAMING:
        if not all(close(a, b) for a, b in zip(back.df[em].to_numpy(), expected[em].to_numpy())):
            fail(f"{tag}: round trip field {em}")
    if list(back.sg_df["halfset"]) != expected_halfset(sub):
        fail(f"{tag}: round trip halfset")

    em_new, em_old = stopgap2emmotl(p_new), orig_stopgap2emmotl(p_new)
    same_frames(em_new.df, em_old.df, tag + " stopgap2emmotl")
    for em, sg in RENAMING:
        if not all(close(a, b) for a, b in zip(em_new.df[em].to_numpy(), expected[em].to_numpy())):
            fail(f"{tag}: stopgap2emmotl field {em}")

    # the converter functions, same options
    q_new, q_old = os.path.join(tmp, "qn.star"), os.path.join(tmp, "qo.star")
    c_new = emmotl2stopgap(df, q_new, update_coordinates=update_coord, reset_index=reset)
    c_old = orig_emmotl2stopgap(df, q_old, update_coordinates=update_coord, reset_index=reset)
    same_frames(c_new.df, c_old.df, tag + " emmotl2stopgap")
    if open(q_new).read() != open(q_old).read() or open(q_new).read() != open(p_new).read():
        fail(f"{tag}: emmotl2stopgap file differs")


def check_import(rng, n, tag):
    """a STOPGAP table built here -> particle list"""
    sg = pd.DataFrame({c: rng.uniform(-300, 300, n) for c in SG_COLUMNS}, columns=SG_COLUMNS)
    sg["subtomo_num"] = rng.choice(np.arange(1, 9999), n, replace=False)
    sg["motl_idx"] = sg["subtomo_num"]
    sg["halfset"] = ["A" if v % 2 == 0 else "B" for v in sg["subtomo_num"]]
    keep = sg.copy(deep=True)
    new_obj, old_obj = StopgapMotl(sg), Orig(sg)
    COUNT["import"] += 1
    same_frames(new_obj.df, old_obj.df, tag)
    pd.testing.assert_frame_equal(sg, keep, check_exact=True)
    if new_obj.df.shape[0] != n:
        fail(f"{tag}: rows")
    for em, s in RENAMING:
        a, b = new_obj.df[em].to_numpy(), sg[s].to_numpy()
        if a.dtype != b.dtype or not np.array_equal(a, b):
            fail(f"{tag}: import field {s}->{em}")
    # and out again, in memory
    out = check_direct(new_obj.df, False, tag + " re-export")
    for em, s in RENAMING:
        if not np.array_equal(out[s].to_numpy(), sg[s].to_numpy()):
            fail(f"{tag}: in-memory round trip {s}")


def run_all(seed=20260928, light=False):
    rng = np.random.default_rng(seed)
    tmp = tempfile.mkdtemp(prefix="c04demo_")
    try:
        sizes = [1, 2, 3, 4, 11, 57, 300] if not light else [1, 2, 5, 30]
        kinds = ["float", "edge", "intids", "allint", "f32"]
        hows = ["default", "shuffled", "offset", "gaps", "reversed", "dupl", "labels"]
        # 1. in-memory export, any row index, any element type, NaN holes, negative / zero / repeated numbers
        for n in sizes + [int(v) for v in rng.integers(1, 301, 6 if not light else 2)]:
            for kind in kinds:
                for how in hows:
                    df = reindexed(rng, make_motl(rng, n, kind), how)
                    for reset in (None, False, True):
                        tag = f"direct n={n} {kind} {how} reset={reset}"
                        out = check_direct(df, reset, tag)
                        same_frames(out, Orig.convert_to_sg_motl(df, bool(reset)), tag)
                        again = check_direct(df, reset, tag + " (2nd call)")
                        same_frames(out, again, tag + " repeat")
            # holes and odd numbers (outside 'finite', still copied unchanged)
            df = make_motl(rng, n, "float")
            for c in MOTL_COLUMNS:
                df.loc[rng.random(n) < 0.2, c] = np.nan
            df.loc[rng.random(n) < 0.2, "subtomo_id"] = rng.choice([0.0, -1.0, -2.0, -3.0, 2.5, np.inf, -np.inf, 6.0])
            df = reindexed(rng, df, "gaps")
            for reset in (False, True):
                out = check_direct(df, reset, f"direct n={n} holes reset={reset}")
                same_frames(out, Orig.convert_to_sg_motl(df, reset), f"direct n={n} holes")
        # 2. via object and via file
        with warnings.catch_warnings():
            warnings.simplefilter("ignore")
            for n in sizes:
                for kind in (["float", "edge", "intids", "allint"] if n < 300 else ["float", "edge"]):
                    for how in (["default", "gaps"] if n > 4 else hows[:5]):
                        df = reindexed(rng, make_motl(rng, n, kind), how)
                        # an all-integer table cannot go through update_coordinates on the unmodified tree either
                        # (decimal.Decimal(numpy.int64) raises TypeError), so it is exported without the update
                        for update_coord in ((False,) if kind == "allint" else (False, True)):
                            for reset in (False, True):
                                if light and (n > 5 and update_coord and reset):
                                    continue
                                check_file(df, update_coord, reset, tmp,
                                           f"file n={n} {kind} {how} upd={update_coord} reset={reset}")
            # repeated calls on the same object
            df = make_motl(rng, 9, "edge")
            a, b = StopgapMotl(df), Orig(df)
            for k, (u, r) in enumerate([(False, False), (True, True), (True, False), (False, True)]):
                pa, pb = os.path.join(tmp, "ra.star"), os.path.join(tmp, "rb.star")
                a.write_out(pa, update_coord=u, reset_index=r)
                b.write_out(pb, update_coord=u, reset_index=r)
                if open(pa).read() != open(pb).read():
                    fail(f"repeated write_out #{k}")
                same_frames(a.df, b.df, f"repeated write_out #{k}")
            # .em branch of write_out still writes the EM file
            pa, pb = os.path.join(tmp, "a.em"), os.path.join(tmp, "b.em")
            a.write_out(pa)
            b.write_out(pb)
            if open(pa, "rb").read() != open(pb, "rb").read():
                fail("em branch of write_out")
            # copy constructor
            c = StopgapMotl(StopgapMotl(os.path.join(tmp, "ra.star")))
            d = Orig(Orig(os.path.join(tmp, "ra.star")))
            same_frames(c.df, d.df, "copy ctor df")
            same_frames(c.sg_df, d.sg_df, "copy ctor sg_df")
        # 3. import of a table
        for n in sizes:
            check_import(rng, n, f"import n={n}")
    finally:
        shutil.rmtree(tmp, ignore_errors=True)


def specific():
    """change b: the validation preamble leaves every valid call alone (covered by run_all) and turns the obscure
    failures outside the quantifier into explicit ones.  On the unmodified tree this part only reports."""
    patched = "_check_motl_fields" in inspect.getsource(StopgapMotl)
    rng = np.random.default_rng(5)
    df = make_motl(rng, 4, "float")
    tmp = tempfile.mkdtemp(prefix="c04demo_b_")
    try:
        # a table that lacks shared fields
        for missing in (["psi"], ["subtomo_id"], ["x", "class"]):
            try:
                StopgapMotl.convert_to_sg_motl(df.drop(columns=missing))
                fail(f"table without {missing} accepted")
            except UserInputError as e:
                if not patched:
                    fail("unexpected UserInputError on the unmodified tree")
                if not all(m in str(e) for m in missing):
                    fail(f"message does not name {missing}: {e}")
            except KeyError:
                if patched:
                    fail(f"table without {missing}: still the bare KeyError")
        # not a table at all
        try:
            StopgapMotl.convert_to_sg_motl(df.to_numpy())
            fail("ndarray accepted")
        except UserInputError:
            if not patched:
                fail("unexpected UserInputError on the unmodified tree")
        except Exception:
            if patched:
                fail("ndarray: still an obscure exception")
        # extra columns are no reason to reject (they were ignored before)
        extra = df.copy()
        extra["note"] = 1.0
        same_frames(StopgapMotl.convert_to_sg_motl(extra), Orig.convert_to_sg_motl(extra), "extra column")
        # write_out: a path with another extension used to write nothing at all, silently
        obj, ref = StopgapMotl(df), Orig(df)
        before = obj.df.copy(deep=True)
        bad = os.path.join(tmp, "particles.txt")
        try:
            with warnings.catch_warnings():
                warnings.simplefilter("ignore")
                obj.write_out(bad, update_coord=True)
            if patched:
                fail("unknown extension accepted")
        except UserInputError:
            if not patched:
                fail("unexpected UserInputError on the unmodified tree")
            same_frames(obj.df, before, "rejected write_out must not touch the list")
        if os.path.exists(bad):
            fail("file written for an unknown extension")
        # str / Path: a str path is used as it is; a Path is accepted by the patched code
        good = os.path.join(tmp, "p.star")
        obj, ref = StopgapMotl(df), Orig(df)
        obj.write_out(good)
        ref.write_out(os.path.join(tmp, "r.star"))
        if open(good).read() != open(os.path.join(tmp, "r.star")).read():
            fail("str path")
        if patched:
            obj.write_out(Path(tmp) / "q.star", reset_index=False)
            if open(os.path.join(tmp, "q.star")).read() != open(good).read():
                fail("Path path writes something else than the str path")
        print("validation probes done (patched tree)" if patched else "validation probes skipped: unmodified tree")
    finally:
        shutil.rmtree(tmp, ignore_errors=True)


if __name__ == "__main__":
    run_all()
    specific()
    print("checked:", COUNT)
    if FAILS:
        print(f"FAIL ({len(FAILS)} failures)")
        sys.exit(1)
    print("PASS")
    sys.exit(0)
