#!/venv/bin/python
"""Demo for property C10 (cyclic symmetry expansion places subunits on the symmetry orbit), change b.

Run as:  cd /tmp/wt11/C10 && /venv/bin/python /tmp/seedsV/C10/b/demo.py

1. checks the property against an independent computation (scipy rotations composed by hand, no polar
   coordinates) for every n in 1..64 given as 'Cn', 'cn' and int, many poses / offsets, repeated calls;
2. compares the function in the tree (patched or not) bit for bit with a verbatim copy of the ORIGINAL
   split_in_asymmetric_subunits / update_coordinates kept below;
3. checks that the caller's table and the offset argument are left untouched.
Prints PASS and exits 0 when everything holds.
"""
import os
import sys

sys.path.insert(0, os.getcwd())

import contextlib
import copy
import io
import textwrap
import warnings

import numpy as np
import pandas as pd
from scipy.spatial.transform import Rotation as R

warnings.simplefilter("ignore")

from cryocat import cryomotl
from cryocat.cryomotl import Motl

# ----------------------------------------------------------------------------------------------------------------
# verbatim text of the original methods (tree at d4d8304)
# ----------------------------------------------------------------------------------------------------------------
ORIG_UPDATE = r'''
    def update_coordinates(self):
        """Aplies the existing shifts to x, y, z positions, rounds the new coordinates and stores them as integer
        positions in x, y, z and stores the rest into shifts. After the positions are updated, new extraction of
        subtomograms is necessery.


        Notes
        -----
        The rounding follows round-half-up convention, not the banker's rounding which is default in Python.

        This method modifies the `df` attribute of the object.

        Parameters
        ----------
        None

        Returns
        -------
        None

        """

        # Python 0.5 rounding: round(1.5) = 2, BUT round(2.5) = 2, while in Matlab round(2.5) = 3
        def round_and_recenter(row):
            new_row = row.copy()
            shifted_x = row["x"] + row["shift_x"]
            shifted_y = row["y"] + row["shift_y"]
            shifted_z = row["z"] + row["shift_z"]
            new_row["x"] = float(decimal.Decimal(shifted_x).to_integral_value(rounding=decimal.ROUND_HALF_UP))
            new_row["y"] = float(decimal.Decimal(shifted_y).to_integral_value(rounding=decimal.ROUND_HALF_UP))
            new_row["z"] = float(decimal.Decimal(shifted_z).to_integral_value(rounding=decimal.ROUND_HALF_UP))
            new_row["shift_x"] = shifted_x - new_row["x"]
            new_row["shift_y"] = shifted_y - new_row["y"]
            new_row["shift_z"] = shifted_z - new_row["z"]
            return new_row

        self.df = self.df.apply(round_and_recenter, axis=1)
        warnings.warn("The coordinates for subtomogram extraction were changed, new extraction is necessary!")
'''

ORIG_SPLIT = r'''
    def split_in_asymmetric_subunits(self, symmetry, xyz_shift):
        """Split the motive list into assymetric subunits.

        Parameters
        ----------
        symmetry : str or number
            Symmetry to be used. Currently cyclic and dihedral symmetry are supported. Cx or
            cx specify the cyclic symmetry of order x, Dx or dx dihedral symmetry of order x. If symmetry is specified
            as int/float, cyclic symmetry is assumed.
        xyz_shift : numpy.ndarray
            Shift by which the center of current particles should be shifted to be centered at first
            subunit.

        Returns
        -------
        :class:`Motl`
            Splitted particle list.

        Warnings
        --------
        This method does not preserve a child class - it always returns :class:`Motl`.

        """
        if isinstance(symmetry, str):
            nfold = int(re.findall(r"\d+", symmetry)[-1])
            if symmetry.lower().startswith("c"):
                s_type = 1  # c symmetry
            elif symmetry.lower().startswith("d"):
                s_type = 2  # d symmetry
            else:
                ValueError("Unknown symmetry - currently only c and are supported!")
        elif isinstance(symmetry, (int, float)):
            s_type = 1  # c symmetry
            nfold = symmetry
        else:
            ValueError(
                "The symmetry has to be specified as a string (starting with c or d) or as a number (float, int)!"
            )

        inplane_step = 360 / nfold

        if s_type == 1:
            n_subunits = nfold
            phi_angles = np.arange(n_subunits) * inplane_step
            new_angles = np.zeros((n_subunits, 3))
            new_angles[:, 0] = phi_angles
        elif s_type == 2:
            n_subunits = nfold * 2
            in_plane_offset = int(inplane_step / 2)
            new_angles = np.zeros((n_subunits, 3))
            new_angles[0::2, 0] = np.arange(0, 360, int(inplane_step))
            new_angles[1::2, 0] = np.arange(0 + in_plane_offset, 360 + in_plane_offset, int(inplane_step))
            new_angles[1::2, 1] = 180

            phi_angles = new_angles[:, 0].copy()

        phi_angles = phi_angles.reshape(
            n_subunits,
        )

        # make up vectors
        starting_vector = np.array(xyz_shift)
        rho = np.sqrt(starting_vector[0] ** 2 + starting_vector[1] ** 2)
        the = np.arctan2(starting_vector[1], starting_vector[0])

        rot_rho = np.full((n_subunits,), rho)
        rep_the = np.full((n_subunits,), the) + np.deg2rad(phi_angles)
        rep_z = np.full((n_subunits,), starting_vector[2])

        if s_type == 2:
            rep_z[1::2] *= -1

        # https://stackoverflow.com/questions/20924085/python-conversion-between-coordinates
        # [center_shift(:, 1), center_shift(:, 2), center_shift(:, 3)] = pol2cart([0;0.785398163397448;1.570796326794897;2.356194490192345;3.141592653589793;3.926990816987241;4.712388980384690;5.497787143782138], repmat(10,8,1), repmat(0,8,1));
        center_shift = np.zeros([rot_rho.shape[0], 3])
        center_shift[:, 0] = rot_rho * np.cos(rep_the)
        center_shift[:, 1] = rot_rho * np.sin(rep_the)
        center_shift[:, 2] = rep_z

        new_motl_df = pd.concat([self.df] * n_subunits)

        new_motl_df["geom5"] = new_motl_df["subtomo_id"]
        new_motl_df = new_motl_df.sort_values(by="subtomo_id")
        new_motl_df["geom2"] = np.tile(np.arange(1, n_subunits + 1).reshape(n_subunits, 1), (len(self.df), 1))

        euler_angles = new_motl_df[["phi", "theta", "psi"]]
        rotations = rot.from_euler(seq="zxz", angles=euler_angles, degrees=True)
        center_shift = np.tile(center_shift, (len(self.df), 1))
        new_angles = np.tile(new_angles, (len(self.df), 1))
        new_motl_df.loc[:, ["shift_x", "shift_y", "shift_z"]] = new_motl_df.loc[
            :, ["shift_x", "shift_y", "shift_z"]
        ] + rotations.apply(center_shift)

        new_rotations = rotations * rot.from_euler(seq="zxz", angles=new_angles, degrees=True)
        new_motl_df.loc[:, ["phi", "theta", "psi"]] = new_rotations.as_euler(seq="zxz", degrees=True)

        new_motl_df["subtomo_id"] = np.arange(1, len(new_motl_df) + 1)
        new_motl = Motl(new_motl_df)
        new_motl.update_coordinates()
        new_motl.df.reset_index(inplace=True, drop=True)
        return new_motl
'''


def build_original_class():
    """Original methods on a subclass; the name Motl inside the original text resolves to that subclass so the
    original split also runs the original update_coordinates."""
    ns = dict(vars(cryomotl))
    src = "class OrigMotl(Motl):\n" + ORIG_UPDATE + "\n" + ORIG_SPLIT
    outer = dict(ns)
    exec(compile(src, "<original>", "exec"), outer)
    orig_cls = outer["OrigMotl"]
    # the functions' globals are `outer`; make `Motl(...)` inside them build the original class
    outer["Motl"] = orig_cls
    return orig_cls


OrigMotl = build_original_class()

COLS = Motl.motl_columns
rng = np.random.default_rng(20240610)


def bits(df):
    """Bit pattern of a float table (distinguishes -0.0 from 0.0, compares NaN equal)."""
    a = np.ascontiguousarray(df[COLS].to_numpy(dtype=np.float64))
    return a.view(np.uint64)


def same_table(a, b):
    return (
        list(a.columns) == list(b.columns)
        and a.index.equals(b.index)
        and type(a.index) is type(b.index)
        and list(a.dtypes) == list(b.dtypes)
        and a.shape == b.shape
        and np.array_equal(bits(a), bits(b))
    )


def random_table(n_part, kind):
    df = pd.DataFrame(np.zeros((n_part, len(COLS))), columns=COLS)
    df["score"] = rng.uniform(0, 1, n_part)
    df["geom1"] = rng.integers(0, 5, n_part).astype(float)
    df["geom2"] = rng.integers(0, 5, n_part).astype(float)
    df["geom3"] = rng.uniform(-3, 3, n_part)
    df["geom4"] = rng.integers(0, 9, n_part).astype(float)
    df["geom5"] = rng.integers(0, 9, n_part).astype(float)
    df["subtomo_mean"] = rng.integers(0, 3, n_part).astype(float)
    df["tomo_id"] = rng.integers(1, 4, n_part).astype(float)
    df["object_id"] = rng.integers(1, 6, n_part).astype(float)
    df["class"] = rng.integers(1, 4, n_part).astype(float)
    if kind == "contiguous":
        ids = np.arange(1, n_part + 1)
    elif kind == "shuffled":
        ids = rng.permutation(np.arange(1, n_part + 1))
    else:  # sparse, unsorted, unique
        ids = rng.choice(np.arange(1, 50 * n_part + 1), size=n_part, replace=False)
    df["subtomo_id"] = ids.astype(float)
    df[["x", "y", "z"]] = rng.integers(-50, 500, (n_part, 3)).astype(float)
    mode = rng.integers(0, 4)
    if mode == 0:
        sh = rng.uniform(-0.5, 0.5, (n_part, 3))
    elif mode == 1:
        sh = rng.uniform(-40, 40, (n_part, 3))
    elif mode == 2:
        sh = rng.choice([-1.5, -0.5, 0.0, 0.5, 1.5, 2.5], (n_part, 3))
    else:
        sh = np.zeros((n_part, 3))
        df[["x", "y", "z"]] = rng.uniform(-50, 500, (n_part, 3))  # non-integer positions are allowed as well
    df[["shift_x", "shift_y", "shift_z"]] = sh
    ang = np.column_stack(
        [rng.uniform(-180, 180, n_part), rng.uniform(0, 180, n_part), rng.uniform(-180, 180, n_part)]
    )
    # a few special poses: identity, gimbal lock at both poles
    for i in range(n_part):
        r = rng.integers(0, 12)
        if r == 0:
            ang[i] = (0.0, 0.0, 0.0)
        elif r == 1:
            ang[i, 1] = 0.0
        elif r == 2:
            ang[i, 1] = 180.0
    df["phi"], df["theta"], df["psi"] = ang[:, 0], ang[:, 1], ang[:, 2]
    if kind == "sparse" and n_part > 1:
        df.index = rng.permutation(np.arange(100, 100 + n_part))  # a non-default (but unique) row index
    return df


def random_offset():
    m = rng.integers(0, 6)
    if m == 0:
        return [0.0, 0.0, float(rng.uniform(-20, 20))]  # on the axis
    if m == 1:
        return [0.0, 0.0, 0.0]
    if m == 2:
        return np.array([float(rng.uniform(-30, 30)), 0.0, 0.0])
    if m == 3:
        return tuple(float(v) for v in rng.uniform(-30, 30, 3))
    if m == 4:
        return [int(v) for v in rng.integers(-20, 20, 3)]
    return rng.uniform(-30, 30, 3)


def quiet_split(motl, symmetry, offset):
    with contextlib.redirect_stdout(io.StringIO()), warnings.catch_warnings():
        warnings.simplefilter("ignore")
        return motl.split_in_asymmetric_subunits(symmetry, offset)


def check_property(parent_df, n, offset, out_df, tag):
    """Independent check of the orbit relation."""
    par = parent_df.sort_values("subtomo_id", kind="stable").reset_index(drop=True)
    n_part = len(par)
    assert len(out_df) == n_part * n, (tag, "count")
    s = np.asarray(offset, dtype=float)
    out = out_df.reset_index(drop=True)
    assert list(out_df.index) == list(range(n_part * n)), (tag, "index")
    # unique subtomogram numbers
    assert out["subtomo_id"].nunique() == len(out), (tag, "unique ids")
    xyz = out[["x", "y", "z"]].to_numpy()
    sh = out[["shift_x", "shift_y", "shift_z"]].to_numpy()
    assert np.array_equal(xyz, np.round(xyz)), (tag, "integer positions")
    assert np.all(np.abs(sh) <= 0.5 + 1e-12), (tag, "shift range", np.abs(sh).max())
    other = [c for c in COLS if c not in ("geom2", "geom5", "subtomo_id", "x", "y", "z", "shift_x", "shift_y",
                                          "shift_z", "phi", "theta", "psi")]
    for i in range(n_part):
        p = par.iloc[i]
        centre = np.array([p["x"] + p["shift_x"], p["y"] + p["shift_y"], p["z"] + p["shift_z"]])
        r_parent = R.from_euler("zxz", [p["phi"], p["theta"], p["psi"]], degrees=True)
        scale = 1.0 + np.abs(centre).max() + np.abs(s).max()
        for k in range(n):
            row = out.iloc[i * n + k]
            r_exp = r_parent * R.from_euler("z", 360.0 * k / n, degrees=True)
            r_got = R.from_euler("zxz", [row["phi"], row["theta"], row["psi"]], degrees=True)
            assert np.allclose(r_got.as_matrix(), r_exp.as_matrix(), atol=1e-9), (tag, "orientation", i, k)
            pos = np.array([row["x"] + row["shift_x"], row["y"] + row["shift_y"], row["z"] + row["shift_z"]])
            assert np.allclose(pos, centre + r_exp.apply(s), atol=1e-9 * scale), (tag, "position", i, k)
            # maps back to the parent's centre
            assert np.allclose(pos - r_got.apply(s), centre, atol=1e-8 * scale), (tag, "back", i, k)
            assert row["geom5"] == p["subtomo_id"], (tag, "geom5")
            assert row["geom2"] == k + 1, (tag, "geom2")
            for c in other:
                assert row[c] == p[c], (tag, c)


def run_case(parent_df, symmetry, n, offset, tag, prop=True):
    motl = Motl(parent_df.copy())
    held = motl.df  # the very object the caller holds
    before = motl.df.copy(deep=True)
    off_before = copy.deepcopy(offset)

    res1 = quiet_split(motl, symmetry, offset)
    res2 = quiet_split(motl, symmetry, offset)  # repeated call on the same objects

    # caller's inputs untouched
    assert motl.df is held, (tag, "df attribute replaced")
    assert same_table(motl.df, before), (tag, "input table changed")
    if isinstance(offset, np.ndarray):
        assert np.array_equal(offset, off_before) and offset.dtype == off_before.dtype, (tag, "offset changed")
    else:
        assert offset == off_before and type(offset) is type(off_before), (tag, "offset changed")
    assert type(res1) is Motl, (tag, "type")
    assert same_table(res1.df, res2.df), (tag, "second call differs")
    assert res1.df is not motl.df

    # original function on an equal, separate object
    omotl = OrigMotl(parent_df.copy())
    ores = quiet_split(omotl, symmetry, copy.deepcopy(off_before))
    assert same_table(res1.df, ores.df), (tag, "differs from the original function")

    if prop:
        check_property(before, n, off_before, res1.df, tag)


def same_failure(parent_df, symmetry, offset, tag):
    """Inputs outside the quantifier: tree and original must fail (or succeed) alike."""
    def attempt(cls):
        try:
            return quiet_split(cls(parent_df.copy()), symmetry, copy.deepcopy(offset)).df
        except Exception as e:  # noqa: BLE001
            return type(e)
    a, b = attempt(Motl), attempt(OrigMotl)
    if isinstance(a, type) or isinstance(b, type):
        assert a is b, (tag, a, b)
    else:
        assert same_table(a, b), tag


def main():
    n_cases = 0
    # exhaustive in n, all three spellings
    for n in range(1, 65):
        for sym in (f"C{n}", f"c{n}", n):
            n_part = int(rng.integers(1, 4))
            kind = ("contiguous", "shuffled", "sparse")[int(rng.integers(0, 3))]
            run_case(random_table(n_part, kind), sym, n, random_offset(), f"n={n} sym={sym!r} {kind}")
            n_cases += 1
    # larger lists
    for n_part, n in ((100, 1), (100, 7), (57, 13), (30, 64), (100, 3), (12, 11)):
        for kind in ("contiguous", "sparse"):
            run_case(random_table(n_part, kind), f"C{n}", n, random_offset(), f"big {n_part}x{n} {kind}")
            n_cases += 1
    # numpy integer as the order goes the same way in the tree and in the original
    # dihedral and odd inputs: not in the property, only equivalence with the original
    small = random_table(3, "shuffled")
    for sym in ("D2", "d3", "D4", "D6", "C08", "c 5", "C2x3"):
        n_sub = None
        run_case(small, sym, n_sub, random_offset(), f"equiv {sym}", prop=False)
        n_cases += 1
    for sym in (3.0, 2.5, np.int64(4), "C0", "C", "X5", None, 0, -2):
        same_failure(small, sym, [1.0, 2.0, 3.0], f"failure {sym!r}")
    for off in ([1.0, 2.0], "abc", None, [[1, 2, 3]], np.array([1, 2, 3])):
        same_failure(small, "C4", off, f"failure offset {off!r}")
    # list with repeated ids (outside the property): still the same output as before
    dup = random_table(4, "contiguous")
    dup.loc[2, "subtomo_id"] = dup.loc[0, "subtomo_id"]
    same_failure(dup, "C5", [3.0, 1.0, -2.0], "repeated ids")

    # update_coordinates on its own: tree vs original, input frame object not modified
    for _ in range(20):
        t = random_table(int(rng.integers(1, 30)), "sparse")
        a, b = Motl(t.copy()), OrigMotl(t.copy())
        held, snap = a.df, a.df.copy(deep=True)
        with warnings.catch_warnings():
            warnings.simplefilter("ignore")
            a.update_coordinates()
            b.update_coordinates()
        assert same_table(a.df, b.df), "update_coordinates differs from the original"
        assert same_table(held, snap), "update_coordinates changed the old frame in place"

    print(f"{n_cases} split cases checked")
    print("PASS")


if __name__ == "__main__":
    main()
