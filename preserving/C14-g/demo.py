import os, sys
sys.path.insert(0, os.getcwd())
import numpy as np
import pandas as pd
from scipy.ndimage import map_coordinates
from cryocat import cryomap
from cryocat.cryomotl import Motl

# Property C14 (placement part): placing an object for a particle list stamps the rotated, thresholded template
# at each particle's complete position (1-based -> 0-based) with the value of the colouring field OF THAT PARTICLE.
# The particle lists here are the ones the per-class / per-tomogram code hands to place_object:
# Motl.get_motl_subset(list of values).  Independent reference: R = Rz(psi) Rx(theta) Rz(phi) (extrinsic zxz), density
# at offset v from the box centre floor(N/2) moves to R v (out[p] = in[c + R^T (p - c)], cubic spline), threshold 0.1,
# window start floor(pos0 - N/2); every quantity of a particle is taken from ITS OWN ROW of the list.


def rz(a):
    a = np.deg2rad(a)
    return np.array([[np.cos(a), -np.sin(a), 0], [np.sin(a), np.cos(a), 0], [0, 0, 1.0]])


def rx(a):
    a = np.deg2rad(a)
    return np.array([[1.0, 0, 0], [0, np.cos(a), -np.sin(a)], [0, np.sin(a), np.cos(a)]])


def rotate_active(vol, R):
    n = np.asarray(vol.shape)
    c = n // 2
    grid = np.stack(np.meshgrid(*[np.arange(k) for k in n], indexing="ij"), axis=0).reshape(3, -1).astype(float)
    src = R.T @ (grid - c[:, None]) + c[:, None]
    return map_coordinates(vol, src, order=3, mode="constant", cval=0.0).reshape(vol.shape)


def reference_placement(template, df, volume_shape, colour_column):
    vol = np.zeros(volume_shape)
    unsure = np.zeros(volume_shape, dtype=bool)
    N = np.asarray(template.shape)
    for r in range(df.shape[0]):
        row = df.iloc[r]
        R = rz(row["psi"]) @ rx(row["theta"]) @ rz(row["phi"])
        rotated = rotate_active(template, R)
        pos0 = np.array([row["x"] + row["shift_x"], row["y"] + row["shift_y"], row["z"] + row["shift_z"]]) - 1.0
        start = np.floor(pos0 - N / 2).astype(int)
        for idx in np.argwhere(rotated > 0.1 - 1e-6):
            p = start + idx
            if np.any(p < 0) or np.any(p >= np.asarray(volume_shape)):
                continue
            if abs(rotated[tuple(idx)] - 0.1) <= 1e-6:
                unsure[tuple(p)] = True
            else:
                vol[tuple(p)] = row[colour_column]
    return vol, unsure


def make_motl(n, rng, volume_shape):
    df = Motl.create_empty_motl_df()
    df = df.reindex(range(n)).fillna(0.0)
    df["tomo_id"] = 1.0
    df["subtomo_id"] = np.arange(1, n + 1, dtype=float)
    df["object_id"] = np.arange(1, n + 1, dtype=float) * 10
    df["class"] = (np.arange(n) % 3 + 1).astype(float)  # classes interleaved along the list, as after classification
    df["score"] = rng.uniform(0.2, 0.9, n)
    lo, hi = 8, np.asarray(volume_shape) - 8
    df[["x", "y", "z"]] = np.floor(rng.uniform(lo, hi, (n, 3)))
    df[["shift_x", "shift_y", "shift_z"]] = np.round(rng.uniform(-2, 2, (n, 3)), 2)
    df["phi"] = rng.uniform(-180, 180, n)
    df["theta"] = rng.uniform(0, 180, n)
    df["psi"] = rng.uniform(-180, 180, n)
    return Motl(df)


# asymmetric binary template in an even box
template = np.zeros((8, 8, 8))
template[2:7, 3:5, 3:5] = 1.0
template[5:7, 3:7, 3:5] = 1.0
template[5:7, 3:5, 3:7] = 1.0

rng = np.random.default_rng(1414)
volume_shape = (40, 36, 32)
bad = []
n_cases = 0
for n in range(1, 21):
    motl = make_motl(n, rng, volume_shape)
    lists = {
        "whole list": motl,
        "get_motl_subset(1) [tomo_id]": motl.get_motl_subset(1),
        "get_motl_subset([1, 2, 3], 'class')": motl.get_motl_subset([1, 2, 3], feature_id="class"),
        "get_motl_subset([3, 1], 'class')": motl.get_motl_subset([3, 1], feature_id="class"),
    }
    for name, plist in lists.items():
        if plist.df.shape[0] == 0:
            continue
        for colour in ("object_id", "score"):
            n_cases += 1
            got = cryomap.place_object(template, plist, volume_shape=volume_shape, feature_to_color=colour)
            exp, unsure = reference_placement(template, plist.df, volume_shape, colour)
            diff = (np.abs(got - exp) > 1e-9) & ~unsure
            if diff.any():
                p = tuple(int(v) for v in np.argwhere(diff)[0])
                bad.append(
                    "%d poses, %s (%d particles), colour=%s: %d voxels differ, e.g. voxel %s holds %r, the particle stamped "
                    "there has %s=%r; index labels of the list: %s"
                    % (n, name, plist.df.shape[0], colour, int(diff.sum()), p, float(got[p]), colour, float(exp[p]),
                       list(plist.df.index[:8]))
                )

if bad:
    print("FAIL: place_object does not stamp each particle with its own colouring value (%d of %d cases)" % (len(bad), n_cases))
    for b in bad[:12]:
        print("  " + b)
    sys.exit(1)
print("PASS: place_object stamps every particle at its position with its own colouring value (%d cases)" % n_cases)
sys.exit(0)
