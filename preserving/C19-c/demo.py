"""C19 demo for change c: trace_chains main loop (helper for the one-sided connection, cached entry
coordinates, single final concat).

Checks the chain-tracing property against an independent distance computation, compares trace_chains,
get_nn_dist, add_chain_suffix and add_chain_prefix with a verbatim copy of the original functions.
"""
ORIG_SRC = r'''def get_nn_dist(kdt, query_point, dist_max, dist_min, active_points, test_value):
    id_max, dist = kdt.query_radius(query_point, dist_max, return_distance=True, sort_results=True)
    # id_max, dist = [a[0] for a in kdt.query_radius(query_point, dist_max, return_distance=True, sort_results=True)]
    id_max = id_max[0]
    dist = dist[0]
    if id_max.size == 0:
        return -1, []

    rp_idx = id_max[active_points[id_max] == test_value]
    rp_dist = dist[active_points[id_max] == test_value]

    if rp_idx.size == 0:
        return -1, []
    elif dist_min >= 0:  # the interval is open at its lower end also for dist_min == 0 (a site at distance 0 is not a neighbour)
        rp_idx = rp_idx[rp_dist > dist_min]
        rp_dist = rp_dist[rp_dist > dist_min]

    if rp_idx.size == 0:
        return -1, []
    else:
        return rp_idx[0], rp_dist[0]


def add_chain_suffix(
    chain_df,
    motl,
    traced_df,
    subtomo_id,
    current_dist,
    store_idx1="object_id",
    store_idx2="geom2",
    store_dist="geom4",
):
    particle_id = motl.df.loc[motl.df.index[subtomo_id], "subtomo_id"]

    temp_cl_id, order_id, previous_dist = traced_df.loc[
        traced_df["subtomo_id"] == particle_id, [store_idx1, store_idx2, store_dist]
    ].values[0]
    chain_max_order = np.max(traced_df.loc[traced_df[store_idx1] == temp_cl_id, [store_idx2]].values)

    if chain_max_order != order_id:  # the closest particle is not the last one
        if previous_dist <= current_dist:  # the original chain holds, do nothing
            return False
        else:  # the new chain is better, cut of the tail of the existing one
            current_class = chain_df[store_idx1].values[0]
            traced_df.loc[
                (traced_df[store_idx1] == temp_cl_id) & (traced_df[store_idx2] > order_id),
                store_idx1,
            ] = current_class
            # the tail keeps its order: the order numbers order_id + 1, order_id + 2, ... become 1, 2, ...
            traced_df.loc[(traced_df[store_idx1] == current_class), store_idx2] -= order_id
            chain_max_order = np.max(
                traced_df.loc[traced_df[store_idx1] == temp_cl_id, [store_idx2]].values
            )  # max changed in the meantime so has to be fetched again

    traced_df.loc[traced_df["subtomo_id"] == particle_id, store_dist] = (
        current_dist  # add distance to the last traced element from the chain (should be 0 before)
    )
    chain_df[store_idx1] = temp_cl_id
    chain_df[store_idx2] += chain_max_order

    return True  # chain was changed


def add_chain_prefix(
    chain_df,
    motl,
    traced_df,
    subtomo_id,
    current_dist,
    store_idx1="object_id",
    store_idx2="geom2",
    store_dist="geom4",
    class_max=None,
):
    # finding out class of the chain that should be appended to the current chain
    particle_id = motl.df.loc[motl.df.index[subtomo_id], "subtomo_id"]
    class_to_change = traced_df.loc[traced_df["subtomo_id"] == particle_id, store_idx1].values[0]

    order_id = traced_df.loc[traced_df["subtomo_id"] == particle_id, store_idx2].values[0]

    current_class = chain_df[store_idx1].values[0]
    cut_off_size = 0

    if order_id != 1:  # the closest particle is NOT the first one in the chain!
        # take the previous particle distance
        previous_dist = traced_df.loc[
            (traced_df[store_idx1] == class_to_change) & (traced_df[store_idx2] == order_id - 1),
            store_dist,
        ].values[0]

        if previous_dist <= current_dist:  # original particle closer -> do not append
            return -1
        else:  # the new particle is closer - change the class/object_id to the one from the current particle
            cut_off_size = traced_df.loc[
                (traced_df[store_idx1] == class_to_change) & (traced_df[store_idx2] < order_id)
            ].shape[0]
            if (
                class_max is None
            ):  # Only appending, the chain object_id value is not used and can be assing to the cut chain
                traced_df.loc[
                    (traced_df[store_idx1] == class_to_change) & (traced_df[store_idx2] < order_id),
                    store_idx1,
                ] = current_class
            else:  # Connectiong from both sides, the chain object_id was changed in the previoius append and cannot be used -> the input from current is used
                traced_df.loc[
                    (traced_df[store_idx1] == class_to_change) & (traced_df[store_idx2] < order_id),
                    store_idx1,
                ] = -1  # class_max[1]

    if class_max is None:
        chain_df[store_idx1] = class_to_change
        class_max = np.max(chain_df[store_idx2].values)
        traced_df.loc[traced_df[store_idx1] == class_to_change, [store_idx2]] += class_max - cut_off_size
    else:
        temp_cl_id = chain_df[store_idx1][0]
        traced_df.loc[traced_df[store_idx1] == class_to_change, [store_idx2]] += class_max[0] - cut_off_size
        traced_df.loc[traced_df[store_idx1] == class_to_change, [store_idx1]] = temp_cl_id
        if order_id != 1:
            traced_df.loc[traced_df[store_idx1] == -1, [store_idx1]] = class_max[1]  # class_to_change

    chain_df.loc[chain_df.index[-1], store_dist] = current_dist


def trace_chains(
    motl_entry,
    motl_exit,
    max_distance,
    min_distance=0,
    feature="tomo_id",
    output_motl=None,
    store_idx1="object_id",
    store_idx2="geom2",
    store_dist="geom4",
):
    motl_entry = cryomotl.Motl.load(motl_entry)
    motl_exit = cryomotl.Motl.load(motl_exit)

    features1 = np.unique(motl_entry.df.loc[:, feature])
    features2 = np.unique(motl_exit.df.loc[:, feature])

    if ~np.all(np.equal(features1, features2)):
        ValueError("Provided motls have different features sets!!!")

    traced_motl = cryomotl.Motl.create_empty_motl_df()

    for f in features1:
        # for f in np.array([2,274,405,423]):
        # for f in np.array([423]):
        # print(f)
        fm_entry = motl_entry.get_motl_subset(f, feature, reset_index=False)
        fm_exit = motl_exit.get_motl_subset(f, feature, reset_index=False)

        nfm_df = cryomotl.Motl.create_empty_motl_df()

        fm_size = fm_entry.df.shape[0]
        remain_entry = np.full((fm_size,), True)
        remain_exit = np.full((fm_size,), True)

        class_c = 1

        coord_entry = fm_entry.get_coordinates()
        coord_exit = fm_exit.get_coordinates()

        kdt_entry = sn.KDTree(coord_entry)
        kdt_exit = sn.KDTree(coord_exit)

        for i, current_point in enumerate(coord_exit):
            if ~remain_exit[i]:
                continue
            else:
                ch_m = cryomotl.Motl.create_empty_motl_df()  # create new chain motl df
                chain_id = 1  # assign chain id
                trace_chain = True
                p_idx = i
                used_idx = []
                # print(i)
                while trace_chain:
                    # take the particle from the exit list
                    # part_process = fm_exit.df.iloc[p_idx]

                    # add the same processed particle from entry list to the chain
                    ch_m = pd.concat([ch_m, fm_entry.df.iloc[[p_idx]]], ignore_index=True)

                    ch_m.loc[ch_m.index[-1], [store_idx2]] = chain_id
                    chain_id += 1

                    # remove currently processed point from both entry and exit
                    remain_entry[p_idx] = False
                    remain_exit[p_idx] = False
                    used_idx.append(p_idx)

                    # prepare coordinates
                    p_coord = coord_exit[p_idx, None, :]

                    if np.all(remain_entry == False):  # no remaining particles, end the chain
                        # np_idx = p_idx
                        np_idx = -1
                    else:
                        # search for the nearest active point
                        np_idx, np_dist = get_nn_dist(
                            kdt_entry,
                            p_coord,
                            max_distance,
                            min_distance,
                            remain_entry,
                            True,
                        )

                    if np_idx != -1:  # continue tracing
                        p_idx = np_idx
                        ch_m.loc[ch_m.index[-1], [store_dist]] = np_dist
                    else:  # end chain
                        ch_m.loc[:, store_idx1] = class_c
                        class_c += 1

                        if nfm_df.size != 0:  # check existing chains for connections
                            first_coord = (
                                ch_m.loc[ch_m.index[0], ["x", "y", "z"]].values
                                + ch_m.loc[ch_m.index[0], ["shift_x", "shift_y", "shift_z"]].values
                            )  # entry point
                            first_coord = first_coord.reshape(1, 3)
                            remain_entry[used_idx] = True
                            remain_exit[used_idx] = True
                            # check if this chain cannot be connected to already an existing one
                            # This can happen if the chain is started "in the middle"
                            nm_idx, nm_dist = get_nn_dist(
                                kdt_entry,
                                p_coord,
                                max_distance,
                                min_distance,
                                remain_entry,
                                False,
                            )
                            first_idx, first_dist = get_nn_dist(
                                kdt_exit,
                                first_coord,
                                max_distance,
                                min_distance,
                                remain_exit,
                                False,
                            )

                            remain_entry[used_idx] = False
                            remain_exit[used_idx] = False

                            # rather rare case where a single particle wants to connect to the same particle in a chain
                            if first_idx == nm_idx and first_idx != -1 and ch_m.shape[0] == 1:
                                if first_dist <= nm_dist:
                                    nm_idx = -1  # add only suffix
                                else:
                                    first_idx = -1  # add only prefix
                            elif first_idx != -1 and nm_idx != -1:
                                part1 = fm_exit.df.loc[fm_exit.df.index[first_idx], "subtomo_id"]
                                part2 = fm_entry.df.loc[fm_entry.df.index[nm_idx], "subtomo_id"]
                                cl1 = nfm_df.loc[nfm_df["subtomo_id"] == part1, store_idx1].values[0]
                                cl2 = nfm_df.loc[nfm_df["subtomo_id"] == part2, store_idx1].values[0]
                                if cl1 == cl2:
                                    if first_dist <= nm_dist:
                                        nm_idx = -1  # add only suffix
                                    else:
                                        first_idx = -1  # add only prefix

                            ch_changed = False  # default is no chain change

                            if first_idx != -1:  # appneding the chain after an existing one
                                ch_changed = add_chain_suffix(
                                    ch_m,
                                    fm_exit,
                                    nfm_df,
                                    first_idx,
                                    first_dist,
                                    store_idx1,
                                    store_idx2,
                                )

                            if nm_idx != -1:  # connecting the chain before an existing one

                                class_max = None

                                # they connect from both sides
                                if ch_changed:
                                    current_class = class_c - 1
                                    cl_max = np.max(ch_m[store_idx2].values)
                                    if cl_max > 1:
                                        if (nfm_df[store_idx1] == current_class).any():
                                            # the number went to a tail cut off by add_chain_suffix, a cut-off head needs its own
                                            current_class = class_c
                                            class_c += 1
                                        class_max = (cl_max, current_class)

                                add_chain_prefix(
                                    ch_m,
                                    fm_entry,
                                    nfm_df,
                                    nm_idx,
                                    nm_dist,
                                    store_idx1,
                                    store_idx2,
                                    class_max=class_max,
                                )

                        nfm_df = pd.concat([nfm_df, ch_m])
                        trace_chain = False

        traced_motl = pd.concat([traced_motl, nfm_df])

    traced_motl = cryomotl.Motl(motl_df=traced_motl)

    if output_motl is not None:
        traced_motl.write_to_emfile(output_motl)

    return traced_motl
'''

import sys, os
sys.path.insert(0, os.getcwd())
import time, types, warnings
warnings.filterwarnings("ignore")
import numpy as np
import pandas as pd
import sklearn.neighbors as sn
from cryocat import cryomotl, ribana

assert os.path.abspath(ribana.__file__).startswith(os.getcwd()), ribana.__file__

# ---------------------------------------------------------------------------------------------------------
# reference copy of the original functions, executed in a namespace that shares ribana's imports
# ---------------------------------------------------------------------------------------------------------
_ns = {k: v for k, v in vars(ribana).items() if not k.startswith("__")}
_ns["__name__"] = "ribana_reference"
exec(compile(ORIG_SRC, "<ribana_reference>", "exec"), _ns)
REF = types.SimpleNamespace(**{k: _ns[k] for k in ("get_nn_dist", "add_chain_suffix", "add_chain_prefix", "trace_chains")})

FAIL = []


def fail(msg):
    FAIL.append(msg)
    if len(FAIL) <= 20:
        print("FAIL:", msg)


# ---------------------------------------------------------------------------------------------------------
# input generators (all inside the quantifier: 2..60 particles, 1..3 tomograms, exit = entry + random vector)
# ---------------------------------------------------------------------------------------------------------
def build_pair(rng, pos_entry, pos_exit, tomo, index_kind="range", shuffle_ids=False, stale=False, shifts=True):
    n = pos_entry.shape[0]
    cols = cryomotl.Motl.motl_columns
    e = pd.DataFrame(0.0, index=np.arange(n), columns=cols)
    e["tomo_id"] = np.asarray(tomo, dtype=float)
    ids = np.arange(1, n + 1, dtype=float)
    if shuffle_ids:
        ids = rng.permutation(ids) + 10.0
    e["subtomo_id"] = ids
    e["class"] = 1.0
    if stale:  # values that tracing has to overwrite
        e["object_id"] = rng.integers(0, 5, n).astype(float)
        e["geom2"] = rng.integers(0, 5, n).astype(float)
        e["geom4"] = rng.uniform(0, 3, n)
    x = e.copy()
    for df, pos in ((e, pos_entry), (x, pos_exit)):
        if shifts:
            df[["x", "y", "z"]] = np.round(pos)
            df[["shift_x", "shift_y", "shift_z"]] = pos - np.round(pos)
        else:
            df[["x", "y", "z"]] = pos
    if index_kind == "shuffled":
        idx = rng.permutation(n) + 100
        e.index = idx
        x.index = idx
    elif index_kind == "offset":
        e.index = np.arange(n) * 3 + 5
        x.index = e.index.copy()
    elif index_kind == "different":  # entry and exit list indexed differently
        e.index = np.arange(n)[::-1].copy()
        x.index = np.arange(n) + 1000
    return cryomotl.Motl(motl_df=e), cryomotl.Motl(motl_df=x)


def gen_case(rng):
    n = int(rng.integers(2, 61))
    ntomo = int(rng.integers(1, 4))
    tomo = rng.integers(1, ntomo + 1, n) * int(rng.choice([1, 1, 7]))
    if rng.random() < 0.4:
        tomo = np.sort(tomo)
    mode = str(rng.choice(["uniform", "cluster", "polysome", "integer", "line"]))
    dmax = float(rng.choice([0.5, 1, 2, 3, 4, 8, 15, 100]))
    dmin = float(rng.choice([0, 0, 0, 0.25, 0.5, 1, 2, 3]))
    if mode == "uniform":
        spread = float(rng.choice([5, 10, 20, 50]))
        pe = rng.uniform(0, spread, (n, 3))
        px = pe + rng.normal(0, float(rng.choice([0.5, 1, 3, 6])), (n, 3))
    elif mode == "cluster":  # dense clusters, everything within reach of everything
        centres = rng.uniform(0, 30, (int(rng.integers(1, 4)), 3))
        pe = centres[rng.integers(0, centres.shape[0], n)] + rng.normal(0, 1.0, (n, 3))
        px = pe + rng.normal(0, float(rng.choice([0.3, 1, 2])), (n, 3))
        dmax = float(rng.choice([1, 2, 3, 5]))
    elif mode == "polysome":  # real chains: entry of the next one close to the exit of the previous one
        pe = np.zeros((n, 3))
        px = np.zeros((n, 3))
        step = float(rng.choice([2, 4]))
        k = 0
        while k < n:
            length = int(rng.integers(1, 9))
            start = rng.uniform(0, 25, 3)
            for _ in range(length):
                if k >= n:
                    break
                pe[k] = start + rng.normal(0, 0.3, 3)
                d = rng.normal(0, 1, 3)
                px[k] = pe[k] + step * d / np.linalg.norm(d)
                start = px[k] + rng.normal(0, 0.4, 3)
                k += 1
        perm = rng.permutation(n)  # chains get started "in the middle"
        pe, px = pe[perm], px[perm]
        dmax = float(rng.choice([1, 1.5, 2.5, 4]))
        dmin = float(rng.choice([0, 0, 0.2, 0.5]))
    elif mode == "integer":  # lattice positions -> many exactly tied distances
        pe = rng.integers(0, 5, (n, 3)).astype(float)
        px = pe + rng.integers(-2, 3, (n, 3)).astype(float)
        dmax = float(rng.choice([1, 2, 3, 5]))
        dmin = float(rng.choice([0, 0, 1, 2]))
    else:  # negative coordinates along a line
        pe = np.zeros((n, 3))
        pe[:, 0] = -rng.permutation(n).astype(float) * 1.5
        px = pe + np.array([1.0, 0.0, 0.0]) + rng.normal(0, 0.2, (n, 3))
        dmax = float(rng.choice([1, 2, 4]))
    me, mx = build_pair(
        rng,
        pe,
        px,
        tomo,
        index_kind=str(rng.choice(["range", "shuffled", "offset", "different"])),
        shuffle_ids=rng.random() < 0.5,
        stale=rng.random() < 0.3,
        shifts=rng.random() < 0.7,
    )
    return me, mx, dmax, dmin, mode


# ---------------------------------------------------------------------------------------------------------
# the property, checked against an independent computation of the site distances
# ---------------------------------------------------------------------------------------------------------
def check_property(me, mx, out, dmax, dmin, tol=1e-9):
    errs = []
    df = out.df
    if sorted(df["subtomo_id"].tolist()) != sorted(me.df["subtomo_id"].tolist()):
        errs.append("particles are not returned exactly once")
    ce = {s: np.array([r.x + r.shift_x, r.y + r.shift_y, r.z + r.shift_z]) for s, r in zip(me.df["subtomo_id"], me.df.itertuples())}
    cx = {s: np.array([r.x + r.shift_x, r.y + r.shift_y, r.z + r.shift_z]) for s, r in zip(mx.df["subtomo_id"], mx.df.itertuples())}
    tomo_of = dict(zip(me.df["subtomo_id"], me.df["tomo_id"]))
    for s, t in zip(df["subtomo_id"], df["tomo_id"]):
        if tomo_of[s] != t:
            errs.append(f"particle {s} moved to tomogram {t}")
    for (t, o), g in df.groupby(["tomo_id", "object_id"]):
        g = g.sort_values("geom2", kind="stable")
        k = g.shape[0]
        if g["geom2"].tolist() != [float(v) for v in range(1, k + 1)]:
            errs.append(f"tomo {t} chain {o}: order numbers {g['geom2'].tolist()}")
            continue
        sids = g["subtomo_id"].tolist()
        rec = g["geom4"].tolist()
        for a in range(k - 1):
            d = float(np.sqrt(((cx[sids[a]] - ce[sids[a + 1]]) ** 2).sum()))
            if not (d > dmin - tol and d <= dmax + tol):
                errs.append(f"tomo {t} chain {o}: link distance {d} outside ({dmin}, {dmax}]")
            if abs(d - rec[a]) > 1e-7:
                errs.append(f"tomo {t} chain {o}: recorded {rec[a]} but distance is {d}")
    return errs


def frames_identical(a, b):
    if list(a.columns) != list(b.columns) or not a.index.equals(b.index) or a.shape != b.shape:
        return False
    if list(a.dtypes) != list(b.dtypes):
        return False
    return bool(np.array_equal(a.to_numpy(dtype=float), b.to_numpy(dtype=float), equal_nan=True))


def outcome(fn):
    try:
        return ("ok", fn())
    except Exception as ex:  # same failure mode is part of the comparison
        return ("exc", type(ex).__name__)


# ---------------------------------------------------------------------------------------------------------
# 1) trace_chains: property + identity with the reference implementation
# ---------------------------------------------------------------------------------------------------------
def sweep_trace(seconds, seed):
    rng = np.random.default_rng(seed)
    t0 = time.time()
    count = 0
    modes = {}
    while time.time() - t0 < seconds:
        me, mx, dmax, dmin, mode = gen_case(rng)
        me0, mx0 = me.df.copy(), mx.df.copy()
        out = ribana.trace_chains(me, mx, dmax, dmin)
        tag = f"[{mode} n={me.df.shape[0]} dmax={dmax} dmin={dmin} case={count}]"
        for e in check_property(me, mx, out, dmax, dmin):
            fail(f"property {tag}: {e}")
        if not (frames_identical(me.df, me0) and frames_identical(mx.df, mx0)):
            fail(f"inputs modified {tag}")
        ref = REF.trace_chains(me, mx, dmax, dmin)
        if not frames_identical(out.df, ref.df):
            fail(f"differs from reference {tag}")
        if count % 5 == 0:  # repeated call on the same objects
            again = ribana.trace_chains(me, mx, dmax, dmin)
            if not frames_identical(out.df, again.df):
                fail(f"repeated call differs {tag}")
        if count % 7 == 0:  # keyword form / explicit defaults
            kw = ribana.trace_chains(motl_entry=me, motl_exit=mx, max_distance=dmax, min_distance=dmin, feature="tomo_id")
            if not frames_identical(out.df, kw.df):
                fail(f"keyword call differs {tag}")
        modes[mode] = modes.get(mode, 0) + 1
        count += 1
    return count, modes


def edge_cases():
    rng = np.random.default_rng(5)
    cases = []
    # two particles that close a ring, a single long straight chain traced from the middle, all coincident sites
    pe = np.array([[0.0, 0, 0], [2.0, 0, 0]])
    px = np.array([[1.9, 0, 0], [0.1, 0, 0]])
    cases.append((pe, px, [1, 1], 1.0, 0.0))
    n = 12
    pe = np.zeros((n, 3)); pe[:, 0] = np.arange(n) * 2.0
    px = pe + np.array([1.5, 0, 0])
    order = np.array([6, 7, 8, 9, 10, 11, 3, 4, 5, 0, 1, 2])
    cases.append((pe[order], px[order], [3] * n, 1.0, 0.0))
    cases.append((pe[order], px[order], [3] * n, 1.0, 0.5))
    cases.append((pe[order], px[order], [3] * n, 0.5, 0.5))  # distance == max_distance == min_distance
    cases.append((pe[order], px[order], [1, 2] * 6, 1.0, 0.0))
    cases.append((np.zeros((5, 3)), np.zeros((5, 3)), [1] * 5, 1.0, 0.0))  # all distances 0
    cases.append((np.zeros((5, 3)), np.zeros((5, 3)), [1] * 5, 1.0, 0.1))
    pe = rng.integers(-3, 3, (40, 3)).astype(float)
    cases.append((pe, pe[::-1].copy(), [1] * 40, 2.0, 0.0))
    cases.append((pe, pe + 1.0, [2] * 20 + [1] * 20, 3.0, 1.0))
    for pe, px, tomo, dmax, dmin in cases:
        for ik in ("range", "shuffled", "different"):
            me, mx = build_pair(rng, np.asarray(pe, float), np.asarray(px, float), tomo, index_kind=ik, shuffle_ids=ik != "range")
            out = ribana.trace_chains(me, mx, dmax, dmin)
            for e in check_property(me, mx, out, dmax, dmin):
                fail(f"edge property: {e}")
            if not frames_identical(out.df, REF.trace_chains(me, mx, dmax, dmin).df):
                fail("edge case differs from reference")
    return len(cases) * 3


# ---------------------------------------------------------------------------------------------------------
# 2) get_nn_dist: brute force + reference
# ---------------------------------------------------------------------------------------------------------
def sweep_nn(iterations, seed):
    rng = np.random.default_rng(seed)
    for it in range(iterations):
        n = int(rng.integers(1, 40))
        if rng.random() < 0.4:
            pts = rng.integers(-3, 4, (n, 3)).astype(float)
            q = rng.integers(-3, 4, (1, 3)).astype(float)
        else:
            pts = rng.normal(0, 2, (n, 3))
            q = rng.normal(0, 2, (1, 3))
        tree = sn.KDTree(pts)
        active = rng.random(n) < rng.choice([0.0, 0.2, 0.5, 0.8, 1.0])
        tv = bool(rng.random() < 0.5)
        dmax = float(rng.choice([0.5, 1, 2, 3, 5, 50]))
        dmin = float(rng.choice([0, 0, 0.5, 1, 2, 3, 60]))
        got = ribana.get_nn_dist(tree, q, dmax, dmin, active, tv)
        ref = REF.get_nn_dist(tree, q, dmax, dmin, active, tv)
        same = (got[0] == ref[0]) and (
            (isinstance(ref[1], list) and isinstance(got[1], list) and got[1] == ref[1])
            or (not isinstance(ref[1], list) and not isinstance(got[1], list) and got[1] == ref[1])
        )
        if not same or type(got[0]) is not type(ref[0]) or type(got[1]) is not type(ref[1]):
            fail(f"get_nn_dist differs from reference: {got} vs {ref}")
        d = np.sqrt(((pts - q) ** 2).sum(axis=1))
        ok = (active == tv) & (d <= dmax + 1e-12) & (d > dmin)
        ok_strict = (active == tv) & (d <= dmax - 1e-9) & (d > dmin + 1e-9)
        if got[0] == -1:
            if ok_strict.any():
                fail(f"get_nn_dist missed a point: {np.flatnonzero(ok_strict)} d={d[ok_strict]}")
        else:
            j = int(got[0])
            if not (active[j] == tv) or abs(d[j] - got[1]) > 1e-9 or d[j] > dmax + 1e-9 or (dmin > 0 and d[j] <= dmin - 1e-9):
                fail(f"get_nn_dist returned an ineligible point {got}")
            if ok_strict.any() and d[ok_strict].min() < d[j] - 1e-9:
                fail(f"get_nn_dist did not return the nearest point {got}")
    return iterations


# ---------------------------------------------------------------------------------------------------------
# 3) add_chain_suffix / add_chain_prefix on synthetic chain tables (all branches, also those tracing rarely hits)
# ---------------------------------------------------------------------------------------------------------
def synthetic_state(rng):
    cols = cryomotl.Motl.motl_columns
    nchains = int(rng.integers(1, 5))
    lengths = rng.integers(1, 7, nchains)
    labels = rng.permutation(np.arange(1, 12))[:nchains].astype(float)
    parts = []
    sid = 1
    for lab, k in zip(labels, lengths):
        c = pd.DataFrame(0.0, index=np.arange(k), columns=cols)  # duplicate index labels as in the real table
        c["object_id"] = lab
        c["geom2"] = np.arange(1, k + 1, dtype=float)
        c["geom4"] = rng.integers(1, 6, k).astype(float) / 2.0
        c["subtomo_id"] = np.arange(sid, sid + k, dtype=float)
        sid += k
        if rng.random() < 0.3:
            c = c.iloc[rng.permutation(k)]
        parts.append(c)
    traced = pd.concat(parts)
    ntraced = traced.shape[0]
    L = int(rng.integers(1, 5))
    chain = pd.DataFrame(0.0, index=np.arange(L), columns=cols)
    chain["subtomo_id"] = np.arange(sid, sid + L, dtype=float)
    new_class = 20.0
    both = rng.random() < 0.5
    class_max = None
    if both:  # chain already attached behind an existing chain
        host = labels[int(rng.integers(0, nchains))]
        host_len = float((traced["object_id"] == host).sum())
        chain["object_id"] = host
        chain["geom2"] = np.arange(1, L + 1, dtype=float) + host_len
        if L > 1 or rng.random() < 0.5:
            class_max = (float(chain["geom2"].max()), new_class)
    else:
        chain["object_id"] = new_class
        chain["geom2"] = np.arange(1, L + 1, dtype=float)
    chain["geom4"] = rng.integers(0, 4, L).astype(float) / 2.0
    all_ids = np.concatenate([traced["subtomo_id"].to_numpy(), chain["subtomo_id"].to_numpy()])
    mdf = pd.DataFrame(0.0, index=rng.permutation(all_ids.size) + 50, columns=cols)
    mdf["subtomo_id"] = rng.permutation(all_ids)
    target_sid = traced["subtomo_id"].to_numpy()[int(rng.integers(0, ntraced))]
    pos = int(np.flatnonzero(mdf["subtomo_id"].to_numpy() == target_sid)[0])
    motl = types.SimpleNamespace(df=mdf)
    dist = float(rng.integers(1, 6)) / 2.0
    return chain, motl, traced, pos, dist, class_max


def sweep_helpers(iterations, seed):
    rng = np.random.default_rng(seed)
    branches = {}
    for it in range(iterations):
        chain, motl, traced, pos, dist, class_max = synthetic_state(rng)
        # suffix (only meaningful for a fresh chain, but compared in every state)
        c1, t1, c2, t2 = chain.copy(), traced.copy(), chain.copy(), traced.copy()
        r1 = outcome(lambda: ribana.add_chain_suffix(c1, motl, t1, pos, dist, "object_id", "geom2"))
        r2 = outcome(lambda: REF.add_chain_suffix(c2, motl, t2, pos, dist, "object_id", "geom2"))
        if r1 != r2 or not frames_identical(c1, c2) or not frames_identical(t1, t2):
            fail(f"add_chain_suffix differs from reference (iteration {it}): {r1} vs {r2}")
        branches["suffix", str(r2)] = branches.get(("suffix", str(r2)), 0) + 1
        # prefix
        c1, t1, c2, t2 = chain.copy(), traced.copy(), chain.copy(), traced.copy()
        r1 = outcome(lambda: ribana.add_chain_prefix(c1, motl, t1, pos, dist, "object_id", "geom2", class_max=class_max))
        r2 = outcome(lambda: REF.add_chain_prefix(c2, motl, t2, pos, dist, "object_id", "geom2", class_max=class_max))
        if r1 != r2 or not frames_identical(c1, c2) or not frames_identical(t1, t2):
            fail(f"add_chain_prefix differs from reference (iteration {it}): {r1} vs {r2}")
        branches["prefix", str(r2), class_max is not None] = branches.get(("prefix", str(r2), class_max is not None), 0) + 1
    return branches


def main(trace_seconds, nn_iterations, helper_iterations):
    t0 = time.time()
    n_edge = edge_cases()
    n_trace, modes = sweep_trace(trace_seconds, seed=2024)
    n_nn = sweep_nn(nn_iterations, seed=7)
    br = sweep_helpers(helper_iterations, seed=11)
    print(f"trace_chains: {n_edge} edge cases + {n_trace} random cases {modes}")
    print(f"get_nn_dist: {n_nn} random queries; suffix/prefix: {helper_iterations} synthetic states, outcomes {br}")
    print(f"elapsed {time.time() - t0:.1f} s")
    if FAIL:
        print(f"FAIL ({len(FAIL)} problems)")
        sys.exit(1)
    print("PASS")


if __name__ == "__main__":
    main(trace_seconds=60, nn_iterations=1000, helper_iterations=300)
