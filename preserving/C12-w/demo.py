#!/venv/bin/python
"""C12 -- Fourier filters are the documented radial low/high/band-pass gains.

Change b (loop state restructured): cryomask.spherical_mask, the transfer function of all three filters, no longer
builds three dense np.mgrid index volumes and one sum expression; it preallocates the squared-distance volume and
fills it in a loop over the three axes (enumerate / zip over sizes and center, one broadcast index vector per axis).

The demo
  1. checks the property against an independent computation (integer frequency radius from fftfreq, binary gain for a
     hard edge, scipy.ndimage.gaussian_filter of the centred binary sphere for a soft edge, plane waves, random fields),
  2. compares cryomask.spherical_mask of the tree under test with a verbatim copy of the original function, bit for bit
     (sizes as int / tuple / list / array, cubic and non-cubic, radius given / None / float, centers, gaussian 0..4
     inwards and outwards, written files), and lowpass / highpass / bandpass built on it with the same filters built on
     the original (returned arrays, band.em, printed lines),
  3. checks that the caller's arrays (maps, size and center containers) are left untouched and that repeated calls give
     the same result.
Run as: cd /tmp/wt13/C12 && /venv/bin/python /tmp/seedsW/C12/b/demo.py
"""
import sys, os

sys.path.insert(0, os.getcwd())
import io, contextlib, copy, itertools, shutil, tempfile
import numpy as np
from scipy import ndimage

from cryocat import cryomap, cryomask

# bandpass writes "band.em" into the current directory: work in a scratch directory, not in the source tree
_SCRATCH = tempfile.mkdtemp(prefix="c12b_")
os.chdir(_SCRATCH)

rng = np.random.default_rng(12012)
FAILS = []
NCHECK = [0]


def check(cond, msg):
    NCHECK[0] += 1
    if not cond:
        FAILS.append(msg)
        if len(FAILS) <= 25:
            print("FAIL:", msg)


def quiet(fn, *a, **k):
    buf = io.StringIO()
    with contextlib.redirect_stdout(buf):
        out = fn(*a, **k)
    return out, buf.getvalue()


# ----------------------------------------------------------------------------------------------------------------------
# verbatim copy of the original cryomask.spherical_mask (HEAD b1093bd), executed in the namespace of cryocat.cryomask
ORIG_SPHERICAL_MASK = '''
def spherical_mask(mask_size, radius=None, center=None, gaussian=0.0, gaussian_outwards=True, output_name=None):
    mask_size = get_correct_format(mask_size)
    center = get_correct_format(center, reference_size=mask_size)

    if radius is None:
        radius = np.amin(mask_size) // 2

    radius = preprocess_params(radius, gaussian, gaussian_outwards)

    x, y, z = np.mgrid[0 : mask_size[0] : 1, 0 : mask_size[1] : 1, 0 : mask_size[2] : 1]
    mask = np.sqrt((x - center[0]) ** 2 + (y - center[1]) ** 2 + (z - center[2]) ** 2)
    mask[mask > radius] = 0
    mask[mask > 0] = 1
    if radius >= 0:
        # the distance map is zero at the center, so the center has to be set explicitly (a negative radius is an empty sphere)
        mask[center[0], center[1], center[2]] = 1

    mask = postprocess(mask, gaussian, np.asarray([0, 0, 0]), output_name)

    return mask
'''
_ns = dict(vars(cryomask))
exec(ORIG_SPHERICAL_MASK, _ns)
orig_spherical_mask = _ns["spherical_mask"]


def with_original_mask(fn):
    """fn (a cryomap filter, which looks up cryomask.spherical_mask at call time) built on the original mask"""

    def run(*a, **k):
        current = cryomask.spherical_mask
        cryomask.spherical_mask = orig_spherical_mask
        try:
            return fn(*a, **k)
        finally:
            cryomask.spherical_mask = current

    return run


orig_bandpass = with_original_mask(cryomap.bandpass)
orig_lowpass = with_original_mask(cryomap.lowpass)
orig_highpass = with_original_mask(cryomap.highpass)


def same(a, b):
    return a.dtype == b.dtype and a.shape == b.shape and np.array_equal(a, b)


def check_spherical_mask():
    """tree under test against the original text, bit for bit"""
    sizes = [8, 9, 13, 24, 48, (8, 8, 8), [12, 10, 8], np.array([11, 14, 9]), (31, 17, 23), [8, 40, 13], (48, 32, 40),
             [16], (20.0, 21.7, 9.2), np.array([10.0, 12.0, 15.0]), 17.9]
    n = 0
    for size in sizes:
        dims = cryomask.get_correct_format(size)
        half = int(dims.min()) // 2
        centers = [None, tuple(int(d) // 2 for d in dims), [0, 0, 0], [int(d) - 1 for d in dims],
                   np.array([int(rng.integers(0, d)) for d in dims]), [2.9, 3.2, 1.5], (-1, -2, -3), [3]]
        radii = [None, 0, 1, 2, half // 2 + 1, half - 1, half, half + 3, 2.5, float(half), np.int64(3), -1, 10 * half]
        for center in centers:
            for radius in radii:
                if center is not None and center is not centers[1] and rng.random() < 0.5:
                    continue
                for gaussian, outwards in [(0, False), (0.0, True), (1, False), (2, True), (rng.choice([3, 4, 1.5]), False)]:
                    if dims.prod() > 20000 and rng.random() < 0.7:
                        continue
                    size_before = copy.deepcopy(size)
                    center_before = copy.deepcopy(center)
                    kw = dict(radius=radius, center=center, gaussian=gaussian, gaussian_outwards=outwards)
                    new = cryomask.spherical_mask(size, **kw)
                    old = orig_spherical_mask(size, **kw)
                    n += 1
                    check(same(new, old), f"spherical_mask({size}, {kw}) differs from the original")
                    check(same(new, cryomask.spherical_mask(size, **kw)), f"spherical_mask({size}, {kw}) repeated call")
                    check(type(size) is type(size_before) and np.array_equal(size, size_before),
                          f"spherical_mask({size}, {kw}): mask_size was modified")
                    check(center is None or (type(center) is type(center_before) and np.array_equal(center, center_before)),
                          f"spherical_mask({size}, {kw}): center was modified")
    # written out: the same file
    for size, radius, gaussian in [((12, 10, 8), 3, 0), (16, 5, 2), ((9, 9, 9), None, 1)]:
        new = cryomask.spherical_mask(size, radius=radius, gaussian=gaussian, gaussian_outwards=False, output_name="m_new.em")
        old = orig_spherical_mask(size, radius=radius, gaussian=gaussian, gaussian_outwards=False, output_name="m_old.em")
        check(same(new, old) and open("m_new.em", "rb").read() == open("m_old.em", "rb").read(),
              f"spherical_mask({size}, {radius}, {gaussian}) written file differs")
    # the same refusals
    for bad in [dict(mask_size=(8, 8)), dict(mask_size=8, center=(1, 2)), dict(mask_size=None)]:
        got = []
        for fn in (cryomask.spherical_mask, orig_spherical_mask):
            try:
                fn(**bad)
                got.append("no error")
            except Exception as e:
                got.append((type(e).__name__, str(e)))
        check(got[0] == got[1] and got[0] != "no error", f"spherical_mask({bad}): {got}")
    # the mask is the centred hard low-pass table: 1 up to the radius, 0 beyond, for every box of the quantifier
    for shape in SHAPES:
        for cutoff in range(1, shape[0] // 2 + 1):
            m = cryomask.spherical_mask(shape, cutoff, gaussian=0, gaussian_outwards=False)
            r2, _ = freq_r2(shape)
            check(same(np.fft.ifftshift(m), (r2 <= cutoff * cutoff).astype(float)),
                  f"spherical_mask({shape}, {cutoff}) is not the hard low-pass table")
    return n


# ----------------------------------------------------------------------------------------------------------------------
# independent reference
def freq_r2(shape):
    """squared integer frequency radius of every DFT component (numpy layout, zero frequency first)"""
    ks = [np.rint(np.fft.fftfreq(n) * n).astype(int) for n in shape]
    kx, ky, kz = np.meshgrid(*ks, indexing="ij")
    return kx**2 + ky**2 + kz**2, (kx, ky, kz)


def ref_lowpass_gain(shape, cutoff, sigma):
    """documented low-pass gain in numpy DFT layout"""
    r2, _ = freq_r2(shape)
    hard = (r2 <= cutoff * cutoff).astype(float)
    if sigma == 0:
        return hard
    # soft edge: the hard sphere blurred in the centred frequency grid (edge replicated, kernel cut at 4 sigma)
    centred = np.fft.fftshift(hard)
    soft = np.fft.ifftshift(ndimage.gaussian_filter(centred, sigma=sigma, mode="nearest", truncate=4.0))
    # where the blurred sphere touches the (replicated) border of an even axis the table is not symmetric under
    # k -> -k; taking the real part of the inverse transform then acts with the mean of the gains at k and -k
    return 0.5 * (soft + np.roll(soft[::-1, ::-1, ::-1], 1, axis=(0, 1, 2)))


def apply_gain(x, gain):
    return np.real(np.fft.ifftn(np.fft.fftn(x) * gain))


def close(a, b, scale=1.0, tol=1e-9):
    return a.shape == b.shape and float(np.max(np.abs(a - b), initial=0.0)) <= tol * max(scale, 1.0)


def random_map(shape, kind):
    x = rng.normal(size=shape) * rng.uniform(0.5, 20) + rng.uniform(-5, 5)
    if kind == "f32":
        return x.astype(np.float32)
    if kind == "i16":
        return np.rint(x * 10).astype(np.int16)
    return x


def plane_wave(shape, k, phase):
    grids = np.meshgrid(*[np.arange(n) for n in shape], indexing="ij")
    arg = sum(2 * np.pi * ki * g / n for ki, g, n in zip(k, grids, shape))
    return np.cos(arg + phase)


# ----------------------------------------------------------------------------------------------------------------------
def check_config(shape, cutoff, sigma, full_waves):
    tag = f"shape={shape} cutoff={cutoff} sigma={sigma}"
    G = ref_lowpass_gain(shape, cutoff, sigma)
    r2, (kx, ky, kz) = freq_r2(shape)
    r = np.sqrt(r2)

    # --- documented shape of the gain, on the gain measured from an impulse ------------------------------------------
    delta = np.zeros(shape)
    delta[0, 0, 0] = 1.0
    (imp, _) = quiet(cryomap.lowpass, delta, fourier_pixels=cutoff, gaussian=sigma)
    Gm_c = np.fft.fftn(imp)
    check(np.max(np.abs(Gm_c.imag)) < 1e-9, f"{tag}: measured gain is not real")
    Gm = Gm_c.real
    check(close(Gm, G), f"{tag}: measured low-pass gain differs from the documented one")
    check(Gm.min() >= -1e-9 and Gm.max() <= 1 + 1e-9, f"{tag}: gain leaves [0,1]")
    if sigma == 0:
        check(np.all(np.abs(Gm[r2 <= cutoff * cutoff] - 1) < 1e-9), f"{tag}: hard edge, gain != 1 inside the cutoff")
        check(np.all(np.abs(Gm[r2 > cutoff * cutoff]) < 1e-9), f"{tag}: hard edge, gain != 0 beyond the cutoff")
    else:
        # (the kernel is cut at 4 sigma per axis, i.e. on a cube: the bounds hold up to the Gaussian tail beyond it)
        check(np.all(np.abs(Gm[r <= cutoff - 4 * sigma - 1] - 1) < 1e-3), f"{tag}: soft edge, gain != 1 in the core")
        check(np.all(np.abs(Gm[r >= cutoff + 4 * sigma + 1]) < 1e-3), f"{tag}: soft edge, gain != 0 far outside")
    # non-increasing along the positive half of every frequency axis
    for ax, n in enumerate(shape):
        idx = [0, 0, 0]
        ray = []
        for j in range(0, (n - 1) // 2 + 1):
            idx[ax] = j
            ray.append(Gm[tuple(idx)])
        check(np.all(np.diff(ray) <= 1e-9), f"{tag}: gain increases with the radius along axis {ax}")
    # symmetric under k -> -k (real filter)
    Gneg = np.roll(Gm[::-1, ::-1, ::-1], 1, axis=(0, 1, 2))
    check(close(Gm, Gneg), f"{tag}: gain is not symmetric under k -> -k")

    # --- random fields: gain, linearity, shifts, real output, complement, inputs untouched ---------------------------
    for kind in ("f64", "f32", "i16"):
        x = random_map(shape, kind)
        x_before = x.copy()
        # float32 maps are transformed in single precision by numpy
        sc = float(np.abs(x).max()) * x.size ** 0.5 * (1e4 if kind == "f32" else 1.0)
        (lx, _) = quiet(cryomap.lowpass, x, fourier_pixels=cutoff, gaussian=sigma)
        check(lx.dtype.kind == "f" and lx.shape == tuple(shape), f"{tag} {kind}: low-pass output is not a real map")
        check(close(lx, apply_gain(x, G), sc), f"{tag} {kind}: lowpass(x) != ifft(G * fft(x))")
        (hx, _) = quiet(cryomap.highpass, x, fourier_pixels=cutoff, gaussian=sigma)
        check(hx.dtype.kind == "f", f"{tag} {kind}: high-pass output is not real")
        check(close(hx, x.astype(float) - lx, sc), f"{tag} {kind}: highpass != x - lowpass")
        check(close(hx, apply_gain(x, 1.0 - G), sc), f"{tag} {kind}: highpass(x) != ifft((1-G) * fft(x))")
        (lx2, _) = quiet(cryomap.lowpass, x, fourier_pixels=cutoff, gaussian=sigma)
        check(np.array_equal(lx, lx2), f"{tag} {kind}: a repeated call gives another result")
        (lxo, _) = quiet(orig_lowpass, x, fourier_pixels=cutoff, gaussian=sigma)
        (hxo, _) = quiet(orig_highpass, x, fourier_pixels=cutoff, gaussian=sigma)
        check(same(lx, lxo), f"{tag} {kind}: lowpass differs from lowpass on the original spherical_mask")
        check(same(hx, hxo), f"{tag} {kind}: highpass differs from highpass on the original spherical_mask")
        check(np.array_equal(x, x_before) and x.dtype == x_before.dtype, f"{tag} {kind}: input map was modified")

    x = random_map(shape, "f64")
    y = random_map(shape, "f64")
    a, b = rng.uniform(-3, 3, size=2)
    sc = float(np.abs(x).max() + np.abs(y).max()) * 3 * x.size ** 0.5
    for fn in (cryomap.lowpass, cryomap.highpass):
        (fx, _) = quiet(fn, x, fourier_pixels=cutoff, gaussian=sigma)
        (fy, _) = quiet(fn, y, fourier_pixels=cutoff, gaussian=sigma)
        (fxy, _) = quiet(fn, a * x + b * y, fourier_pixels=cutoff, gaussian=sigma)
        check(close(fxy, a * fx + b * fy, sc), f"{tag}: {fn.__name__} is not linear")
        s = tuple(int(rng.integers(0, n)) for n in shape)
        (fs, _) = quiet(fn, np.roll(x, s, axis=(0, 1, 2)), fourier_pixels=cutoff, gaussian=sigma)
        check(close(fs, np.roll(fx, s, axis=(0, 1, 2)), sc), f"{tag}: {fn.__name__} does not commute with shift {s}")

    # --- pure plane waves -------------------------------------------------------------------------------------------
    if full_waves:
        freqs = list(zip(kx.ravel().tolist(), ky.ravel().tolist(), kz.ravel().tolist()))
    else:
        pick = rng.choice(kx.size, size=12, replace=False)
        freqs = [(int(kx.ravel()[p]), int(ky.ravel()[p]), int(kz.ravel()[p])) for p in pick]
    bad_l = bad_h = 0
    for k in freqs:
        w = plane_wave(shape, k, rng.uniform(0, 2 * np.pi))
        g = G[k[0] % shape[0], k[1] % shape[1], k[2] % shape[2]]
        (lw, _) = quiet(cryomap.lowpass, w, fourier_pixels=cutoff, gaussian=sigma)
        (hw, _) = quiet(cryomap.highpass, w, fourier_pixels=cutoff, gaussian=sigma)
        bad_l += not close(lw, g * w, 1.0, 1e-8)
        bad_h += not close(hw, (1 - g) * w, 1.0, 1e-8)
    check(bad_l == 0, f"{tag}: {bad_l} plane waves are not scaled by the low-pass gain of their radius")
    check(bad_h == 0, f"{tag}: {bad_h} plane waves are not scaled by the high-pass gain of their radius")


def check_bandpass(shape, lp, hp, lp_sigma, hp_sigma, kind):
    """band-pass = difference of its two low-passes; tree under test == original text"""
    tag = f"bandpass shape={shape} lp={lp}/{lp_sigma} hp={hp}/{hp_sigma} {kind}"
    x = random_map(shape, kind)
    x_before = x.copy()
    sc = float(np.abs(x).max()) * x.size ** 0.5 * (1e4 if kind == "f32" else 1.0)
    if os.path.exists("band.em"):
        os.remove("band.em")
    (bp, out_new) = quiet(
        cryomap.bandpass, x, lp_fourier_pixels=lp, hp_fourier_pixels=hp, lp_gaussian=lp_sigma, hp_gaussian=hp_sigma
    )
    band_new = open("band.em", "rb").read() if os.path.exists("band.em") else None
    check(np.array_equal(x, x_before) and x.dtype == x_before.dtype, f"{tag}: input map was modified")
    check(bp.dtype.kind == "f" and bp.shape == tuple(shape), f"{tag}: output is not a real map")
    (l1, _) = quiet(cryomap.lowpass, x, fourier_pixels=lp, gaussian=lp_sigma)
    (l2, _) = quiet(cryomap.lowpass, x, fourier_pixels=hp, gaussian=hp_sigma)
    check(close(bp, l1 - l2, sc), f"{tag}: bandpass != lowpass(lp) - lowpass(hp)")
    Gb = ref_lowpass_gain(shape, lp, lp_sigma) - ref_lowpass_gain(shape, hp, hp_sigma)
    check(close(bp, apply_gain(x, Gb), sc), f"{tag}: bandpass(x) != ifft((G_lp - G_hp) * fft(x))")
    # linear and shift-commuting
    y = random_map(shape, "f64")
    kw = dict(lp_fourier_pixels=lp, hp_fourier_pixels=hp, lp_gaussian=lp_sigma, hp_gaussian=hp_sigma)
    (by, _) = quiet(cryomap.bandpass, y, **kw)
    (bxy, _) = quiet(cryomap.bandpass, 2.5 * x - 0.75 * y, **kw)
    check(close(bxy, 2.5 * bp - 0.75 * by, 4 * sc), f"{tag}: bandpass is not linear")
    s = tuple(int(rng.integers(0, n)) for n in shape)
    (bs, _) = quiet(cryomap.bandpass, np.roll(x, s, axis=(0, 1, 2)), **kw)
    check(close(bs, np.roll(bp, s, axis=(0, 1, 2)), sc), f"{tag}: bandpass does not commute with shift {s}")

    # tree under test against the original text, bit for bit (returned map, band.em, printed lines)
    os.remove("band.em")
    (bo, out_old) = quiet(orig_bandpass, x, **kw)
    band_old = open("band.em", "rb").read()
    check(np.array_equal(bp, bo) and bp.dtype == bo.dtype, f"{tag}: result differs from the original bandpass")
    check(band_new == band_old, f"{tag}: band.em differs from the one the original bandpass writes")
    check(out_new == out_old, f"{tag}: printed lines differ from the original bandpass")
    (bp2, _) = quiet(cryomap.bandpass, x, **kw)
    check(np.array_equal(bp, bp2), f"{tag}: a repeated call gives another result")
    check(np.array_equal(x, x_before), f"{tag}: input map was modified by a later call")


def check_resolution(shape):
    """a target resolution maps to round(box * pixel_size / resolution) Fourier pixels (box = first axis)"""
    n = shape[0]
    x = random_map(shape, "f64")
    for _ in range(4):
        p = int(rng.integers(1, n // 2 + 1))
        ps = float(rng.uniform(0.8, 12.0))
        res = n * ps / (p + rng.uniform(-0.4, 0.4))
        want = round(n * ps / res)
        check(want == p, f"resolution test setup {shape} {p}")
        (got, line) = quiet(cryomap.resolution2pixels, res, n, ps)
        check(got == want, f"resolution2pixels({res}, {n}, {ps}) = {got}, expected {want}")
        (rad, _) = quiet(cryomap.get_filter_radius, n, None, res, ps)
        check(rad == want, f"get_filter_radius by resolution {rad} != {want}")
        (rad, _) = quiet(cryomap.get_filter_radius, n, p, None, None)
        check(rad == p, f"get_filter_radius by pixels {rad} != {p}")
        (back, _) = quiet(cryomap.pixels2resolution, p, n, ps)
        check(abs(back - n * ps / p) < 1e-9, "pixels2resolution")
        for sigma in (0, 2):
            (a1, _) = quiet(cryomap.lowpass, x, target_resolution=res, pixel_size=ps, gaussian=sigma)
            (a2, _) = quiet(cryomap.lowpass, x, fourier_pixels=want, gaussian=sigma)
            check(np.array_equal(a1, a2), f"lowpass by resolution {res}/{ps} != lowpass by {want} pixels, {shape}")
            (h1, _) = quiet(cryomap.highpass, x, target_resolution=res, pixel_size=ps, gaussian=sigma)
            (h2, _) = quiet(cryomap.highpass, x, fourier_pixels=want, gaussian=sigma)
            check(np.array_equal(h1, h2), f"highpass by resolution {res}/{ps} != highpass by {want} pixels, {shape}")
        # band-pass given by two resolutions: same as by pixels, and the same as the original text
        p2 = int(rng.integers(1, n // 2 + 1))
        res2 = n * ps / (p2 + rng.uniform(-0.4, 0.4))
        kw_r = dict(lp_target_resolution=res, hp_target_resolution=res2, pixel_size=ps, lp_gaussian=1, hp_gaussian=0)
        kw_p = dict(lp_fourier_pixels=p, hp_fourier_pixels=p2, lp_gaussian=1, hp_gaussian=0)
        (b1, o1) = quiet(cryomap.bandpass, x, **kw_r)
        (b2, _) = quiet(cryomap.bandpass, x, **kw_p)
        (b3, o3) = quiet(orig_bandpass, x, **kw_r)
        check(np.array_equal(b1, b2), f"bandpass by resolutions != bandpass by pixels, {shape}")
        check(np.array_equal(b1, b3) and o1 == o3, f"bandpass by resolutions differs from the original, {shape}")
        # pixels together with a pixel size only print the resolution
        (b4, o4) = quiet(cryomap.bandpass, x, pixel_size=ps, **kw_p)
        (b5, o5) = quiet(orig_bandpass, x, pixel_size=ps, **kw_p)
        check(np.array_equal(b4, b2) and np.array_equal(b4, b5) and o4 == o5, f"bandpass pixels+pixel_size, {shape}")
    # nothing given: both refuse in the same way
    for fn in (cryomap.bandpass, orig_bandpass):
        for kw in (dict(), dict(lp_fourier_pixels=3), dict(hp_fourier_pixels=3), dict(lp_target_resolution=10.0)):
            try:
                quiet(fn, x, **kw)
                check(False, f"bandpass without cutoffs {kw} did not raise")
            except ValueError:
                check(True, "")


def check_files(shape):
    """maps given as files and output_name: same as arrays, same as the original"""
    x = random_map(shape, "f32")
    cryomap.write(x, "in.mrc")
    cryomap.write(x, "in.em")
    kw = dict(lp_fourier_pixels=max(2, shape[0] // 3), hp_fourier_pixels=1, lp_gaussian=1, hp_gaussian=1)
    (ba, _) = quiet(cryomap.bandpass, x, **kw)
    for name in ("in.mrc", "in.em"):
        (bf, _) = quiet(cryomap.bandpass, name, output_name="out_new.mrc", **kw)
        (bo, _) = quiet(orig_bandpass, name, output_name="out_old.mrc", **kw)
        check(np.array_equal(bf, ba), f"bandpass of {name} differs from bandpass of the array")
        check(np.array_equal(bf, bo), f"bandpass of {name} differs from the original")
        check(
            np.array_equal(cryomap.read("out_new.mrc"), cryomap.read("out_old.mrc"))
            and np.array_equal(cryomap.read("out_new.mrc"), bf.astype(np.float32)),
            f"written band-pass of {name} differs",
        )


# ----------------------------------------------------------------------------------------------------------------------
SHAPES = [
    (8, 8, 8),
    (9, 9, 9),
    (12, 10, 8),
    (16, 16, 16),
    (11, 14, 9),
    (24, 20, 16),
    (31, 17, 23),
    (8, 40, 13),
    (48, 32, 40),
    (48, 48, 48),
]
SIGMAS = [0, 1, 2, 3, 4, 1.5]

try:
    n_masks = check_spherical_mask()
    print(f"{n_masks} spherical masks compared with the original")
    for shape in SHAPES:
        n_half = shape[0] // 2
        cutoffs = sorted({1, 2, n_half // 2 + 1, n_half - 1, n_half})
        cutoffs = [c for c in cutoffs if 1 <= c <= n_half]
        small = shape[0] * shape[1] * shape[2] <= 1000
        for ci, cutoff in enumerate(cutoffs):
            for si, sigma in enumerate(SIGMAS):
                if not small and (ci + si) % 2:
                    continue  # thin out the big boxes
                check_config(shape, cutoff, sigma, full_waves=small and sigma in (0, 2) and ci % 2 == 0)
        # band-pass: inner below outer, equal, and (degenerate) above; hard and soft edges
        combos = [(n_half, 1), (n_half - 1, 2), (max(2, n_half // 2), max(1, n_half // 4)), (3, 3), (2, n_half)]
        for (lp, hp), (ls, hs), kind in zip(
            itertools.cycle(combos),
            [(3, 2), (0, 0), (1, 0), (0, 2), (4, 4), (2, 1.5), (1, 1), (0, 3)],
            itertools.cycle(["f64", "f32", "i16"]),
        ):
            check_bandpass(shape, lp, hp, ls, hs, kind)
        check_resolution(shape)
    check_files((12, 10, 8))
    check_files((16, 16, 16))
    # defaults (lp_gaussian=3, hp_gaussian=2)
    x = random_map((20, 20, 20), "f64")
    (d1, _) = quiet(cryomap.bandpass, x, lp_fourier_pixels=8, hp_fourier_pixels=2)
    (d2, _) = quiet(orig_bandpass, x, lp_fourier_pixels=8, hp_fourier_pixels=2)
    (d3, _) = quiet(cryomap.lowpass, x, fourier_pixels=8)
    (d4, _) = quiet(cryomap.lowpass, x, fourier_pixels=2, gaussian=2)
    check(np.array_equal(d1, d2), "bandpass with default edges differs from the original")
    check(close(d1, d3 - d4, float(np.abs(x).max()) * 90), "bandpass defaults != lowpass(3) - lowpass(2)")
finally:
    os.chdir("/")
    shutil.rmtree(_SCRATCH, ignore_errors=True)

print(f"{NCHECK[0]} checks, {len(FAILS)} failed")
if FAILS:
    print("FAIL")
    sys.exit(1)
print("PASS")
