"""C06 / change a -- angular_distance computes the quaternion dot product once.

Run as:  cd /tmp/wt13/C06 && /venv/bin/python /tmp/seedsW/C06/a/demo.py

1. The property (rotation geometry primitives agree with SO(3) ground truth) is tested against an
   independent computation: rotation matrices built by hand from the zxz Euler angles, relative rotation angle
   from trace / skew part, z-axis as third matrix column.
2. The functions of the tree (patched or not) are compared bit for bit with the ORIGINAL function text kept below.
3. The caller's inputs are checked to be untouched.
"""
import os
import sys

sys.path.insert(0, os.getcwd())

import io
import contextlib
import itertools
import warnings

import numpy as np
import pandas as pd
from scipy.spatial.transform import Rotation as srot

warnings.filterwarnings("ignore")  # gimbal lock warnings of scipy

from cryocat import geom

FAILS = []


def check(cond, msg):
    if not cond:
        FAILS.append(msg)
        if len(FAILS) < 30:
            print("FAIL:", msg)


# --------------------------------------------------------------------------------------------------------------
# original text of the function touched by change a (taken from HEAD b1093bd)
# --------------------------------------------------------------------------------------------------------------
ORIGINAL = '''
def angular_distance(input_rot1, input_rot2, convention="zxz", degrees=True, c_symmetry=1):

    if isinstance(input_rot1, np.ndarray):
        rot1 = srot.from_euler(convention, input_rot1, degrees=degrees)
    else:
        rot1 = input_rot1

    if isinstance(input_rot2, np.ndarray):
        rot2 = srot.from_euler(convention, input_rot2, degrees=degrees)
    else:
        rot2 = input_rot2

    if c_symmetry > 1:
        angles1 = rot1.as_euler(convention, degrees=degrees)
        angles2 = rot2.as_euler(convention, degrees=degrees)
        sym_div = 360.0 / c_symmetry
        angles1[:, 0] = np.mod(angles1[:, 0], sym_div)
        angles2[:, 0] = np.mod(angles2[:, 0], sym_div)
        rot1 = srot.from_euler(convention, angles1, degrees=degrees)
        rot2 = srot.from_euler(convention, angles2, degrees=degrees)

    q1 = np.array(rot1.as_quat(), ndmin=2)
    q2 = np.array(rot2.as_quat(), ndmin=2)

    if q1.shape != q2.shape:
        print("The size of input rotations differ!!!")
        return

    angle = np.degrees(2 * np.arccos(np.clip(np.abs(np.sum(q1 * q2, axis=1)), 0.0, 1.0)))
    angle = angle.astype(float)

    dist = 1 - np.power(np.sum(q1 * q2, 1), 2)

    dist[dist < 10e-8] = 0

    return angle, dist


def compare_rotations(angles1, angles2, c_symmetry=1, rotation_type="all"):

    dist_degrees = angular_distance(angles1, angles2, c_symmetry=c_symmetry)[0]
    dist_degrees_normals, dist_degrees_inplane = cone_inplane_distance(angles1, angles2, c_symmetry=c_symmetry)

    if rotation_type == "all":
        return dist_degrees, dist_degrees_normals, dist_degrees_inplane
    elif rotation_type == "angular_distance":
        return dist_degrees
    elif rotation_type == "cone_distance":
        return dist_degrees_normals
    elif rotation_type == "in_plane_distance":
        return dist_degrees_inplane
    else:
        raise UserInputError(f"The rotation type {rotation_type} is not supported.")
'''
ORIG = dict(vars(geom))
exec(compile(ORIGINAL, "<original geom>", "exec"), ORIG)


# --------------------------------------------------------------------------------------------------------------
# independent SO(3) ground truth
# --------------------------------------------------------------------------------------------------------------
def _rz(a):
    c, s = np.cos(np.radians(a)), np.sin(np.radians(a))
    return np.array([[c, -s, 0.0], [s, c, 0.0], [0.0, 0.0, 1.0]])


def _rx(a):
    c, s = np.cos(np.radians(a)), np.sin(np.radians(a))
    return np.array([[1.0, 0.0, 0.0], [0.0, c, -s], [0.0, s, c]])


def matrix_zxz(angles):
    """extrinsic zxz: first phi about z, then theta about x, then psi about z"""
    phi, theta, psi = angles
    return _rz(psi) @ _rx(theta) @ _rz(phi)


def matrices(angles):
    return np.stack([matrix_zxz(a) for a in np.atleast_2d(angles)])


def rotation_angle(m):
    """rotation angle (degrees) of one rotation matrix, from the skew part and the trace"""
    skew = np.array([m[2, 1] - m[1, 2], m[0, 2] - m[2, 0], m[1, 0] - m[0, 1]])
    return np.degrees(np.arctan2(0.5 * np.linalg.norm(skew), 0.5 * (np.trace(m) - 1.0)))


def truth_angular(m1, m2):
    return np.array([rotation_angle(a.T @ b) for a, b in zip(m1, m2)])


def truth_cone(m1, m2):
    out = []
    for a, b in zip(m1, m2):
        za, zb = a[:, 2], b[:, 2]
        out.append(np.degrees(np.arctan2(np.linalg.norm(np.cross(za, zb)), np.dot(za, zb))))
    return np.array(out)


TOL = 1e-4  # degrees; 2*acos(|q1.q2|) has sqrt(eps) resolution near 0


# --------------------------------------------------------------------------------------------------------------
# input families of the quantifier
# --------------------------------------------------------------------------------------------------------------
rng = np.random.default_rng(20606)


def random_angles(n):
    return np.column_stack(
        [rng.uniform(-180, 180, n), np.degrees(np.arccos(rng.uniform(-1, 1, n))), rng.uniform(-180, 180, n)]
    )


def families():
    fam = {}
    fam["random"] = (random_angles(200), random_angles(200))
    base = random_angles(100)
    fam["near_identical"] = (base, base + rng.normal(0, 1e-5, base.shape))
    fam["equal"] = (base, base.copy())
    # antipodal: second = first composed with a 180 degree turn about a random axis
    axes = rng.normal(size=(100, 3))
    axes /= np.linalg.norm(axes, axis=1, keepdims=True)
    flipped = (srot.from_euler("zxz", base, degrees=True) * srot.from_rotvec(np.pi * axes)).as_euler(
        "zxz", degrees=True
    )
    fam["antipodal"] = (base, flipped)
    gl = np.column_stack([rng.uniform(-180, 180, 60), rng.choice([0.0, 180.0], 60), rng.uniform(-180, 180, 60)])
    fam["gimbal"] = (gl, random_angles(60))
    fam["gimbal_both"] = (gl, gl[::-1].copy())
    cube = srot.create_group("O").as_euler("zxz", degrees=True)
    pairs = np.array(list(itertools.product(range(24), range(24))))
    fam["cube"] = (cube[pairs[:, 0]], cube[pairs[:, 1]])
    lat = np.array(list(itertools.product(np.arange(0, 360, 45), np.arange(0, 181, 45), np.arange(0, 360, 45))), float)
    idx = rng.integers(0, len(lat), size=(400, 2))
    fam["lattice"] = (lat[idx[:, 0]], lat[idx[:, 1]])
    fam["single"] = (random_angles(1), random_angles(1))
    fam["batch500"] = (random_angles(500), random_angles(500))
    return fam


def same(a, b):
    """bit for bit comparison of possibly nested results"""
    if isinstance(a, tuple) or isinstance(b, tuple):
        return isinstance(a, tuple) and isinstance(b, tuple) and len(a) == len(b) and all(same(x, y) for x, y in zip(a, b))
    if a is None or b is None:
        return a is None and b is None
    if isinstance(a, str) or isinstance(b, str):
        return a == b
    a_, b_ = np.asarray(a), np.asarray(b)
    return type(a) is type(b) and a_.dtype == b_.dtype and a_.shape == b_.shape and np.array_equal(a_, b_, equal_nan=True)


def call(fun, *args, **kwargs):
    """result or exception type, plus what was printed"""
    buf = io.StringIO()
    with contextlib.redirect_stdout(buf):
        try:
            res = fun(*args, **kwargs)
        except Exception as err:  # noqa: BLE001
            res = ("raised", type(err).__name__)
    return res, buf.getvalue()


# --------------------------------------------------------------------------------------------------------------
# 1. the property
# --------------------------------------------------------------------------------------------------------------
def property_checks():
    for name, (a1, a2) in families().items():
        a1_keep, a2_keep = a1.copy(), a2.copy()
        m1, m2 = matrices(a1), matrices(a2)
        r1 = srot.from_euler("zxz", a1, degrees=True)
        r2 = srot.from_euler("zxz", a2, degrees=True)
        q1_keep, q2_keep = r1.as_quat().copy(), r2.as_quat().copy()
        # my matrices are the matrices scipy uses
        check(np.allclose(np.atleast_3d(r1.as_matrix()).reshape(-1, 3, 3), m1, atol=1e-12), f"{name}: convention")

        for first, second in ((r1, r2), (a1, a2)):  # Rotation objects and Euler arrays
            ang, dist = geom.angular_distance(first, second)
            truth = truth_angular(m1, m2)
            check(ang.shape == (len(m1),), f"{name}: one distance per pair")
            check(np.all(ang >= 0.0) and np.all(ang <= 180.0), f"{name}: range [0,180]")
            check(np.allclose(ang, truth, atol=TOL), f"{name}: distance equals relative rotation angle {np.abs(ang - truth).max()}")
            back, _ = geom.angular_distance(second, first)
            check(np.allclose(ang, back, atol=1e-9), f"{name}: symmetric")
            check(np.all(dist >= 0.0) and np.all(dist <= 1.0 + 1e-12), f"{name}: chordal part in [0,1]")
            check(np.allclose(dist, np.where(np.sin(np.radians(truth / 2)) ** 2 < 10e-8, 0, np.sin(np.radians(truth / 2)) ** 2), atol=1e-6),
                  f"{name}: 1-(q1.q2)^2 = sin^2(angle/2)")
        self_d, _ = geom.angular_distance(r1, r1)
        check(np.all(self_d <= TOL), f"{name}: zero for equal rotations")
        ang, _ = geom.angular_distance(r1, r2)
        check(np.all((ang <= TOL) == (truth_angular(m1, m2) <= TOL)), f"{name}: zero exactly for equal rotations")

        # invariance under a common rotation, on either side
        g = srot.from_euler("zxz", random_angles(1)[0], degrees=True)
        gs = srot.from_euler("zxz", random_angles(len(m1)), degrees=True)
        for common in (g, gs):
            left, _ = geom.angular_distance(common * r1, common * r2)
            right, _ = geom.angular_distance(r1 * common, r2 * common)
            check(np.allclose(left, ang, atol=TOL), f"{name}: left invariance")
            check(np.allclose(right, ang, atol=TOL), f"{name}: right invariance")

        # triangle inequality with a third rotation
        a3 = random_angles(len(m1))
        r3 = srot.from_euler("zxz", a3, degrees=True)
        d13, _ = geom.angular_distance(r1, r3)
        d32, _ = geom.angular_distance(r3, r2)
        check(np.all(ang <= d13 + d32 + TOL), f"{name}: triangle inequality")

        # cone and in-plane distance
        cone = geom.cone_distance(r1, r2)
        check(np.allclose(cone, truth_cone(m1, m2), atol=TOL), f"{name}: cone distance is the angle of the z-axes")
        inpl = geom.inplane_distance(r1, r2)
        check(np.all(inpl >= 0.0) and np.all(inpl <= 180.0), f"{name}: in-plane range")
        check(np.all(geom.inplane_distance(r1, r1) == 0.0), f"{name}: in-plane zero for equal orientations")
        c2, i2 = geom.cone_inplane_distance(a1, a2)
        check(np.allclose(c2, cone, atol=1e-9) and np.allclose(i2, inpl, atol=1e-9), f"{name}: cone_inplane_distance")
        if len(m1) > 1:
            allr = geom.compare_rotations(a1, a2)
            check(np.allclose(allr[0], ang, atol=1e-9) and np.allclose(allr[1], cone, atol=1e-9)
                  and np.allclose(allr[2], inpl, atol=1e-9), f"{name}: compare_rotations")

        # Euler angles -> normals
        normals = geom.euler_angles_to_normals(a1)
        check(normals.shape == (len(m1), 3), f"{name}: one normal per orientation")
        check(np.allclose(np.linalg.norm(normals, axis=1), 1.0, atol=1e-12), f"{name}: unit normals")
        check(np.allclose(normals, m1[:, :, 2], atol=1e-12), f"{name}: normal is the image of the z-axis")
        check(np.allclose(geom.visualize_angles(a1, plot_rotations=False), m1[:, :, 2], atol=1e-12), f"{name}: visualize_angles")

        # inputs untouched
        check(np.array_equal(a1, a1_keep) and np.array_equal(a2, a2_keep), f"{name}: Euler inputs untouched")
        check(np.array_equal(r1.as_quat(), q1_keep) and np.array_equal(r2.as_quat(), q2_keep), f"{name}: rotations untouched")

    # normals -> Euler angles: any length, axis aligned, +-z
    for n in (1, 2, 17, 500):
        normals = rng.normal(size=(n, 3)) * rng.uniform(1e-3, 1e3, size=(n, 1))
        special = np.array([[1, 0, 0], [-1, 0, 0], [0, 1, 0], [0, -2, 0], [0, 0, 1], [0, 0, -1], [0, 0, 5.0], [0, 0, -0.1]], float)
        normals = np.vstack([normals, special])
        keep = normals.copy()
        for inp in (normals, pd.DataFrame(normals, columns=["x", "y", "z"])):
            ang = geom.normals_to_euler_angles(inp)
            check(ang.shape == (len(normals), 3), "normals_to_euler_angles: one triple per normal")
            z = matrices(ang)[:, :, 2]
            check(np.allclose(z, keep / np.linalg.norm(keep, axis=1, keepdims=True), atol=1e-9), "normals_to_euler_angles: z-axis is the normal")
            check(np.allclose(geom.euler_angles_to_normals(ang), z, atol=1e-9), "round trip normals")
        check(np.array_equal(normals, keep), "normals untouched")


# --------------------------------------------------------------------------------------------------------------
# 2. tree (patched or clean) against the original text, bit for bit
# --------------------------------------------------------------------------------------------------------------
def differential_checks():
    n_cmp = 0
    for name, (a1, a2) in families().items():
        r1 = srot.from_euler("zxz", a1, degrees=True)
        r2 = srot.from_euler("zxz", a2, degrees=True)
        for sym in (1, 2, 3, 6, 13):
            for first, second in ((r1, r2), (a1, a2), (r1, a2), (a1, r2)):
                k1 = first.copy() if isinstance(first, np.ndarray) else first.as_quat().copy()
                k2 = second.copy() if isinstance(second, np.ndarray) else second.as_quat().copy()
                for repeat in range(2):  # repeated calls on the same objects
                    new = call(geom.angular_distance, first, second, c_symmetry=sym)
                    old = call(ORIG["angular_distance"], first, second, c_symmetry=sym)
                    check(same(new[0], old[0]) and new[1] == old[1], f"{name}: angular_distance differs (sym {sym})")
                    n_cmp += 1
                if len(a1) > 1:
                    for rtype in ("all", "angular_distance", "cone_distance", "in_plane_distance", "nonsense"):
                        if isinstance(first, np.ndarray) and isinstance(second, np.ndarray):
                            new = call(geom.compare_rotations, first, second, c_symmetry=sym, rotation_type=rtype)
                            old = call(ORIG["compare_rotations"], first, second, c_symmetry=sym, rotation_type=rtype)
                            check(same(new[0], old[0]) and new[1] == old[1], f"{name}: compare_rotations differs ({rtype})")
                            n_cmp += 1
                n1 = first if isinstance(first, np.ndarray) else first.as_quat()
                n2 = second if isinstance(second, np.ndarray) else second.as_quat()
                check(np.array_equal(n1, k1) and np.array_equal(n2, k2), f"{name}: inputs touched")
        # radians and another convention
        new = call(geom.angular_distance, np.radians(a1), np.radians(a2), convention="zyz", degrees=False)
        old = call(ORIG["angular_distance"], np.radians(a1), np.radians(a2), convention="zyz", degrees=False)
        check(same(new[0], old[0]), f"{name}: radians / zyz differs")

    # batches of different size: message and None, in both
    a, b = random_angles(5), random_angles(3)
    new = call(geom.angular_distance, a, b)
    old = call(ORIG["angular_distance"], a, b)
    check(new[0] is None and old[0] is None and new[1] == old[1] and "differ" in new[1], "size mismatch path differs")
    # single rotation with a symmetry: the same exception in both
    s1, s2 = random_angles(1)[0], random_angles(1)[0]
    new = call(geom.angular_distance, s1, s2, c_symmetry=4)
    old = call(ORIG["angular_distance"], s1, s2, c_symmetry=4)
    check(same(new[0], old[0]) or new[0] == old[0], "single rotation with symmetry differs")
    # single rotations as 1-d arrays and single Rotation objects
    new = call(geom.angular_distance, s1, s2)
    old = call(ORIG["angular_distance"], s1, s2)
    check(same(new[0], old[0]), "single 1-d angles differ")
    rs1, rs2 = srot.from_euler("zxz", s1, degrees=True), srot.from_euler("zxz", s2, degrees=True)
    new = call(geom.angular_distance, rs1, rs2)
    old = call(ORIG["angular_distance"], rs1, rs2)
    check(same(new[0], old[0]), "single Rotation objects differ")
    # a batch against one rotation: shapes differ
    new = call(geom.angular_distance, random_angles(4), s2)
    old = call(ORIG["angular_distance"], random_angles(4), s2)
    check(new[0] is None and old[0] is None and new[1] == old[1], "batch against single differs")
    return n_cmp


if __name__ == "__main__":
    property_checks()
    n = differential_checks()
    if FAILS:
        print(f"FAIL ({len(FAILS)} checks)")
        sys.exit(1)
    print(f"PASS (property holds on all families; {n} bit-for-bit comparisons with the original text)")
