"""C14 / change a -- None as the sentinel for two string defaults (kind 2)

rotate(coord_space="zxz") and place_object(feature_to_color="object_id") become =None with
`if x is None: x = <same literal>` at the top of the body.  The demo
  1. tests the property (active convention out[c + R v] = in[c + v], cube rotations exact, inverse restores, placement
     at the complete 0-based position with the value of the colouring field, windows with mean fill, C_n mean) against
     computations that use no cryocat code, and
  2. compares the functions of the imported tree with the original function text (kept below) on the same inputs:
     argument omitted / given by keyword / given positionally / given with the default written out / other values,
     repeated calls in changing order (a sentinel must not be sticky), empty lists, NaN colours.
"""
import os
import sys

sys.path.insert(0, os.getcwd())

import itertools
import warnings

import numpy as np
import pandas as pd
from scipy.ndimage import map_coordinates

from cryocat import cryomap
from cryocat.cryomotl import Motl

warnings.filterwarnings("ignore")

FAILS = []


def check(cond, msg):
    if not cond:
        FAILS.append(msg)
        if len(FAILS) <= 25:
            print("FAIL:", msg)


def same(a, b):
    a = np.asarray(a)
    b = np.asarray(b)
    return a.shape == b.shape and a.dtype == b.dtype and np.array_equal(a, b, equal_nan=True)


# ----------------------------------------------------------------------------------------------------------------
# independent reference computations (no cryocat code)
# ----------------------------------------------------------------------------------------------------------------
def rz(a):
    c, s = np.cos(np.deg2rad(a)), np.sin(np.deg2rad(a))
    return np.array([[c, -s, 0.0], [s, c, 0.0], [0.0, 0.0, 1.0]])


def rx(a):
    c, s = np.cos(np.deg2rad(a)), np.sin(np.deg2rad(a))
    return np.array([[1.0, 0.0, 0.0], [0.0, c, -s], [0.0, s, c]])


def zxz(phi, theta, psi):
    """extrinsic zxz: first phi about z, then theta about x, then psi about z (fixed axes)"""
    return rz(psi) @ rx(theta) @ rz(phi)


def ref_rotate(m, rmat, order=3):
    """density at offset v from floor(N/2) goes to offset R v: out[c + R v] = in[c + v]"""
    m = np.asarray(m, dtype=float)
    c = np.array([n // 2 for n in m.shape], dtype=float)
    grid = np.stack(np.meshgrid(*[np.arange(n) for n in m.shape], indexing="ij"), axis=0).reshape(3, -1).astype(float)
    src = rmat.T @ (grid - c[:, None]) + c[:, None]
    return map_coordinates(m, src, order=order, mode="constant", cval=0.0).reshape(m.shape)


def inner(a):
    """voxels whose source and target are at least one voxel away from every face (in an even box index 1 is the image
    of the face N-1; face voxels may leave the interpolation domain by rounding)"""
    return a[2:-2, 2:-2, 2:-2]


def cube_rotations():
    """the 24 rotations of the cube as (zxz angles, integer matrix)"""
    found = {}
    for phi, theta, psi in itertools.product((0, 90, 180, 270), repeat=3):
        mat = np.rint(zxz(phi, theta, psi)).astype(int)
        found.setdefault(tuple(mat.ravel()), ((phi, theta, psi), mat))
    rots = list(found.values())
    assert len(rots) == 24
    return rots


def blob_map(rng, shape, nblobs=4, sigma=2.2, spread=0.18):
    """smooth band-limited blobs well inside the box"""
    shape = np.asarray(shape)
    grid = np.stack(np.meshgrid(*[np.arange(n) for n in shape], indexing="ij"), axis=-1).astype(float)
    out = np.zeros(tuple(shape))
    for _ in range(nblobs):
        cen = shape // 2 + rng.uniform(-spread, spread, 3) * shape
        out += rng.uniform(0.5, 1.5) * np.exp(-np.sum((grid - cen) ** 2, axis=-1) / (2 * sigma**2))
    return out


def ref_window(volume, coord, shape):
    """window of `shape` starting at floor(coord - shape/2); voxels outside the volume get the volume mean"""
    volume = np.asarray(volume)
    start = [int(np.floor(coord[k] - shape[k] / 2.0)) for k in range(3)]
    out = np.empty(tuple(shape), dtype=float)
    mean = volume.mean()
    for idx in np.ndindex(*shape):
        p = (start[0] + idx[0], start[1] + idx[1], start[2] + idx[2])
        if all(0 <= p[k] < volume.shape[k] for k in range(3)):
            out[idx] = volume[p]
        else:
            out[idx] = mean
    return out


def ref_place(templates, rmats, coords0, colors, container):
    """stamp thresholded rotated templates; returns (volume, ambiguous-voxel mask)"""
    vol = np.array(container, dtype=float)
    amb = np.zeros(vol.shape, dtype=bool)
    for i in range(len(coords0)):
        tm = templates[i] if isinstance(templates, list) else templates
        rt = ref_rotate(tm, rmats[i])
        start = [int(np.floor(coords0[i][k] - rt.shape[k] / 2.0)) for k in range(3)]
        for idx in np.ndindex(*rt.shape):
            p = (start[0] + idx[0], start[1] + idx[1], start[2] + idx[2])
            if not all(0 <= p[k] < vol.shape[k] for k in range(3)):
                continue
            if abs(rt[idx] - 0.1) < 1e-6:
                amb[p] = True
            if rt[idx] > 0.1:
                vol[p] = colors[i]
    return vol, amb


def make_motl(rng, n, vol_shape, angle_mode="random", index_mode="default", margin=-6.0, nan_holes=True):
    df = pd.DataFrame(0.0, index=range(n), columns=Motl.motl_columns)
    vs = np.asarray(vol_shape, dtype=float)
    # 1-based positions, some partly / fully outside the volume (margin < 0)
    pos = rng.uniform(margin, 1.0, (n, 3)) + rng.uniform(0.0, 1.0, (n, 3)) * (vs - 2 * margin)
    df[["x", "y", "z"]] = np.round(pos)
    df[["shift_x", "shift_y", "shift_z"]] = rng.uniform(-1.5, 1.5, (n, 3)) * (rng.uniform(size=(n, 1)) < 0.7)
    if angle_mode == "cube":
        ang = rng.choice([0.0, 90.0, 180.0, 270.0], size=(n, 3))
    elif angle_mode == "poles":
        ang = np.column_stack(
            [rng.uniform(-180, 180, n), rng.choice([0.0, 180.0, 0.0, 90.0], size=n), rng.uniform(-180, 180, n)]
        )
    else:
        ang = np.column_stack([rng.uniform(-180, 180, n), rng.uniform(0, 180, n), rng.uniform(-180, 180, n)])
    df["phi"], df["theta"], df["psi"] = ang[:, 0], ang[:, 1], ang[:, 2]
    df["tomo_id"] = 1.0
    df["object_id"] = rng.integers(0, 6, n).astype(float)  # 0 is a legitimate colour
    df["class"] = rng.integers(1, 4, n).astype(float)
    df["geom1"] = rng.uniform(-3, 3, n)  # negative, non integer colours
    df["subtomo_id"] = np.arange(1, n + 1, dtype=float)
    if nan_holes:
        df["score"] = np.where(rng.uniform(size=n) < 0.4, np.nan, rng.uniform(size=n))
        df["geom2"] = np.nan
    if index_mode == "shuffled":
        df.index = rng.permutation(n) * 3 + 11
    elif index_mode == "dup":
        df.index = [7] * n
    return Motl(df)


def motl_rmats(m):
    return [zxz(p, t, s) for p, t, s in m.df[["phi", "theta", "psi"]].to_numpy()]


def motl_coords0(m):
    d = m.df
    return np.column_stack(
        [
            d["x"].to_numpy() + d["shift_x"].to_numpy() - 1.0,
            d["y"].to_numpy() + d["shift_y"].to_numpy() - 1.0,
            d["z"].to_numpy() + d["shift_z"].to_numpy() - 1.0,
        ]
    )


# ----------------------------------------------------------------------------------------------------------------
# the property
# ----------------------------------------------------------------------------------------------------------------
def prop_cube_rotations(rng):
    from scipy.spatial.transform import Rotation as srot

    for N in (7, 8):
        m = rng.normal(size=(N, N, N))
        c = N // 2
        inner = [np.array(v) for v in np.ndindex(N, N, N) if all(1 <= v[k] <= N - 2 for k in range(3))]
        for angles, mat in cube_rotations():
            expect = {}
            for p in inner:
                q = mat @ (p - c) + c
                if all(1 <= q[k] <= N - 2 for k in range(3)):
                    expect[tuple(q)] = m[tuple(p)]
            out1 = cryomap.rotate(m, rotation_angles=list(angles))
            out2 = cryomap.rotate(m, rotation=srot.from_euler("zxz", angles, degrees=True), transpose_rotation=True)
            out3 = cryomap.rotate(
                m, rotation=srot.from_euler("zxz", angles, degrees=True).inv(), transpose_rotation=False
            )
            for name, out in (("angles", out1), ("rotation^T", out2), ("inverse rotation", out3)):
                err = max(abs(out[q] - val) for q, val in expect.items())
                check(err < 1e-9, f"cube rotation N={N} angles={angles} via {name}: permutation error {err:.2e}")
            check(len(expect) >= (N - 3) ** 3, "cube rotation: too few voxels tested")


def prop_random_rotations(rng):
    from scipy.spatial.transform import Rotation as srot

    cases = [(24, 24, 24), (21, 21, 21), (20, 24, 22)]
    angle_sets = [rng.uniform(-180, 180, 3) for _ in range(4)] + [
        np.array([37.0, 0.0, -12.0]),  # pole theta = 0
        np.array([37.0, 180.0, -12.0]),  # pole theta = 180
        np.array([0.0, 0.0, 0.0]),
    ]
    for shape in cases:
        m = blob_map(rng, shape, sigma=2.5, spread=0.12)
        for ang in angle_sets:
            rm = zxz(*ang)
            sm = srot.from_euler("zxz", ang, degrees=True).as_matrix()
            check(np.allclose(rm, sm, atol=1e-12), "hand written zxz differs from scipy (demo self check)")
            out = cryomap.rotate(m, rotation_angles=list(ang))
            ref = ref_rotate(m, rm)
            check(np.max(np.abs(inner(out) - inner(ref))) < 1e-9, f"rotate {shape} {ang}: differs from out[c+Rv]=in[c+v]")
            # the strongest blob travels with R
            c = np.asarray(shape) // 2
            back = cryomap.rotate(out, rotation=srot.from_matrix(rm), transpose_rotation=False)
            check(np.max(np.abs(back - m)) < 0.03 * m.max(), f"rotate {shape} {ang}: inverse does not restore the map")
        # one sharp blob at offset v goes to offset R v, as Motl.shift_positions moves a particle by R v
        v = np.array([4.0, -3.0, 2.0])
        ang = rng.uniform(-180, 180, 3)
        ang[1] = abs(ang[1])
        c = np.asarray(shape) // 2
        grid = np.stack(np.meshgrid(*[np.arange(n) for n in shape], indexing="ij"), axis=-1).astype(float)
        spot = np.exp(-np.sum((grid - (c + v)) ** 2, axis=-1) / (2 * 1.5**2))
        out = cryomap.rotate(spot, rotation=srot.from_euler("zxz", ang, degrees=True), transpose_rotation=True)
        w = out.clip(min=0) ** 2
        com = np.array([np.sum(w * grid[..., k]) for k in range(3)]) / w.sum()
        check(np.linalg.norm(com - (c + zxz(*ang) @ v)) < 0.15, f"rotate: blob at v not carried to R v ({ang})")
        mm = make_motl(rng, 3, (40, 40, 40))
        mm.df[["phi", "theta", "psi"]] = ang
        before = motl_coords0(mm)
        moved = mm.shift_positions(v, inplace=False)
        check(
            np.allclose(motl_coords0(moved) - before, zxz(*ang) @ v, atol=1e-9),
            "shift_positions does not move by R v",
        )
        rl = mm.get_rotations()
        check(np.allclose(rl[0].as_matrix(), zxz(*ang), atol=1e-12), "get_rotations is not zxz(phi,theta,psi)")


def prop_place_object(rng, place=None):
    place = place or cryomap.place_object
    configs = [
        # (n poses, template shape, volume shape, angle mode, index mode, colour, list input, given volume)
        (1, (6, 6, 6), (20, 20, 20), "cube", "default", "object_id", False, False),
        (5, (5, 5, 5), (21, 20, 19), "cube", "shuffled", "class", False, False),
        (20, (6, 6, 6), (24, 24, 24), "random", "shuffled", "object_id", False, True),
        (7, (7, 6, 5), (22, 22, 22), "random", "dup", "geom1", True, False),
        (9, (8, 8, 8), (18, 18, 18), "poles", "default", "class", False, True),
        (3, (26, 26, 26), (12, 12, 12), "random", "default", "object_id", False, False),  # template > volume
    ]
    for n, tshape, vshape, amode, imode, colour, as_list, given in configs:
        motl = make_motl(rng, n, vshape, angle_mode=amode, index_mode=imode)
        if amode == "cube":
            tm = np.zeros(tshape)  # face voxels empty: they may leave the interpolation domain by rounding
            tm[1:-1, 1:-1, 1:-1] = (rng.uniform(size=tuple(t - 2 for t in tshape)) > 0.5).astype(float)
        else:
            tm = np.zeros(tshape)  # same: nothing on the faces
            tm[1:-1, 1:-1, 1:-1] = blob_map(rng, tshape, nblobs=2, sigma=1.6, spread=0.1)[1:-1, 1:-1, 1:-1]
        templates = [tm * rng.uniform(0.8, 1.2) for _ in range(n)] if as_list else tm
        container = rng.integers(0, 3, vshape).astype(float) + 10.0 if given else np.zeros(vshape)
        df_before = motl.df.copy(deep=True)
        cont_before = container.copy()
        kwargs = dict(volume=container) if given else dict(volume_shape=vshape)
        if colour == "object_id" and n % 2 == 1:
            out = place(templates, motl, **kwargs)  # the default colouring field
        else:
            out = place(templates, motl, feature_to_color=colour, **kwargs)
        ref, amb = ref_place(templates, motl_rmats(motl), motl_coords0(motl), motl.df[colour].to_numpy(), container)
        check(out.shape == tuple(vshape), f"place_object {n} {tshape}: wrong shape")
        bad = np.sum((out != ref) & ~amb)
        check(bad == 0, f"place_object n={n} tmpl={tshape} vol={vshape} {amode} {colour}: {bad} voxels differ")
        check(amb.sum() < 0.01 * amb.size, "place_object: too many ambiguous voxels in the demo")
        # repeated call on the same objects, inputs untouched
        out2 = (
            place(templates, motl, feature_to_color=colour, **kwargs)
            if not (colour == "object_id" and n % 2 == 1)
            else place(templates, motl, **kwargs)
        )
        check(same(out, out2), "place_object: repeated call differs")
        check(df_before.equals(motl.df) and df_before.index.equals(motl.df.index), "place_object changed the motl")
        check(same(cont_before, container), "place_object changed the caller's volume")
    # empty list: nothing is stamped
    empty = Motl(pd.DataFrame(0.0, index=range(0), columns=Motl.motl_columns))
    out = place(np.ones((4, 4, 4)), empty, volume_shape=(9, 9, 9))
    check(same(out, np.zeros((9, 9, 9))), "place_object with an empty list is not all zero")


def window_cases(rng):
    cases = []
    for vshape, sshape in (((16, 16, 16), (8, 8, 8)), ((12, 14, 10), (6, 4, 8)), ((9, 9, 9), (4, 4, 4)), ((8, 8, 8), (12, 12, 12))):
        vs, ss = np.asarray(vshape), np.asarray(sshape)
        coords = [
            vs // 2,  # inside
            ss / 2,  # touching the low faces from inside
            vs - ss / 2,  # touching the high faces from inside
            ss / 2 - 1,  # one voxel out
            vs - ss / 2 + 1,
            -ss / 2,  # fully outside, window end == 0 exactly
            -ss / 2 + 1,  # one voxel layer inside
            vs + ss / 2,  # fully outside, window start == N exactly
            vs + ss / 2 - 1,  # one voxel layer inside
            -ss * 3.0,
            vs + ss * 3.0,
            np.array([vs[0] // 2, -ss[1], vs[2] // 2]),  # outside along one axis only
            np.array([vs[0] + ss[0], vs[1] // 2, vs[2] // 2]),
            vs / 2 + 0.5,
            vs / 2 - 0.49,
        ]
        coords += [rng.uniform(-ss, vs + ss) for _ in range(12)]
        coords += [np.round(rng.uniform(-ss, vs + ss)) for _ in range(12)]
        for c in coords:
            cases.append((vshape, sshape, np.asarray(c, dtype=float)))
    return cases


def prop_extract(rng, extract=None):
    extract = extract or cryomap.extract_subvolume
    vols = {}
    for vshape, sshape, coord in window_cases(rng):
        vol = vols.setdefault(vshape, rng.normal(loc=3.0, size=vshape))
        keep = vol.copy()
        out = extract(vol, coord, sshape)
        ref = ref_window(vol, coord, sshape)
        check(out.shape == tuple(sshape), f"extract_subvolume {vshape} {sshape} {coord}: shape {out.shape}")
        check(np.array_equal(out, ref), f"extract_subvolume {vshape} {sshape} {coord}: differs from the window")
        check(same(out, extract(vol, coord, sshape)), "extract_subvolume: repeated call differs")
        check(same(vol, keep), "extract_subvolume changed the volume")
        # enforce_shape: volume-shaped, window copied, everything else the mean
        out_e = extract(vol, coord, sshape, enforce_shape=True)
        start = np.floor(coord - np.asarray(sshape) / 2.0).astype(int)
        ref_e = np.full(vshape, vol.mean())
        lo = np.clip(start, 0, vshape)
        hi = np.clip(start + np.asarray(sshape), 0, vshape)
        ref_e[lo[0] : hi[0], lo[1] : hi[1], lo[2] : hi[2]] = vol[lo[0] : hi[0], lo[1] : hi[1], lo[2] : hi[2]]
        check(np.array_equal(out_e, ref_e), f"extract_subvolume enforce_shape {vshape} {sshape} {coord}: differs")


def prop_crop_pad(rng):
    for vshape, new in (((12, 12, 12), (6, 6, 6)), ((11, 12, 13), (4, 6, 8)), ((10, 10, 10), (10, 10, 10))):
        vol = rng.normal(size=vshape)
        out = cryomap.crop(vol, new)
        s = [vshape[k] // 2 - new[k] // 2 for k in range(3)]
        check(
            np.array_equal(out, vol[s[0] : s[0] + new[0], s[1] : s[1] + new[1], s[2] : s[2] + new[2]]),
            f"crop {vshape}->{new} is not the central window",
        )
        big = tuple(int(n + 2 * k + 2) for k, n in enumerate(vshape))
        padded = cryomap.pad(vol, big)
        s = [int(np.ceil((big[k] - vshape[k]) / 2)) for k in range(3)]
        inner = padded[s[0] : s[0] + vshape[0], s[1] : s[1] + vshape[1], s[2] : s[2] + vshape[2]]
        check(np.array_equal(inner, vol), "pad does not keep the volume")
        mask = np.ones(big, dtype=bool)
        mask[s[0] : s[0] + vshape[0], s[1] : s[1] + vshape[1], s[2] : s[2] + vshape[2]] = False
        check(np.all(padded[mask] == vol.mean()), "pad does not fill with the mean")


def prop_symmetrize(rng, symmetrize=None):
    symmetrize = symmetrize or cryomap.symmetrize_volume
    for shape in ((24, 24, 24), (23, 23, 23)):
        vol = blob_map(rng, shape, nblobs=3, sigma=2.4, spread=0.12)
        for n in range(2, 13):
            sym = symmetrize(vol, n if n % 2 else f"C{n}")
            ref = np.zeros(shape)
            for k in range(1, n + 1):
                ref += ref_rotate(vol, zxz(0.0, 0.0, (k * 360.0 / n) % 360.0))
            ref /= n
            check(np.max(np.abs(inner(sym) - inner(ref))) < 1e-9, f"symmetrize C{n} {shape}: not the mean of the n rotated copies")
            turned = cryomap.rotate(sym, rotation_angles=[0, 0, 360.0 / n])
            check(np.max(np.abs(turned - sym)) < 0.03 * vol.max(), f"symmetrize C{n} {shape}: result not invariant")
            check(abs(sym.sum() - vol.sum()) < 2e-3 * vol.sum(), f"symmetrize C{n} {shape}: total density changed")
            check(same(sym, symmetrize(vol, f"c{n}")), "symmetrize: repeated call differs")


def run_property(rng):
    prop_cube_rotations(rng)
    prop_random_rotations(rng)
    prop_place_object(rng)
    prop_extract(rng)
    prop_crop_pad(rng)
    prop_symmetrize(rng)


def load_original(src):
    """the original text of the functions, evaluated next to the module's own helpers"""
    ns = dict(vars(cryomap))
    exec(src, ns)
    return ns


def outcome(fn, *a, **k):
    try:
        return ("ok", fn(*a, **k))
    except Exception as e:  # noqa: BLE001
        return ("raise", type(e))


# original text of the changed functions (HEAD, docstrings removed)
ORIGINAL_SRC = r'''
def rotate(
    input_map,
    rotation=None,
    rotation_angles=None,
    coord_space="zxz",
    transpose_rotation=False,
    degrees=True,
    spline_order=3,
    output_name=None,
):

    input_map = read(input_map)
    # create translation to the center of the box
    T = np.eye(4)
    structure_center = np.asarray(input_map.shape) // 2
    T[:3, -1] = structure_center

    rot_matrix = np.eye(4)

    if rotation is not None:
        if transpose_rotation:
            rot_matrix[0:3, 0:3] = rotation.as_matrix().T
        else:
            rot_matrix[0:3, 0:3] = rotation.as_matrix()

    elif rotation_angles is not None:
        rot = srot.from_euler(coord_space, rotation_angles, degrees=degrees)
        rot_matrix[0:3, 0:3] = rot.as_matrix().T

    else:
        raise ValueError("Either rotation_angles or rotation has to be specified!!!")

    final_matrix = T @ rot_matrix @ np.linalg.inv(T)

    rot_struct = np.empty(input_map.shape)
    affine_transform(input=input_map, output=rot_struct, matrix=final_matrix, order=spline_order)

    if output_name is not None:
        write(rot_struct, output_name, data_type=np.single)

    return rot_struct


def place_object(input_object, motl, volume_shape=None, volume=None, feature_to_color="object_id"):

    if not isinstance(input_object, list):
        input_object = read(input_object)

    if volume is not None:
        object_container = read(volume)
    elif volume_shape is not None:
        object_container = np.zeros(volume_shape)

    rotations = motl.get_rotations()
    coordinates = motl.get_coordinates() - 1.0
    colors = motl.df[feature_to_color].to_numpy()

    for i, coord in enumerate(coordinates):

        if isinstance(input_object, list):
            object_map = rotate(input_object[i], rotation=rotations[i], transpose_rotation=True)
        else:
            object_map = rotate(input_object, rotation=rotations[i], transpose_rotation=True)

        object_map = np.where(object_map > 0.1, 1.0, 0.0)

        ls, le, os, oe = get_start_end_indices(coord, object_container.shape, object_map.shape)

        object_shape = object_map[os[0] : oe[0], os[1] : oe[1], os[2] : oe[2]]
        object_container[ls[0] : le[0], ls[1] : le[1], ls[2] : le[2]] = np.where(
            object_shape == 1.0,
            colors[i],
            object_container[ls[0] : le[0], ls[1] : le[1], ls[2] : le[2]],
        )

    return object_container

'''

def compare_with_original(rng):
    from scipy.spatial.transform import Rotation as srot

    orig = load_original(ORIGINAL_SRC)
    o_rotate, o_place = orig["rotate"], orig["place_object"]
    n_rotate, n_place = cryomap.rotate, cryomap.place_object
    ncmp = 0

    def agree(label, a, b):
        nonlocal ncmp
        ncmp += 1
        if a[0] != b[0]:
            check(False, f"{label}: original {a[0]}, current {b[0]}")
        elif a[0] == "ok":
            check(same(a[1], b[1]), f"{label}: outputs differ")
        else:
            check(a[1] is b[1], f"{label}: original raises {a[1].__name__}, current {b[1].__name__}")

    # ---- rotate: every way of (not) saying coord_space
    for shape in ((9, 9, 9), (10, 10, 10), (8, 11, 9)):
        m = rng.normal(size=shape)
        angle_sets = [rng.uniform(-180, 180, 3) for _ in range(5)] + [
            np.zeros(3),
            np.array([90.0, 90.0, 270.0]),
            np.array([30.0, 0.0, 40.0]),
            np.array([30.0, 180.0, 40.0]),
            np.array([-0.0, 1e-9, 360.0]),
        ]
        for ang in angle_sets:
            la = list(ang)
            agree("rotate default", outcome(o_rotate, m, rotation_angles=la), outcome(n_rotate, m, rotation_angles=la))
            agree(
                "rotate coord_space='zxz' written out",
                outcome(o_rotate, m, rotation_angles=la),
                outcome(n_rotate, m, rotation_angles=la, coord_space="zxz"),
            )
            agree(
                "rotate coord_space omitted vs original written out",
                outcome(o_rotate, m, rotation_angles=la, coord_space="zxz"),
                outcome(n_rotate, m, rotation_angles=la),
            )
            for cs in ("zxz", "ZXZ", "xyz", "zyz", "ZYZ"):
                agree(
                    f"rotate coord_space={cs}",
                    outcome(o_rotate, m, rotation_angles=la, coord_space=cs),
                    outcome(n_rotate, m, rotation_angles=la, coord_space=cs),
                )
                agree(
                    f"rotate positional coord_space={cs}",
                    outcome(o_rotate, m, None, la, cs),
                    outcome(n_rotate, m, None, la, cs),
                )
            agree(
                "rotate radians, order 1",
                outcome(o_rotate, m, rotation_angles=list(np.deg2rad(ang)), degrees=False, spline_order=1),
                outcome(n_rotate, m, rotation_angles=list(np.deg2rad(ang)), degrees=False, spline_order=1),
            )
            r = srot.from_euler("zxz", ang, degrees=True)
            for tr in (False, True):
                agree(
                    "rotate rotation object",
                    outcome(o_rotate, m, rotation=r, transpose_rotation=tr),
                    outcome(n_rotate, m, rotation=r, transpose_rotation=tr),
                )
            # the rotation wins over the angles, whatever the coord_space
            agree(
                "rotate rotation and angles",
                outcome(o_rotate, m, r, la),
                outcome(n_rotate, m, r, la),
            )
        agree("rotate nothing given", outcome(o_rotate, m), outcome(n_rotate, m))
        agree("rotate bad coord_space", outcome(o_rotate, m, None, [1, 2, 3], "abc"), outcome(n_rotate, m, None, [1, 2, 3], "abc"))
        # the default of the current tree is the convention of the motive list
        ang = rng.uniform(-180, 180, 3)
        check(
            np.allclose(
                n_rotate(m, rotation_angles=list(ang)),
                n_rotate(m, rotation=srot.from_matrix(zxz(*ang)), transpose_rotation=True),
                atol=1e-9,
            ),
            "rotate: default coord_space is not the zxz of the motive lists",
        )

    # ---- place_object: every way of (not) saying feature_to_color, in changing order on the same objects
    for n, tshape, vshape, imode in (
        (1, (6, 6, 6), (16, 16, 16), "default"),
        (6, (5, 5, 5), (17, 16, 15), "shuffled"),
        (20, (6, 6, 6), (20, 20, 20), "dup"),
        (0, (4, 4, 4), (8, 8, 8), "default"),
    ):
        motl = make_motl(rng, n, vshape, index_mode=imode)
        if n > 2:
            motl.df.iloc[1, motl.df.columns.get_loc("geom1")] = np.nan  # a NaN colour is stamped as NaN
            motl.df.iloc[0, motl.df.columns.get_loc("object_id")] = 0.0  # colour 0 overwrites with 0
            motl.df.iloc[2, motl.df.columns.get_loc("object_id")] = -2.0
        tm = np.zeros(tshape)
        tm[1:-1, 1:-1, 1:-1] = rng.uniform(0.0, 1.0, tuple(t - 2 for t in tshape))
        tlist = [tm * (k + 1) / (n + 1) for k in range(n)]
        base = rng.normal(size=vshape)
        for templates in (tm, tlist):
            agree("place default", outcome(o_place, templates, motl, vshape), outcome(n_place, templates, motl, vshape))
            agree(
                "place class",
                outcome(o_place, templates, motl, vshape, None, "class"),
                outcome(n_place, templates, motl, vshape, None, "class"),
            )
            agree(
                "place default after class",
                outcome(o_place, templates, motl, volume=base),
                outcome(n_place, templates, motl, volume=base),
            )
            agree(
                "place object_id written out vs original default",
                outcome(o_place, templates, motl, volume=base),
                outcome(n_place, templates, motl, volume=base, feature_to_color="object_id"),
            )
            agree(
                "place default vs original object_id written out",
                outcome(o_place, templates, motl, volume_shape=vshape, feature_to_color="object_id"),
                outcome(n_place, templates, motl, volume_shape=vshape),
            )
            for col in ("geom1", "class", "object_id", "tomo_id", "score", "x", "no_such_column", ""):
                agree(
                    f"place {col}",
                    outcome(o_place, templates, motl, volume_shape=vshape, feature_to_color=col),
                    outcome(n_place, templates, motl, volume_shape=vshape, feature_to_color=col),
                )
            agree("place without volume", outcome(o_place, templates, motl), outcome(n_place, templates, motl))
    return ncmp


def main():
    for seed in (2024, 7):
        run_property(np.random.default_rng(seed))
    ncmp = compare_with_original(np.random.default_rng(99))
    if FAILS:
        print(f"{len(FAILS)} checks failed")
        print("FAIL")
        sys.exit(1)
    print(f"property holds; {ncmp} comparisons with the original functions identical")
    print("PASS")


if __name__ == "__main__":
    main()
