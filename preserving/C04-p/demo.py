"""C04 -- STOPGAP <-> cryoCAT conversion is a lossless renaming with parity half-sets.

Run as:  cd /tmp/wt7/C04 && /venv/bin/python /tmp/seedsT/C04/c/demo.py

The property is checked against an independent computation (own renaming table, own parity rule, own
round-half-up with exact fractions, own parser of the written .star text) and the functions of the tree are
compared with verbatim copies of the ORIGINAL functions (class OrigStopgapMotl below) on the same inputs.
"""
import sys, os

sys.path.insert(0, os.getcwd())
import warnings

warnings.filterwarnings("ignore")
import copy
import decimal
import tempfile
from fractions import Fraction
from pathlib import Path

import numpy as np
import pandas as pd
from pandas.testing import assert_frame_equal

from cryocat import cryomotl, starfileio
from cryocat.cryomotl import Motl, StopgapMotl, EmMotl
from cryocat.exceptions import UserInputError

# --------------------------------------------------------------------------------------------------------------
# verbatim copies of the ORIGINAL functions (HEAD 6462733); only `super()` / `StopgapMotl.` were re-pointed so that
# the copies call each other and not the functions of the tree
# --------------------------------------------------------------------------------------------------------------


class OrigStopgapMotl(StopgapMotl):
    def __init__(self, input_motl=None):
        Motl.__init__(self)
        self.sg_df = pd.DataFrame()

        if input_motl is not None:
            if isinstance(input_motl, StopgapMotl):
                self.df = input_motl.df.copy()
                self.sg_df = input_motl.sg_df.copy()

            elif isinstance(input_motl, pd.DataFrame):
                self.check_df_type(input_motl)
            elif isinstance(input_motl, str):
                sg_df = self.read_in(input_motl)
                self.convert_to_motl(sg_df)
            else:
                raise UserInputError(
                    f"Provided input_motl is neither DataFrame nor path to the motl file: {input_motl}."
                )

    def check_df_type(self, input_motl):
        if Motl.check_df_correct_format(input_motl):
            self.df = input_motl.copy()
            self.df.reset_index(inplace=True, drop=True)
            self.df = self.df.fillna(0.0)
        else:
            self.convert_to_motl(input_motl)

    def update_coordinates(self):
        # Python 0.5 rounding: round(1.5) = 2, BUT round(2.5) = 2, while in Matlab round(2.5) = 3
        def round_and_recenter(row):
            new_row = row.copy()
            shifted_x = row["x"] + row["shift_x"]
            shifted_y = row["y"] + row["shift_y"]
            shifted_z = row["z"] + row["shift_z"]
            new_row["x"] = float(decimal.Decimal(shifted_x).to_integral_value(rounding=decimal.ROUND_HALF_UP))
            new_row["y"] = float(decimal.Decimal(shifted_y).to_integral_value(rounding=decimal.ROUND_HALF_UP))
            new_row["z"] = float(decimal.Decimal(shifted_z).to_integral_value(rounding=decimal.ROUND_HALF_UP))
            new_row["shift_x"] = shifted_x - new_row["x"]
            new_row["shift_y"] = shifted_y - new_row["y"]
            new_row["shift_z"] = shifted_z - new_row["z"]
            return new_row

        self.df = self.df.apply(round_and_recenter, axis=1)
        warnings.warn("The coordinates for subtomogram extraction were changed, new extraction is necessary!")

    @staticmethod
    def read_in(input_path):
        frames, specifiers, _ = starfileio.Starfile.read(input_path)

        if "data_stopgap_motivelist" not in specifiers:
            raise UserInputError(f"Provided starfile does not contain particle list: {input_path}.")
        else:
            sg_id = starfileio.Starfile.get_specifier_id(specifiers, "data_stopgap_motivelist")
            stopgap_df = frames[sg_id]

        return stopgap_df

    def convert_to_motl(self, stopgap_df, keep_halfsets=False):
        self.sg_df = stopgap_df

        for em_key, star_key in StopgapMotl.pairs.items():
            self.df[em_key] = stopgap_df[star_key]

        if keep_halfsets:
            if stopgap_df["halfset"].nunique() == 2:
                self.df["geom3"] = [1.0 if hs.lower() == "a" else 0.0 for hs in stopgap_df["halfset"]]
                halfset_num = self.df["geom3"].values % 2
                c = 1 if halfset_num[0] == 1 else 2
                subtomo_id_num = [c]
                for i in range(1, self.df.shape[0]):
                    if (c % 2 == 1 and halfset_num[i] == 1) or (c % 2 == 0 and halfset_num[i] == 0):
                        c += 2
                    else:
                        c += 1
                    subtomo_id_num.append(c)

                self.df["geom3"] = self.df["subtomo_id"]
                self.df["subtomo_id"] = subtomo_id_num

    @staticmethod
    def convert_to_sg_motl(motl_df, reset_index=False):
        stopgap_df = pd.DataFrame(data=np.zeros((motl_df.shape[0], 16)), columns=StopgapMotl.columns)

        for em_key, star_key in StopgapMotl.pairs.items():
            stopgap_df[star_key] = motl_df[em_key].values

        stopgap_df["halfset"] = np.where(motl_df["subtomo_id"].mod(2).eq(0).to_numpy(), "A", "B")
        stopgap_df["motl_idx"] = stopgap_df["subtomo_num"]

        stopgap_df = OrigStopgapMotl.sg_df_reset_index(stopgap_df, reset_index)

        return stopgap_df

    @staticmethod
    def sg_df_reset_index(stopgap_df, reset_index=False):
        if reset_index:
            stopgap_df["motl_idx"] = range(1, stopgap_df.shape[0] + 1)

        return stopgap_df

    def write_out(self, output_path, update_coord=False, reset_index=False):
        if update_coord:
            self.update_coordinates()

        if output_path.endswith(".star"):
            stopgap_df = OrigStopgapMotl.convert_to_sg_motl(self.df, reset_index)
            stopgap_df.fillna(0, inplace=True)
            starfileio.Starfile.write([stopgap_df], output_path, specifiers=["data_stopgap_motivelist"])
        elif output_path.endswith(".em"):
            Motl.write_out(self, output_path=output_path, motl_type="emmotl")


# --------------------------------------------------------------------------------------------------------------
# independent reference
# --------------------------------------------------------------------------------------------------------------
MOTL_COLUMNS = ["score", "geom1", "geom2", "subtomo_id", "tomo_id", "object_id", "subtomo_mean", "x", "y", "z",
                "shift_x", "shift_y", "shift_z", "geom3", "geom4", "geom5", "phi", "psi", "theta", "class"]  # fmt: skip
SG_COLUMNS = ["motl_idx", "tomo_num", "object", "subtomo_num", "halfset", "orig_x", "orig_y", "orig_z", "score",
              "x_shift", "y_shift", "z_shift", "phi", "psi", "the", "class"]  # fmt: skip
# the documented renaming (cryoCAT name, STOPGAP name) of the 14 shared fields
RENAME = [("score", "score"), ("subtomo_id", "subtomo_num"), ("tomo_id", "tomo_num"), ("object_id", "object"),
          ("x", "orig_x"), ("y", "orig_y"), ("z", "orig_z"), ("shift_x", "x_shift"), ("shift_y", "y_shift"),
          ("shift_z", "z_shift"), ("phi", "phi"), ("psi", "psi"), ("theta", "the"), ("class", "class")]  # fmt: skip
OTHER = [c for c in MOTL_COLUMNS if c not in dict(RENAME)]

FAIL = []


def check(cond, msg):
    if not cond:
        FAIL.append(msg)
        if len(FAIL) <= 25:
            print("FAIL:", msg)


def same_bits(a, b):
    """equal values, equal sign of zero, NaN equal to NaN"""
    a = np.asarray(a, dtype=float)
    b = np.asarray(b, dtype=float)
    return a.shape == b.shape and np.array_equal(a, b, equal_nan=True) and np.array_equal(np.signbit(a), np.signbit(b))


def half_up(v):
    """round half away from zero, exact (Fraction arithmetic)"""
    if v == 0:
        return float(v)  # keeps the sign of a zero
    f = Fraction(float(v))
    if f >= 0:
        r = (f + Fraction(1, 2)).__floor__()
        return float(r)
    r = (-f + Fraction(1, 2)).__floor__()
    return -float(r) if r != 0 else -0.0


def parity_letter(v):
    return "A" if int(v) % 2 == 0 else "B"


def parse_star(path):
    """independent reader of the written text: specifier, loop_, _labels, whitespace separated rows"""
    with open(path) as fh:
        lines = [ln.split("#")[0].strip() for ln in fh.read().split("\n")]
    lines = [ln for ln in lines if ln]
    check(lines[0] == "data_stopgap_motivelist", f"specifier line is {lines[0]!r}")
    check(lines[1] == "loop_", "loop_ missing")
    labels, k = [], 2
    while k < len(lines) and lines[k].startswith("_"):
        labels.append(lines[k][1:].split()[0])
        k += 1
    rows = [ln.split() for ln in lines[k:]]
    return labels, rows


def make_case(rng, n, variant):
    """raw numpy arrays (the truth) and a particle list built from them"""
    raw = {}
    scale = [1.0, 100.0, 1e4][variant % 3]
    for c in MOTL_COLUMNS:
        raw[c] = rng.normal(size=n) * scale
    # non-sequential, unique subtomogram numbers of both parities (negative ones and 0 as well in some variants)
    lo = -50 if variant % 5 == 4 else 0
    raw["subtomo_id"] = rng.choice(np.arange(lo, lo + 5 * n + 20), size=n, replace=False).astype(float)
    raw["tomo_id"] = rng.integers(1, 40, size=n).astype(float)
    raw["object_id"] = rng.integers(0, 7, size=n).astype(float)
    raw["class"] = rng.integers(-1, 5, size=n).astype(float)
    raw["x"] = np.round(raw["x"])  # integer positions are the usual case ...
    if variant % 2:
        raw["y"] = raw["y"] + 0.25  # ... but not required
    # special values: zeros, signed zero, exact .5 ties, poles of the Euler angles, first / last rows
    specials = {"theta": [0.0, 180.0, -180.0, 90.0], "phi": [180.0, -180.0, 360.0, 0.0], "psi": [-0.0, 270.0],
                "score": [0.0, -1.0, 1.0], "shift_x": [0.5, -0.5, 1.5, -2.5, 0.0, -0.0, 0.49999999999999994],
                "shift_y": [2.5, -1.5, 0.25], "shift_z": [-0.5, 0.5], "z": [0.0, -3.0, 7.5]}  # fmt: skip
    for c, vals in specials.items():
        for j, v in enumerate(vals):
            pos = [0, n - 1, n // 2, n // 3, (2 * n) // 3, 1 % n, (n - 2) % n][j % 7]
            raw[c][pos] = v
    if variant % 4 == 3:
        # holes in the fields that are NOT shared (they are not part of the STOPGAP form)
        raw["geom1"][rng.integers(0, n)] = np.nan
        raw["subtomo_mean"][:] = np.nan
    df = pd.DataFrame({c: raw[c].copy() for c in MOTL_COLUMNS}, columns=MOTL_COLUMNS)
    # integer element types for the number columns in some variants
    if variant % 3 == 1:
        for c in ["subtomo_id", "tomo_id", "object_id"]:
            df[c] = df[c].astype(np.int64)
        df["class"] = df["class"].astype(np.int32)
    # row labels: default, shuffled, offset, reversed, repeated labels, text labels
    kind = variant % 6
    if kind == 1:
        df.index = rng.permutation(n)
    elif kind == 2:
        df.index = np.arange(n) + 1000
    elif kind == 3:
        df.index = np.arange(n)[::-1]
    elif kind == 4:
        df.index = np.zeros(n, dtype=int)
    elif kind == 5:
        df.index = [f"p{i}" for i in rng.permutation(n)]
    return raw, df


def expected_after_update(raw):
    exp = {c: raw[c].copy() for c in raw}
    for p, s in (("x", "shift_x"), ("y", "shift_y"), ("z", "shift_z")):
        v = raw[p] + raw[s]
        r = np.array([half_up(t) for t in v])
        exp[p] = r
        exp[s] = v - r
    return exp


def check_sg_frame(sg, exp, n, reset, tag, exact=True, tol=0.0):
    check(list(sg.columns) == SG_COLUMNS, f"{tag}: columns {list(sg.columns)}")
    check(len(sg) == n, f"{tag}: {len(sg)} rows for {n} particles")
    check(list(sg.index) == list(range(n)), f"{tag}: row labels not 0..N-1")
    for em, st in RENAME:
        got = sg[st].to_numpy()
        if exact:
            check(same_bits(got, exp[em]), f"{tag}: field {em}->{st} not copied unchanged / in order")
        else:
            want = np.asarray(exp[em], dtype=float)
            ok = np.all(np.abs(got.astype(float) - want) <= tol + 1e-9 * np.maximum(1.0, np.abs(want)))
            check(ok, f"{tag}: field {em}->{st} differs beyond STAR precision")
    check(list(sg["halfset"]) == [parity_letter(v) for v in exp["subtomo_id"]], f"{tag}: halfset parity")
    want_idx = np.arange(1, n + 1) if reset else np.asarray(exp["subtomo_id"], dtype=float)
    check(np.array_equal(sg["motl_idx"].to_numpy().astype(float), want_idx.astype(float)), f"{tag}: motl_idx")


def check_motl_frame(mdf, exp, n, tag, tol):
    check(len(mdf) == n, f"{tag}: {len(mdf)} rows for {n}")
    check(sorted(mdf.columns) == sorted(MOTL_COLUMNS), f"{tag}: motl columns")
    for em, _ in RENAME:
        got = mdf[em].to_numpy().astype(float)
        want = np.asarray(exp[em], dtype=float)
        if tol == 0.0:
            check(same_bits(got, want), f"{tag}: field {em} changed")
        else:
            ok = np.all(np.abs(got - want) <= tol + 1e-9 * np.maximum(1.0, np.abs(want)))
            check(ok, f"{tag}: field {em} differs beyond STAR precision")


def frames_identical(a, b, tag):
    try:
        assert_frame_equal(a, b, check_exact=True, check_dtype=True, check_index_type=True, check_column_type=True)
        for c in a.columns:
            if a[c].dtype.kind == "f":
                assert np.array_equal(np.signbit(a[c].to_numpy()), np.signbit(b[c].to_numpy())), f"sign of zero in {c}"
    except AssertionError as e:
        check(False, f"{tag}: tree differs from ORIGINAL function: {str(e)[:300]}")


STAR_TOL = 0.5e-6


def run_case(rng, n, variant, tmpdir, counter):
    raw, df = make_case(rng, n, variant)
    df_before = df.copy(deep=True)
    tag0 = f"n={n} v={variant}"

    # ---------------- in memory: export --------------------------------------------------------------------
    for reset in (False, True):
        sg = StopgapMotl.convert_to_sg_motl(df, reset) if variant % 2 else StopgapMotl.convert_to_sg_motl(df, reset_index=reset)
        check_sg_frame(sg, raw, n, reset, f"{tag0} convert_to_sg_motl reset={reset}")
        frames_identical(sg, OrigStopgapMotl.convert_to_sg_motl(df, reset), f"{tag0} convert_to_sg_motl reset={reset}")
        sg_again = StopgapMotl.convert_to_sg_motl(df, reset)
        frames_identical(sg, sg_again, f"{tag0} repeated call")
        # sg_df_reset_index on its own
        base = sg.copy()
        out = StopgapMotl.sg_df_reset_index(base, reset)
        check(out is base, f"{tag0} sg_df_reset_index returns its argument")
        check_sg_frame(out, raw, n, reset, f"{tag0} sg_df_reset_index reset={reset}")
    if variant == 0:
        sg_default = StopgapMotl.convert_to_sg_motl(df)  # default: no reset
        check_sg_frame(sg_default, raw, n, False, f"{tag0} convert_to_sg_motl default")
    check(df.equals(df_before) and list(df.index) == list(df_before.index), f"{tag0}: the input list was modified")

    # ---------------- in memory: import of the STOPGAP form --------------------------------------------------
    sg = StopgapMotl.convert_to_sg_motl(df, False)
    for cls, name in ((StopgapMotl, "tree"), (OrigStopgapMotl, "orig")):
        back = cls(sg)  # a STOPGAP frame is converted
        check_motl_frame(back.df, raw, n, f"{tag0} {name} StopgapMotl(sg_df)", 0.0)
        back.convert_to_motl(sg)  # repeated call on the same object
        check_motl_frame(back.df, raw, n, f"{tag0} {name} convert_to_motl twice", 0.0)
    frames_identical(StopgapMotl(sg).df, OrigStopgapMotl(sg).df, f"{tag0} StopgapMotl(sg_df).df")
    frames_identical(cryomotl.stopgap2emmotl(sg).df, EmMotl(OrigStopgapMotl(sg).df).df, f"{tag0} stopgap2emmotl(sg_df)")
    # a shuffled STOPGAP frame: particle order is the order of the rows
    perm = rng.permutation(n)
    sg_perm = sg.iloc[perm]
    raw_perm = {c: raw[c][perm] for c in raw}
    check_motl_frame(StopgapMotl(sg_perm).df, raw_perm, n, f"{tag0} StopgapMotl(shuffled sg_df)", 0.0)
    frames_identical(StopgapMotl(sg_perm).df, OrigStopgapMotl(sg_perm).df, f"{tag0} StopgapMotl(shuffled sg_df).df")

    # ---------------- object built from the particle list ----------------------------------------------------
    m_tree, m_orig = StopgapMotl(df), OrigStopgapMotl(df)
    check_motl_frame(m_tree.df, raw, n, f"{tag0} StopgapMotl(df).df", 0.0)
    check(list(m_tree.df.index) == list(range(n)), f"{tag0} StopgapMotl(df).df labels")
    frames_identical(m_tree.df, m_orig.df, f"{tag0} StopgapMotl(df).df")
    m_copy = StopgapMotl(m_tree)
    frames_identical(m_copy.df, m_tree.df, f"{tag0} StopgapMotl(StopgapMotl)")

    # ---------------- via file ------------------------------------------------------------------------------
    for upd in (False, True):
        for reset in (False, True):
            counter[0] += 1
            tag = f"{tag0} upd={upd} reset={reset}"
            p_tree = os.path.join(tmpdir, f"t{counter[0]}.star")
            p_orig = os.path.join(tmpdir, f"o{counter[0]}.star")
            p_func = os.path.join(tmpdir, f"f{counter[0]}.star")
            a, b = StopgapMotl(df), OrigStopgapMotl(df)
            if variant % 2:
                a.write_out(p_tree, upd, reset)  # positional caller
            else:
                a.write_out(p_tree, update_coord=upd, reset_index=reset)
            b.write_out(p_orig, update_coord=upd, reset_index=reset)
            exp = expected_after_update(raw) if upd else raw
            # the object after writing
            check_motl_frame(a.df, exp, n, f"{tag} object after write_out", 0.0)
            frames_identical(a.df, b.df, f"{tag} object after write_out")
            # the text, read independently
            labels, rows = parse_star(p_tree)
            check(labels == SG_COLUMNS, f"{tag} labels in file {labels}")
            check(len(rows) == n and all(len(r) == 16 for r in rows), f"{tag} rows in file")
            if len(rows) == n and all(len(r) == 16 for r in rows):
                cols = {lab: [r[i] for r in rows] for i, lab in enumerate(labels)}
                parsed = pd.DataFrame({lab: (cols[lab] if lab == "halfset" else np.array(cols[lab], dtype=float)) for lab in labels})
                check_sg_frame(parsed, exp, n, reset, f"{tag} written text", exact=False, tol=STAR_TOL)
            with open(p_tree, "rb") as f1, open(p_orig, "rb") as f2:
                check(f1.read() == f2.read(), f"{tag} file differs from the one the ORIGINAL functions write")
            # loading back
            for cls, name in ((StopgapMotl, "tree"), (OrigStopgapMotl, "orig")):
                back = cls(p_tree)
                check_motl_frame(back.df, exp, n, f"{tag} {name} load", STAR_TOL)
                check_sg_frame(back.sg_df, exp, n, reset, f"{tag} {name} load sg_df", exact=False, tol=STAR_TOL)
            frames_identical(StopgapMotl(p_tree).df, OrigStopgapMotl(p_tree).df, f"{tag} loaded .df")
            frames_identical(StopgapMotl.read_in(p_tree), OrigStopgapMotl.read_in(p_tree), f"{tag} read_in")
            em = cryomotl.stopgap2emmotl(p_tree)
            check_motl_frame(em.df, exp, n, f"{tag} stopgap2emmotl", STAR_TOL)
            # second write of the same object: nothing moves any more (update_coord is idempotent on its result)
            p_again = os.path.join(tmpdir, f"a{counter[0]}.star")
            a.write_out(p_again, update_coord=False, reset_index=reset)
            with open(p_tree, "rb") as f1, open(p_again, "rb") as f2:
                check(f1.read() == f2.read(), f"{tag} second write_out of the same object differs")
            # the module level route
            sgm = cryomotl.emmotl2stopgap(df, p_func, update_coordinates=upd, reset_index=reset)
            check_motl_frame(sgm.df, exp, n, f"{tag} emmotl2stopgap object", 0.0)
            with open(p_tree, "rb") as f1, open(p_func, "rb") as f2:
                check(f1.read() == f2.read(), f"{tag} emmotl2stopgap file differs from write_out file")
            # path-like file names (accepted by the tree or not: the str route is the reference)
            try:
                pl = StopgapMotl(Path(p_tree))
            except UserInputError:
                pl = None
            if pl is not None:
                frames_identical(pl.df, StopgapMotl(p_tree).df, f"{tag} Path input")
                frames_identical(pl.sg_df, StopgapMotl(p_tree).sg_df, f"{tag} Path input sg_df")
            c = StopgapMotl(df)
            p_path = os.path.join(tmpdir, f"p{counter[0]}.star")
            try:
                c.write_out(Path(p_path), update_coord=upd, reset_index=reset)
                wrote = True
            except AttributeError:
                wrote = False
            if wrote:
                with open(p_tree, "rb") as f1, open(p_path, "rb") as f2:
                    check(f1.read() == f2.read(), f"{tag} file written through a Path differs")
            for p in (p_tree, p_orig, p_func, p_again, p_path):
                if os.path.exists(p):
                    os.remove(p)
    check(df.equals(df_before) and list(df.index) == list(df_before.index), f"{tag0}: the input list was modified (file route)")


def extra_checks(tmpdir):
    # .em route of write_out and a wrong kind of input
    rng = np.random.default_rng(5)
    raw, df = make_case(rng, 7, 2)
    for cls in (StopgapMotl, OrigStopgapMotl):
        p = os.path.join(tmpdir, f"x_{cls.__name__}.em")
        cls(df).write_out(p)
        e = EmMotl(p)
        for em, _ in RENAME:
            check(np.allclose(e.df[em].to_numpy(), raw[em].astype(np.float32), rtol=1e-6, atol=0), f"{cls.__name__} .em route field {em}")
    a = EmMotl(os.path.join(tmpdir, "x_StopgapMotl.em")).df
    b = EmMotl(os.path.join(tmpdir, "x_OrigStopgapMotl.em")).df
    frames_identical(a, b, ".em route")
    for bad in (5, 2.5, ["a"], ("x",)):
        for cls in (StopgapMotl, OrigStopgapMotl):
            try:
                cls(bad)
                check(False, f"{cls.__name__}({bad!r}) accepted")
            except UserInputError:
                pass
    # a star file without the particle block is refused
    p = os.path.join(tmpdir, "other.star")
    starfileio.Starfile.write([pd.DataFrame({"a": [1.0, 2.0]})], p, specifiers=["data_stopgap_wedgelist"])
    for cls in (StopgapMotl, OrigStopgapMotl):
        try:
            cls(p)
            check(False, f"{cls.__name__} accepted a file without data_stopgap_motivelist")
        except UserInputError:
            pass
    # keep_halfsets (documented side route of convert_to_motl): same as the original
    raw, df = make_case(rng, 23, 1)
    sg = StopgapMotl.convert_to_sg_motl(df)
    x, y = StopgapMotl(), OrigStopgapMotl()
    x.convert_to_motl(sg.copy(), keep_halfsets=True)
    y.convert_to_motl(sg.copy(), keep_halfsets=True)
    frames_identical(x.df, y.df, "keep_halfsets=True")
    # empty list (outside 1..300, still the same as before)
    e = Motl.create_empty_motl_df()
    frames_identical(StopgapMotl.convert_to_sg_motl(e), OrigStopgapMotl.convert_to_sg_motl(e), "empty list")
    frames_identical(StopgapMotl(e).df, OrigStopgapMotl(e).df, "empty list object")


class StrWithFspath(str):
    """a str (recognised FIRST by the ladder) that also offers __fspath__ pointing somewhere else"""

    def __fspath__(self):
        return "/nonexistent/elsewhere.star"


class OnlyFspath:
    """path-like that is neither str nor pathlib"""

    def __init__(self, p):
        self.p = p

    def __fspath__(self):
        return self.p


def pathlike_checks(tmpdir):
    rng = np.random.default_rng(11)
    supported = None
    for trial, n in enumerate([1, 2, 9, 40, 300]):
        raw, df = make_case(rng, n, trial + 1)
        for upd in (False, True):
            for reset in (False, True):
                tag = f"pathlike n={n} upd={upd} reset={reset}"
                exp = expected_after_update(raw) if upd else raw
                p_str = os.path.join(tmpdir, f"pl_s_{trial}_{upd}_{reset}.star")
                OrigStopgapMotl(df).write_out(p_str, update_coord=upd, reset_index=reset)
                ref = OrigStopgapMotl(p_str)
                # old kinds of input first: str and a str subclass with a misleading __fspath__
                for arg, name in ((p_str, "str"), (StrWithFspath(p_str), "str subclass")):
                    got = StopgapMotl(arg)
                    frames_identical(got.df, ref.df, f"{tag} load from {name}")
                    frames_identical(got.sg_df, ref.sg_df, f"{tag} load from {name} sg_df")
                    check_motl_frame(got.df, exp, n, f"{tag} load from {name}", STAR_TOL)
                    p_out = os.path.join(tmpdir, "pl_out.star")
                    StopgapMotl(df).write_out(type(arg)(p_out), update_coord=upd, reset_index=reset)
                    with open(p_out, "rb") as f1, open(p_str, "rb") as f2:
                        check(f1.read() == f2.read(), f"{tag} file written through {name} differs")
                    os.remove(p_out)
                # path-like inputs: refused as before, or the same result as through the string
                for arg, name in ((Path(p_str), "Path"), (OnlyFspath(p_str), "__fspath__ object")):
                    try:
                        got = StopgapMotl(arg)
                    except UserInputError:
                        got = None
                    check(supported in (None, got is not None), f"{tag} {name}: accepted only sometimes")
                    supported = got is not None
                    if got is not None:
                        frames_identical(got.df, ref.df, f"{tag} load from {name}")
                        frames_identical(got.sg_df, ref.sg_df, f"{tag} load from {name} sg_df")
                        check_motl_frame(got.df, exp, n, f"{tag} load from {name}", STAR_TOL)
                        check_sg_frame(got.sg_df, exp, n, reset, f"{tag} load from {name} sg_df", exact=False, tol=STAR_TOL)
                        em = cryomotl.stopgap2emmotl(arg)
                        frames_identical(em.df, cryomotl.stopgap2emmotl(p_str).df, f"{tag} stopgap2emmotl({name})")
                    p_out = os.path.join(tmpdir, "pl_out.star")
                    out_arg = Path(p_out) if name == "Path" else OnlyFspath(p_out)
                    obj = StopgapMotl(df)
                    try:
                        obj.write_out(out_arg, update_coord=upd, reset_index=reset)
                        wrote = True
                    except AttributeError:
                        wrote = False
                    if wrote:
                        with open(p_out, "rb") as f1, open(p_str, "rb") as f2:
                            check(f1.read() == f2.read(), f"{tag} file written through {name} differs")
                        check_motl_frame(obj.df, exp, n, f"{tag} object after write_out({name})", 0.0)
                        os.remove(p_out)
                        sgm = cryomotl.emmotl2stopgap(df, out_arg, update_coordinates=upd, reset_index=reset)
                        with open(p_out, "rb") as f1, open(p_str, "rb") as f2:
                            check(f1.read() == f2.read(), f"{tag} emmotl2stopgap file through {name} differs")
                        os.remove(p_out)
                os.remove(p_str)
    # .em extension through a path-like
    raw, df = make_case(rng, 6, 0)
    p_em = os.path.join(tmpdir, "pl.em")
    try:
        StopgapMotl(df).write_out(Path(p_em))
        p_em2 = os.path.join(tmpdir, "pl2.em")
        StopgapMotl(df).write_out(p_em2)
        frames_identical(EmMotl(p_em).df, EmMotl(p_em2).df, "pathlike .em route")
    except AttributeError:
        pass
    # neither kind: still refused
    for bad in (5, None.__class__, 3.5, [os.path.join(tmpdir, "x.star")], b"bytes.star"):
        try:
            StopgapMotl(bad)
            check(False, f"StopgapMotl({bad!r}) accepted")
        except UserInputError:
            pass
    print("path-like inputs accepted by this tree:", supported)


def main():
    rng = np.random.default_rng(int(os.environ.get("DEMO_SEED", "20240404")))
    counter = [0]
    sizes = [1, 2, 3, 4, 5, 7, 10, 16, 31, 64, 150, 299, 300]
    with tempfile.TemporaryDirectory() as tmpdir:
        variant = 0
        for n in sizes:
            reps = 6 if n <= 31 else 2
            for _ in range(reps):
                run_case(rng, n, variant, tmpdir, counter)
                variant += 1
        extra_checks(tmpdir)
        pathlike_checks(tmpdir)
    print(f"cases: {variant}, files written and read back: {counter[0]}")
    if FAIL:
        print(f"FAIL ({len(FAIL)} checks)")
        sys.exit(1)
    print("PASS")


if __name__ == "__main__":
    main()
