import sys, os

sys.path.insert(0, os.getcwd())
import re
import math
import copy
import shutil
import tempfile
import warnings
import inspect
import pathlib

warnings.filterwarnings("ignore")
import numpy as np
import pandas as pd
import emfile

from cryocat import mdoc as cmdoc
from cryocat import ioutils, wedgeutils, starfileio
from cryocat.mdoc import Mdoc

FAILS = []
COUNTS = {}


def check(cond, msg):
    COUNTS["checks"] = COUNTS.get("checks", 0) + 1
    if not cond:
        FAILS.append(msg)
        if len(FAILS) <= 25:
            print("FAIL:", msg)
    return cond


# ----------------------------------------------------------------------------------------------------------------
# comparison helpers
# ----------------------------------------------------------------------------------------------------------------
def same_scalar(a, b):
    """same type and same value (NaN equals NaN)"""
    if type(a) is not type(b):
        return False
    if isinstance(a, (float, np.floating)) and math.isnan(a) and math.isnan(b):
        return True
    return a == b


def frames_identical(a, b):
    """dtype-, label-, type- and value-exact comparison of two data frames; returns '' or a description"""
    if type(a) is not type(b):
        return "type %s vs %s" % (type(a), type(b))
    if list(a.columns) != list(b.columns) or a.columns.dtype != b.columns.dtype:
        return "columns %s vs %s" % (list(a.columns), list(b.columns))
    if type(a.index) is not type(b.index) or list(a.index) != list(b.index) or a.index.dtype != b.index.dtype:
        return "index %r vs %r" % (a.index, b.index)
    if list(a.dtypes) != list(b.dtypes):
        return "dtypes %s vs %s" % (list(a.dtypes), list(b.dtypes))
    for c in range(a.shape[1]):
        ca, cb = a.iloc[:, c].tolist(), b.iloc[:, c].tolist()
        for r, (x, y) in enumerate(zip(ca, cb)):
            if not same_scalar(x, y):
                return "cell (%d, %s): %r (%s) vs %r (%s)" % (r, a.columns[c], x, type(x), y, type(y))
    return ""


def arrays_identical(a, b):
    if type(a) is not type(b):
        return "type %s vs %s" % (type(a), type(b))
    if a.dtype != b.dtype or a.shape != b.shape:
        return "dtype/shape %s %s vs %s %s" % (a.dtype, a.shape, b.dtype, b.shape)
    if a.flags.writeable != b.flags.writeable:
        return "writeable flag %s vs %s" % (a.flags.writeable, b.flags.writeable)
    for x, y in zip(a.ravel().tolist(), b.ravel().tolist()):
        if not same_scalar(x, y):
            return "value %r vs %r" % (x, y)
    return ""


def outcome(fn, *args, **kwargs):
    """('ok', value) or ('err', exception type, message)"""
    try:
        return ("ok", fn(*args, **kwargs))
    except Exception as e:  # noqa
        return ("err", type(e), str(e))


def outcomes_identical(o1, o2):
    if o1[0] != o2[0]:
        return "%r vs %r" % (o1[:2], o2[:2])
    if o1[0] == "err":
        return "" if (o1[1] is o2[1] and o1[2] == o2[2]) else "errors %r vs %r" % (o1, o2)
    a, b = o1[1], o2[1]
    if isinstance(a, pd.DataFrame):
        return frames_identical(a, b)
    if isinstance(a, np.ndarray):
        return arrays_identical(a, b)
    return "" if (type(a) is type(b) and a == b) else "%r vs %r" % (a, b)


def original_function(text, module, name, extra=None):
    """compile the kept copy of the original function text inside a copy of the module's namespace"""
    ns = dict(vars(module))
    if extra:
        ns.update(extra)
    exec(text, ns)
    return ns[name]


# ----------------------------------------------------------------------------------------------------------------
# mdoc grammar + an independent reader
# ----------------------------------------------------------------------------------------------------------------
WORDS = ["SerialEM", "K3", "record", "alpha", "beta-2", "x_y", "Gatan", "fs", "nan", "None", "True", "1e3", "0x1F", "+5"]
MONTHS = ["Jan", "Feb", "Mar", "Apr", "May", "Jun", "Jul", "Aug", "Sep", "Oct", "Nov", "Dec"]


def gen_value(rng, kind):
    if kind == "int":
        v = str(int(rng.integers(0, 100000)))
        if rng.random() < 0.15:
            v = "00" + v
        return v
    if kind == "float":
        r = rng.random()
        if r < 0.05:
            return "%d." % rng.integers(0, 50)
        if r < 0.10:
            return ".%d" % rng.integers(0, 1000)
        return "%.*f" % (int(rng.integers(1, 5)), rng.uniform(0, 2000))
    if kind == "neg":
        if rng.random() < 0.5:
            return "-%d" % rng.integers(1, 5000)
        return "-%.*f" % (int(rng.integers(1, 4)), rng.uniform(0, 500))
    if kind == "pair":
        return "%.3f %.3f" % (rng.uniform(-500, 500), rng.uniform(-500, 500))
    if kind == "ipair":
        return "%d %d" % (rng.integers(0, 8000), rng.integers(0, 8000))
    if kind == "path":
        return "X:\\frames\\grid%d\\ts_%03d_%.1f.tif" % (rng.integers(1, 9), rng.integers(0, 999), rng.uniform(-60, 60))
    if kind == "date":
        return "%02d-%s-%02d  %02d:%02d:%02d" % (
            rng.integers(1, 29),
            MONTHS[int(rng.integers(0, 12))],
            rng.integers(10, 30),
            rng.integers(0, 24),
            rng.integers(0, 60),
            rng.integers(0, 60),
        )
    if kind == "text":
        return " ".join(WORDS[int(i)] for i in rng.integers(0, len(WORDS), size=int(rng.integers(1, 4))))
    if kind == "zero":
        return "0"
    raise ValueError(kind)


COLUMN_POOL = [
    ("StagePosition", ["pair"]),
    ("StageZ", ["float", "neg"]),
    ("Magnification", ["int"]),
    ("Intensity", ["float"]),
    ("ExposureDose", ["float", "int"]),
    ("PriorRecordDose", ["float", "int", "zero"]),
    ("DoseRate", ["float"]),
    ("PixelSpacing", ["float"]),
    ("SpotSize", ["int"]),
    ("Defocus", ["neg", "float", "zero"]),
    ("ImageShift", ["pair"]),
    ("RotationAngle", ["float", "neg"]),
    ("ExposureTime", ["float", "int"]),
    ("Binning", ["int"]),
    ("CameraIndex", ["zero", "int"]),
    ("MinMaxMean", ["ipair", "pair"]),
    ("TargetDefocus", ["neg"]),
    ("SubFramePath", ["path"]),
    ("NumSubFrames", ["int"]),
    ("DateTime", ["date"]),
    ("Comment", ["text", "int", "neg", "float"]),
    ("UncroppedSize", ["ipair"]),
]


def gen_tilts(rng, n, distinct=False):
    r = rng.random()
    if r < 0.4:  # a regular dose-symmetric-like scheme
        step = float(rng.choice([1.0, 2.0, 3.0, 1.5]))
        start = -step * (n // 2) + float(rng.choice([0.0, 0.01, -0.02]))
        t = [round(start + step * i, 2) for i in range(n)]
        order = list(rng.permutation(n))
        t = [t[i] for i in order]
    else:
        t = [round(float(x), int(rng.integers(0, 3))) for x in rng.uniform(-70, 70, size=n)]
    if distinct:
        seen, out = set(), []
        for x in t:
            while x in seen:
                x = round(x + 0.37, 2)
            seen.add(x)
            out.append(x)
        t = out
    elif n > 2 and rng.random() < 0.2:
        t[int(rng.integers(0, n))] = t[0]  # a repeated tilt
    return t


def fmt_tilt(rng, x):
    if float(x).is_integer() and rng.random() < 0.5:
        return str(int(x))  # "3", "-12", "0"
    return repr(float(x))


def gen_mdoc_text(rng, n=None, need_dose=False, distinct_tilts=False, with_prior=True):
    """text of a ZValue mdoc: header entries, 0..3 titles, n images which all carry the keys of the first image"""
    n = int(rng.integers(1, 81)) if n is None else n
    lines = []
    header = [
        ("PixelSpacing", gen_value(rng, "float")),
        ("Voltage", gen_value(rng, "int")),
        ("ImageFile", "TS_%02d.mrc" % rng.integers(0, 99)),
        ("ImageSize", gen_value(rng, "ipair")),
        ("DataMode", str(rng.integers(0, 7))),
    ]
    header = [header[int(i)] for i in rng.permutation(len(header))[: int(rng.integers(1, len(header) + 1))]]
    if rng.random() < 0.5:
        header.append(("Shift", gen_value(rng, "neg")))
    if rng.random() < 0.5:
        header.append(("Note", gen_value(rng, "text")))
    for k, v in header:
        lines.append("%s = %s" % (k, v))
    lines.append("")
    ntitles = int(rng.integers(0, 4))
    title_pool = [
        "T = SerialEM: Digitized on K3 camera  %s" % gen_value(rng, "date"),
        "T =     Tilt axis angle = %.1f, binning = %d  spot = %d  camera = %d"
        % (rng.uniform(-180, 180), rng.integers(1, 5), rng.integers(1, 9), rng.integers(0, 3)),
        "T = %s" % gen_value(rng, "text"),
    ]
    for i in range(ntitles):
        lines.append("[%s]" % title_pool[i])
        lines.append("")
    ncols = int(rng.integers(0, len(COLUMN_POOL) + 1))
    cols = [COLUMN_POOL[int(i)] for i in sorted(rng.permutation(len(COLUMN_POOL))[:ncols])]
    if rng.random() < 0.5:
        cols = [cols[int(i)] for i in rng.permutation(len(cols))]
    names = [c[0] for c in cols]
    if need_dose:
        cols = [c for c in cols if c[0] not in ("ExposureDose", "PriorRecordDose", "DateTime")]
        cols.append(("ExposureDose", ["float", "int"]))
        if with_prior:
            cols.append(("PriorRecordDose", ["float", "int", "zero"]))
        cols.append(("DateTime", ["date"]))
        cols = [cols[int(i)] for i in rng.permutation(len(cols))]
    tilt_pos = int(rng.integers(0, len(cols) + 1))
    tilts = gen_tilts(rng, n, distinct=distinct_tilts)
    zvalues = list(range(n))
    if rng.random() < 0.3:
        zvalues = [int(z) for z in rng.permutation(n)]
    elif rng.random() < 0.2:
        zvalues = [z + 5 for z in zvalues]
    blank = "\n" if rng.random() < 0.8 else "  \n"
    for i in range(n):
        lines.append("[ZValue = %d]" % zvalues[i])
        body = []
        for name, kinds in cols:
            body.append("%s = %s" % (name, gen_value(rng, kinds[int(rng.integers(0, len(kinds)))])))
        body.insert(tilt_pos, "TiltAngle = %s" % fmt_tilt(rng, tilts[i]))
        lines.extend(body)
        lines.append(blank.rstrip("\n"))
    text = "\n".join(lines)
    if rng.random() < 0.7:
        text += "\n"
    return text


RE_INT = re.compile(r"[0-9]+\Z")
RE_FLOAT = re.compile(r"(?=[.]?[0-9])[0-9]*[.]?[0-9]*\Z")


def ref_value(s):
    s = s.strip()
    if RE_INT.match(s):
        return int(s)
    if RE_FLOAT.match(s):
        return float(s)
    return s


def ref_read(text):
    """independent reader: (titles, header dict, list of per-image dicts in file order)"""
    titles, header, images = [], {}, []
    cur = None
    for raw in text.split("\n"):
        line = raw.strip()
        if not line:
            continue
        m = re.match(r"\[\s*ZValue\s*=\s*(-?[0-9]+)\s*\]\Z", line)
        if m:
            cur = {"ZValue": int(m.group(1))}
            images.append(cur)
        elif cur is None and line.startswith("["):
            titles.append(line[1:-1].strip())
        else:
            k, v = line.split("=")
            if cur is None:
                header[k.strip()] = ref_value(v)
            elif k.strip() == "TiltAngle":
                cur["TiltAngle"] = float(v)
            else:
                cur[k.strip()] = ref_value(v)
    return titles, header, images


def table_matches(imgs, records, removed=None, what=""):
    """the per-image table of an Mdoc against the independent records (same order); '' or a description"""
    if removed is None:
        removed = [False] * len(records)
    if len(imgs) != len(records):
        return "%s: %d rows vs %d records" % (what, len(imgs), len(records))
    exp_cols = list(records[0].keys()) + ["Removed"]
    if list(imgs.columns) != exp_cols:
        return "%s: columns %s vs %s" % (what, list(imgs.columns), exp_cols)
    if imgs["ZValue"].dtype != np.int64 or imgs["TiltAngle"].dtype != np.float64 or imgs["Removed"].dtype != bool:
        return "%s: dtypes %s" % (what, dict(imgs.dtypes))
    cells = {k: imgs[k].tolist() for k in imgs.columns}
    for r, rec in enumerate(records):
        if list(rec.keys()) != exp_cols[:-1]:
            return "%s: record %d has keys %s" % (what, r, list(rec.keys()))
        for k, e in rec.items():
            v = cells[k][r]
            if not same_scalar(v, e):
                return "%s: row %d key %s: %r (%s) vs %r (%s)" % (what, r, k, v, type(v), e, type(e))
        if cells["Removed"][r] is not bool(removed[r]):
            return "%s: row %d removed flag %r vs %r" % (what, r, cells["Removed"][r], removed[r])
    return ""


def header_matches(m, titles, header):
    if m.titles != titles:
        return "titles %r vs %r" % (m.titles, titles)
    if list(m.project_info.keys()) != list(header.keys()):
        return "header keys %r vs %r" % (list(m.project_info), list(header))
    for k in header:
        if not same_scalar(m.project_info[k], header[k]):
            return "header %s: %r vs %r" % (k, m.project_info[k], header[k])
    return ""


def run_mdoc_property(rng, tmp, n_cases):
    for case in range(n_cases):
        n = [1, 2, 80][case] if case < 3 else None
        text = gen_mdoc_text(rng, n=n)
        p = os.path.join(tmp, "in_%d.mdoc" % case)
        with open(p, "w") as f:
            f.write(text)
        titles, header, records = ref_read(text)
        n = len(records)
        m = Mdoc(p)
        tag = "mdoc case %d (n=%d)" % (case, n)
        check(m.section_id == "ZValue", tag + ": section id")
        check(header_matches(m, titles, header) == "", tag + ": read header " + header_matches(m, titles, header))
        d = table_matches(m.imgs, records, what="read")
        check(d == "", tag + ": " + d)
        check(list(m.imgs.index) == list(range(n)), tag + ": index after reading")

        # write -> the text holds the same entries, and re-reads to the same object
        p2 = os.path.join(tmp, "out_%d.mdoc" % case)
        m.write(p2, overwrite=True)
        t2, h2, r2 = ref_read(open(p2).read())
        check(t2 == titles and list(h2.items()) == list(header.items()), tag + ": written header")
        check(r2 == records and all(list(a) == list(b) for a, b in zip(r2, records)), tag + ": written images")
        m2 = Mdoc(p2)
        check(header_matches(m2, titles, header) == "", tag + ": re-read header")
        d = frames_identical(m2.imgs, m.imgs)
        check(d == "", tag + ": re-read table " + d)
        try:
            m.write(p2)
            check(False, tag + ": overwrite without permission")
        except FileExistsError:
            check(True, "")

        # sort by tilt: only the order changes (rows keep their labels), tilts ascending
        before = m.imgs.copy()
        m.sort_by_tilt()
        ta = m.imgs["TiltAngle"].tolist()
        check(all(ta[i] <= ta[i + 1] for i in range(n - 1)), tag + ": tilts ascending after sort")
        check(sorted(m.imgs.index) == list(range(n)), tag + ": sort keeps the rows")
        d = frames_identical(m.imgs.sort_index().reset_index(drop=True), before)
        check(d == "", tag + ": sort changes only the order " + d)
        order = list(m.imgs.index)
        srecords = [records[i] for i in order]

        # remove images (positions among the kept images, twice on the same object)
        removed_labels = set()
        for rep in range(2):
            kept = [i for i in order if i not in removed_labels]
            if not kept:
                break
            k = int(rng.integers(0, len(kept) + 1))
            if rep == 0 and case % 7 == 0:
                k = 0
            if rep == 0 and case % 11 == 1:
                k = len(kept)
            pos = [int(x) for x in rng.permutation(len(kept))[:k]]
            if pos and rng.random() < 0.3:
                pos = pos + [pos[0]]  # a repeated position
            if rng.random() < 0.5:
                m.remove_images(pos)
            else:
                m.remove_images(np.asarray(pos, dtype=int), kept_only=True)
            removed_labels |= {kept[q] for q in pos}
            flags = [i in removed_labels for i in order]
            d = table_matches(m.imgs, srecords, removed=flags, what="after removal %d" % rep)
            check(d == "", tag + ": " + d)
            check(list(m.imgs.index) == order, tag + ": removal keeps order")
            check(list(m.kept_images().index) == [i for i in order if i not in removed_labels], tag + ": kept_images")
            check(list(m.removed_images().index) == [i for i in order if i in removed_labels], tag + ": removed_images")
            p3 = os.path.join(tmp, "rem_%d_%d.mdoc" % (case, rep))
            m.write(p3, overwrite=True)
            t3, h3, r3 = ref_read(open(p3).read())
            exp = [srecords[j] for j, i in enumerate(order) if i not in removed_labels]
            check(t3 == titles and list(h3.items()) == list(header.items()), tag + ": header of reduced file")
            check(r3 == exp, tag + ": the written file omits exactly the removed images (%d)" % rep)
            if exp:
                m3 = Mdoc(p3)
                d = table_matches(m3.imgs, exp, what="re-read reduced")
                check(d == "", tag + ": " + d)
            m.write(p3, overwrite=True, removed=True)
            r3 = ref_read(open(p3).read())[2]
            check(r3 == srecords, tag + ": removed=True writes every image")
        # kept_only=False addresses all rows
        m4 = Mdoc(p)
        pos = sorted(int(x) for x in rng.permutation(n)[: int(rng.integers(0, n + 1))])
        m4.remove_images(pos[: len(pos) // 2])
        m4.remove_images(pos, kept_only=False)
        check([bool(x) for x in m4.imgs["Removed"]] == [i in pos for i in range(n)], tag + ": kept_only=False")
        m4.reset_images()
        d = frames_identical(m4.imgs, before)
        check(d == "", tag + ": reset_images " + d)

        # module level functions
        idx = sorted(int(x) for x in rng.permutation(n)[: int(rng.integers(1, n + 1))])
        from1 = bool(rng.random() < 0.5)
        p5 = os.path.join(tmp, "fn_%d.mdoc" % case)
        arg = [i + 1 for i in idx] if from1 else idx
        m5 = cmdoc.remove_images(p, arg if rng.random() < 0.5 else np.asarray(arg), numbered_from_1=from1, output_file=p5)
        check([bool(x) for x in m5.imgs["Removed"]] == [i in idx for i in range(n)], tag + ": remove_images()")
        check(ref_read(open(p5).read())[2] == [records[i] for i in range(n) if i not in idx], tag + ": remove_images() file")
        rz = bool(rng.random() < 0.5)
        m6 = cmdoc.sort_mdoc_by_tilt_angles(p, reset_z_value=rz, output_file=p5)
        exp = [dict(records[i]) for i in m6.imgs.index]
        ta = [e["TiltAngle"] for e in exp]
        check(all(ta[i] <= ta[i + 1] for i in range(n - 1)), tag + ": sort_mdoc_by_tilt_angles order")
        if rz:
            for j, e in enumerate(exp):
                e["ZValue"] = j
        check(ref_read(open(p5).read())[2] == exp, tag + ": sort_mdoc_by_tilt_angles file")
        check(sorted(m6.imgs.index) == list(range(n)), tag + ": sort_mdoc_by_tilt_angles rows")
        ga = cmdoc.get_tilt_angles(p)
        check(ga.dtype == np.float64 and ga.tolist() == [r["TiltAngle"] for r in records], tag + ": get_tilt_angles")
    COUNTS["mdoc cases"] = n_cases


# ----------------------------------------------------------------------------------------------------------------
# loaders
# ----------------------------------------------------------------------------------------------------------------
def write_lines(path, values, rng=None, fmt="%.2f"):
    with open(path, "w") as f:
        for v in values:
            s = fmt % v
            if rng is not None and float(v).is_integer() and rng.random() < 0.3:
                s = "%d" % v
            if rng is not None and rng.random() < 0.1:
                s = "  " + s
            f.write(s + "\n")


def gen_ascending_tilts(rng, n):
    r = rng.random()
    if r < 0.5:
        step = float(rng.choice([1.0, 2.0, 3.0]))
        start = -step * (n // 2) + float(rng.choice([0.0, 0.01, -0.01]))
        return np.array([round(start + i * step, 2) for i in range(n)])
    t = np.sort(np.round(rng.uniform(-70, 70, size=n), 2))
    return t


def write_gctf_star(path, U, V, A, P, rng):
    n = len(U)
    cols = [("rlnMicrographName", ["split.mrc.%02d" % (i + 1) for i in range(n)])]
    cols.append(("rlnDefocusU", ["%.6f" % x for x in U]))
    cols.append(("rlnDefocusV", ["%.6f" % x for x in V]))
    cols.append(("rlnDefocusAngle", ["%.6f" % x for x in A]))
    if P is not None:
        cols.append(("rlnPhaseShift", ["%.6f" % x for x in P]))
    cols.append(("rlnVoltage", ["300.000000"] * n))
    cols.append(("rlnFinalResolution", ["%.6f" % x for x in rng.uniform(3, 20, size=n)]))
    if rng.random() < 0.5:
        cols = [cols[int(i)] for i in rng.permutation(len(cols))]
    with open(path, "w") as f:
        f.write("\ndata_\n\nloop_\n")
        for i, (name, _) in enumerate(cols):
            f.write("_%s #%d\n" % (name, i + 1))
        for r in range(n):
            f.write(" ".join("%14s" % c[1][r] for c in cols).strip() + "\n")
        f.write("\n")


def write_ctffind4(path, U, V, A, P, rng):
    n = len(U)
    with open(path, "w") as f:
        f.write("# Output from CTFFind version 4.1.8, run on 2019-02-25 11:33:34\n")
        f.write("# Input file: 031.mrc ; Number of micrographs: %d\n" % n)
        f.write("# Pixel size: 1.327 Angstroms ; acceleration voltage: 300.0 keV ; spherical aberration: 2.70 mm\n")
        f.write("# Box size: 512 pixels ; min. res.: 30.0 Angstroms ; max. res.: 5.0 Angstroms\n")
        f.write("# Columns: #1 - micrograph number; #2 - defocus 1 [Angstroms]; #3 - defocus 2; #4 - azimuth\n")
        for i in range(n):
            f.write(
                "%.6f %.6f %.6f %.6f %.6f %.6f %.6f\n"
                % (i + 1, U[i], V[i], A[i], 0.0 if P is None else P[i], rng.uniform(0, 0.1), rng.uniform(3, 20))
            )


def gen_ctf(rng, n):
    U = np.round(rng.uniform(5000, 60000, size=n), 6)
    V = np.round(U + rng.uniform(-2000, 2000, size=n), 6)
    if rng.random() < 0.2:
        V[0] = U[0]
    if rng.random() < 0.2:
        U[-1] = 0.0
    if rng.random() < 0.2:
        U[n // 2] = -U[n // 2]  # overfocus
    A = np.round(rng.uniform(-90, 90, size=n), 6)
    P = np.round(rng.uniform(0, 3.0, size=n), 6) if rng.random() < 0.5 else None
    return U, V, A, P


DEFOCUS_COLS = ["defocus1", "defocus2", "astigmatism", "phase_shift", "defocus_mean"]


def defocus_matches(df, U, V, A, P, rtol, dtype):
    n = len(U)
    if list(df.columns) != DEFOCUS_COLS or list(df.index) != list(range(n)):
        return "labels %s %s" % (list(df.columns), list(df.index)[:5])
    if any(dt != dtype for dt in df.dtypes):
        return "dtypes %s" % list(df.dtypes)
    P0 = np.zeros(n) if P is None else P
    exp = np.column_stack([U * 1e-4, V * 1e-4, A, P0, (U + V) / 2.0 * 1e-4])
    got = df.to_numpy().astype(float)
    if not np.allclose(got, exp, rtol=rtol, atol=rtol):
        return "values differ by %g" % np.abs(got - exp).max()
    return ""


def run_loader_property(rng, tmp, n_cases):
    for case in range(n_cases):
        n = [1, 2, 80][case] if case < 3 else int(rng.integers(1, 81))
        tag = "loader case %d (n=%d)" % (case, n)
        tilts = gen_ascending_tilts(rng, n)
        ext = [".tlt", ".rawtlt", ".txt", ".csv"][case % 4]
        p = os.path.join(tmp, "t_%d%s" % (case, ext))
        write_lines(p, tilts, rng)
        exp32 = np.asarray(tilts, dtype=np.float32)
        for kw in ({}, {"sort_angles": True}, {"sort_angles": False}):
            got = ioutils.tlt_load(p, **kw)
            check(got.dtype == np.float32 and got.shape == (n,), tag + ": tlt_load dtype/shape")
            check(np.allclose(got, exp32, rtol=1e-6, atol=1e-6), tag + ": tlt_load values")
            check(bool(np.all(np.diff(got) >= 0)), tag + ": tlt_load ascending")
        got = ioutils.one_value_per_line_read(p)
        check(got.dtype == np.float32 and np.allclose(got, exp32, rtol=1e-6, atol=1e-6), tag + ": one_value_per_line")
        got = ioutils.one_value_per_line_read(p, data_type=np.float64)
        check(got.dtype == np.float64 and np.allclose(got, tilts, rtol=1e-12, atol=1e-12), tag + ": one_value f64")
        # a shuffled file comes back ascending unless sort_angles=False
        perm = rng.permutation(n)
        ps = os.path.join(tmp, "ts_%d.tlt" % case)
        write_lines(ps, tilts[perm])
        check(np.allclose(ioutils.tlt_load(ps), exp32, atol=1e-6), tag + ": shuffled tilts sorted")
        check(np.allclose(ioutils.tlt_load(ps, sort_angles=False), exp32[perm], atol=1e-6), tag + ": unsorted kept")
        # array / list inputs
        arr = np.array(tilts[perm])
        check(ioutils.tlt_load(arr) is arr, tag + ": tilt array returned as is")
        lst = [float(x) for x in tilts]
        got = ioutils.tlt_load(lst)
        check(isinstance(got, np.ndarray) and got.tolist() == lst, tag + ": tilt list")
        ilist = [int(x) for x in rng.integers(1, 500, size=n)]
        got = ioutils.tlt_load(ilist)
        check(got.dtype.kind == "i" and got.tolist() == ilist, tag + ": integer list")

        # dose: one value per line, order of the file
        dose = np.round(np.cumsum(rng.uniform(0.5, 4.0, size=n)), 2)[rng.permutation(n)]
        pd_ = os.path.join(tmp, "d_%d.txt" % case)
        write_lines(pd_, dose, rng)
        got = ioutils.total_dose_load(pd_)
        check(got.dtype == np.float32 and np.allclose(got, dose.astype(np.float32), rtol=1e-6), tag + ": dose file")
        check(ioutils.total_dose_load(dose) is dose, tag + ": dose array as is")
        got = ioutils.total_dose_load([float(x) for x in dose])
        check(got.tolist() == dose.tolist(), tag + ": dose list")

        # mdoc: tilts ascending, dose = prior + exposure (tilt order by default, file order on request)
        text = gen_mdoc_text(rng, n=n, need_dose=True, distinct_tilts=True)
        pm = os.path.join(tmp, "m_%d.mdoc" % case)
        with open(pm, "w") as f:
            f.write(text)
        recs = ref_read(text)[2]
        ft = [r["TiltAngle"] for r in recs]
        fd = [r["ExposureDose"] + r["PriorRecordDose"] for r in recs]
        o = sorted(range(n), key=lambda i: ft[i])
        got = ioutils.tlt_load(pm)
        check(got.dtype == np.float64 and got.tolist() == [ft[i] for i in o], tag + ": mdoc tilts")
        check(ioutils.tlt_load(pm, sort_angles=False).tolist() == ft, tag + ": mdoc tilts unsorted")
        got = ioutils.total_dose_load(pm)
        check(got.shape == (n,) and np.allclose(got.astype(float), [fd[i] for i in o], rtol=1e-12), tag + ": mdoc dose")
        got = ioutils.total_dose_load(pm, sort_mdoc=False)
        check(np.allclose(got.astype(float), fd, rtol=1e-12), tag + ": mdoc dose, file order")

        # defocus files
        U, V, A, P = gen_ctf(rng, n)
        pg = os.path.join(tmp, "g_%d.star" % case)
        write_gctf_star(pg, U, V, A, P, rng)
        for got in (ioutils.gctf_read(pg), ioutils.defocus_load(pg), ioutils.defocus_load(pg, "GCTF")):
            d = defocus_matches(got, U, V, A, P, 1e-10, np.float64)
            check(d == "", tag + ": gctf " + d)
        pc = os.path.join(tmp, "c_%d.txt" % case)
        write_ctffind4(pc, U, V, A, P, rng)
        for got in (ioutils.ctffind4_read(pc), ioutils.defocus_load(pc, "ctffind4")):
            d = defocus_matches(got, U, V, A, P, 2e-6, np.float32)
            check(d == "", tag + ": ctffind4 " + d)
            check(
                np.allclose(got["defocus_mean"], (got["defocus1"].astype(float) + got["defocus2"].astype(float)) / 2, rtol=1e-6),
                tag + ": ctffind4 mean",
            )
        df = ioutils.gctf_read(pg)
        check(ioutils.defocus_load(df) is df, tag + ": defocus frame as is")
        got = ioutils.defocus_load(df.to_numpy())
        check(frames_identical(got, df) == "", tag + ": defocus array " + frames_identical(got, df))
    COUNTS["loader cases"] = n_cases


# ----------------------------------------------------------------------------------------------------------------
# wedge lists
# ----------------------------------------------------------------------------------------------------------------
SG_COLS = ["tomo_num", "pixelsize", "tomo_x", "tomo_y", "tomo_z", "z_shift", "tilt_angle", "defocus", "exposure",
           "voltage", "amp_contrast", "cs"]


def expected_sg(tomos, data, pixel_size, dims, zsh, volt, amp, cs, with_ctf, with_dose):
    rows = []
    for t in tomos:
        d = data[t]
        for i in range(len(d["tilts"])):
            row = {
                "tomo_num": t, "pixelsize": pixel_size, "tomo_x": dims[t][0], "tomo_y": dims[t][1], "tomo_z": dims[t][2],
                "z_shift": zsh[t], "tilt_angle": d["tilts"][i],
            }
            if with_ctf:
                row["defocus"] = (d["U"][i] + d["V"][i]) / 2.0 * 1e-4
            if with_dose:
                row["exposure"] = d["dose"][i]
            row.update({"voltage": volt, "amp_contrast": amp, "cs": cs})
            rows.append(row)
    return pd.DataFrame(rows)


def sg_matches(df, exp, rtol=2e-6):
    if list(df.columns) != list(exp.columns):
        return "columns %s vs %s" % (list(df.columns), list(exp.columns))
    if list(df.index) != list(range(len(exp))):
        return "index %s" % list(df.index)[:6]
    a = df.to_numpy().astype(float)
    b = exp.to_numpy().astype(float)
    if a.shape != b.shape or not np.allclose(a, b, rtol=rtol, atol=1e-6):
        return "values"
    return ""


def run_wedge_property(rng, tmp, n_cases):
    for case in range(n_cases):
        nt = [1, 5][case] if case < 2 else int(rng.integers(1, 6))
        tomos = sorted(int(x) for x in rng.permutation(np.arange(1, 400))[:nt])
        if rng.random() < 0.5:
            tomos = [tomos[int(i)] for i in rng.permutation(nt)]
        tag = "wedge case %d (tomos %s)" % (case, tomos)
        root = os.path.join(tmp, "w%d" % case)
        os.makedirs(root)
        data, dims, zsh = {}, {}, {}
        use_ctffind = bool(rng.random() < 0.5)
        for t in tomos:
            n = int(rng.integers(1, 81)) if rng.random() < 0.9 else 1
            tilts = gen_ascending_tilts(rng, n)
            dose = np.round(np.cumsum(rng.uniform(0.5, 4.0, size=n)), 2)[rng.permutation(n)]
            U, V, A, P = gen_ctf(rng, n)
            os.makedirs(os.path.join(root, "TS_%03d" % t))
            write_lines(os.path.join(root, "TS_%03d" % t, "%03d.tlt" % t), tilts, rng)
            write_lines(os.path.join(root, "TS_%03d" % t, "%03d_dose.txt" % t), dose, rng)
            if use_ctffind:
                write_ctffind4(os.path.join(root, "TS_%03d" % t, "%03d_ctf.txt" % t), U, V, A, P, rng)
            else:
                write_gctf_star(os.path.join(root, "TS_%03d" % t, "%03d_ctf.txt" % t), U, V, A, P, rng)
            data[t] = dict(tilts=tilts, dose=dose, U=U, V=V, A=A, P=P)
            dims[t] = [int(x) for x in rng.integers(100, 5000, size=3)]
            zsh[t] = float(round(rng.uniform(-200, 200), 1)) if rng.random() < 0.8 else 0.0
        if rng.random() < 0.2:
            dims[tomos[-1]] = [dims[tomos[-1]][0]] * 3  # a cubic tomogram
        pixel_size = float(round(rng.uniform(0.5, 12), 3))
        volt, amp, cs = float(rng.choice([300.0, 200.0])), float(rng.choice([0.07, 0.1])), float(rng.choice([2.7, 0.01]))
        ctf_type = "ctffind4" if use_ctffind else "gctf"
        tlt_fmt = os.path.join(root, "TS_$xxx", "$xxx.tlt")
        ctf_fmt = os.path.join(root, "TS_$xxx", "$xxx_ctf.txt")
        dose_fmt = os.path.join(root, "TS_$xxx", "$xxx_dose.txt")

        # single tomogram, file and array inputs
        t = tomos[0]
        d = data[t]
        with_ctf, with_dose = bool(rng.random() < 0.7), bool(rng.random() < 0.7)
        exp = expected_sg([t], data, pixel_size, dims, zsh, volt, amp, cs, with_ctf, with_dose)
        out = os.path.join(root, "single.star")
        got = wedgeutils.create_wedge_list_sg(
            t, dims[t], pixel_size, os.path.join(root, "TS_%03d" % t, "%03d.tlt" % t), z_shift=zsh[t],
            ctf_file=os.path.join(root, "TS_%03d" % t, "%03d_ctf.txt" % t) if with_ctf else None, ctf_file_type=ctf_type,
            dose_file=os.path.join(root, "TS_%03d" % t, "%03d_dose.txt" % t) if with_dose else None,
            voltage=volt, amp_contrast=amp, cs=cs, output_file=out,
        )
        check(sg_matches(got, exp) == "", tag + ": single wedge list (files) " + sg_matches(got, exp))
        back = starfileio.Starfile.read(out)
        check(back[1] == ["data_stopgap_wedgelist"], tag + ": specifier")
        check(sg_matches(back[0][0].astype(float), exp, rtol=1e-5) == "", tag + ": single wedge list file")
        P0 = np.zeros(len(d["U"])) if d["P"] is None else d["P"]
        ctf_arr = np.column_stack([d["U"] * 1e-4, d["V"] * 1e-4, d["A"], P0, (d["U"] + d["V"]) / 2.0 * 1e-4])
        got = wedgeutils.create_wedge_list_sg(
            t, np.asarray(dims[t]), pixel_size, d["tilts"].copy(), z_shift=zsh[t],
            ctf_file=(ctf_arr if rng.random() < 0.5 else pd.DataFrame(ctf_arr, columns=DEFOCUS_COLS)) if with_ctf else None,
            dose_file=d["dose"].copy() if with_dose else None, voltage=volt, amp_contrast=amp, cs=cs,
        )
        check(sg_matches(got, exp, rtol=1e-12) == "", tag + ": single wedge list (arrays) " + sg_matches(got, exp, 1e-12))

        # batch
        dim_arr = np.array([[t] + dims[t] for t in tomos])
        z_arr = np.array([[t, zsh[t]] for t in tomos])
        tl = os.path.join(root, "tomo_list.txt")
        write_lines(tl, tomos, fmt="%d")
        if rng.random() < 0.5:
            tomo_in = tl  # a list read from a file is taken in ascending order
            tomos = sorted(tomos)
        else:
            tomo_in = np.asarray(tomos)
        exp = expected_sg(tomos, data, pixel_size, dims, zsh, volt, amp, cs, with_ctf, with_dose)
        out = os.path.join(root, "batch.star")
        got = wedgeutils.create_wedge_list_sg_batch(
            tomo_in, pixel_size, tlt_fmt, tomo_dim=dim_arr, z_shift=z_arr, ctf_file_format=ctf_fmt if with_ctf else None,
            ctf_file_type=ctf_type, dose_file_format=dose_fmt if with_dose else None, voltage=volt, amp_contrast=amp,
            cs=cs, output_file=out,
        )
        check(sg_matches(got, exp) == "", tag + ": batch wedge list " + sg_matches(got, exp))
        back = starfileio.Starfile.read(out)[0][0].astype(float)
        check(sg_matches(back, exp, rtol=1e-5) == "", tag + ": batch wedge list file")
        # one dimension / one z-shift for all tomograms
        same_dims = {t: dims[tomos[0]] for t in tomos}
        same_z = {t: zsh[tomos[0]] for t in tomos}
        exp1 = expected_sg(tomos, data, pixel_size, same_dims, same_z, 300.0, 0.07, 2.7, False, False)
        got = wedgeutils.create_wedge_list_sg_batch(tomo_in, pixel_size, tlt_fmt, tomo_dim=dims[tomos[0]], z_shift=zsh[tomos[0]])
        check(sg_matches(got, exp1) == "", tag + ": batch, shared dimensions " + sg_matches(got, exp1))

        # EM wedge list
        oute = os.path.join(root, "batch.em")
        got = wedgeutils.create_wedge_list_em_batch(tomo_in, tlt_fmt, output_file=oute)
        expe = np.array([[t, np.float32(data[t]["tilts"].min()), np.float32(data[t]["tilts"].max())] for t in tomos])
        check(list(got.columns) == ["tomo_num", "min_angle", "max_angle"], tag + ": em columns")
        check(np.allclose(got.to_numpy().astype(float), expe, rtol=1e-6, atol=1e-6), tag + ": em wedge list")
        arr = emfile.read(oute)[1]
        check(arr.shape == (1, nt, 3) and np.allclose(arr[0], expe, rtol=1e-6, atol=1e-5), tag + ": em file")
        got2 = wedgeutils.wedge_list_sg_to_em(out, os.path.join(root, "conv.em"))
        st = sorted(tomos)
        expe2 = np.array([[t, data[t]["tilts"].min(), data[t]["tilts"].max()] for t in st])
        check(list(got2.columns) == ["tomo_id", "min_tilt_angle", "max_tilt_angle"], tag + ": sg->em columns")
        check(np.allclose(got2.to_numpy().astype(float), expe2, rtol=1e-5, atol=1e-5), tag + ": sg->em values")
        arr = emfile.read(os.path.join(root, "conv.em"))[1]
        check(arr.shape == (1, nt, 3) and np.allclose(arr[0], expe2, rtol=1e-5, atol=1e-4), tag + ": sg->em file")
    COUNTS["wedge cases"] = n_cases


def run_property(seed=20240917, n_mdoc=40, n_loader=30, n_wedge=12):
    rng = np.random.default_rng(seed)
    tmp = tempfile.mkdtemp(prefix="c17_demo_")
    try:
        run_mdoc_property(rng, tmp, n_mdoc)
        run_loader_property(rng, tmp, n_loader)
        run_wedge_property(rng, tmp, n_wedge)
    finally:
        shutil.rmtree(tmp, ignore_errors=True)
# ----------------------------------------------------------------------------------------------------------------
# change a: Mdoc._parse_images builds the table in one go -- compared with the original text of the function
# ----------------------------------------------------------------------------------------------------------------
ORIGINAL_PARSE_IMAGES = '''
def _parse_images(data, section_id):
    # split the lines into sections, each starting with line starting with "[ZValue"
    sections = []
    section = []
    for line in data:
        if line.startswith("[" + section_id) and section:
            sections.append(section)
            section = []
        if line.strip():
            section.append(line)
    sections.append(section)

    # determine dataframe columns from the first section
    columns = [section_id]
    columns.extend([line.split("=")[0].strip() for line in sections[0][1:]])

    imgs = pd.DataFrame(columns=columns)
    for section in sections:
        # parse section
        img = {}
        for line in section:
            if line.startswith("["):
                img[section_id] = line.split("=")[1].strip().strip("]").strip()
            else:
                key, value = line.split("=")
                img[key.strip()] = Mdoc._format_value(value)
        imgs = pd.concat([imgs, pd.DataFrame(img, index=[0])], ignore_index=True)

    # prepare flag for removed images
    imgs["Removed"] = False

    # convert ZValues to int
    temp_column = imgs.astype({section_id: int})
    imgs[section_id] = temp_column[section_id]

    # convert TiltAngle to float
    imgs["TiltAngle"] = imgs["TiltAngle"].astype(float)

    return imgs
'''


def image_lines(text, section_id="ZValue"):
    lines = text.splitlines(keepends=True)
    for i, line in enumerate(lines):
        if line.startswith("[" + section_id):
            return lines[i:]
    return []


def mutate_sections(rng, text):
    """texts outside the grammar: keys missing from / added to later (or the first) sections, repeated keys, a key
    called like the section, a line without '=', a missing TiltAngle"""
    lines = text.split("\n")
    starts = [i for i, l in enumerate(lines) if l.startswith("[ZValue")]
    kind = int(rng.integers(0, 8))
    out = []
    sec = -1
    extra_kinds = ["int", "float", "neg", "text", "zero"]
    for i, l in enumerate(lines):
        if l.startswith("[ZValue"):
            sec += 1
            out.append(l)
            if kind in (1, 2) and sec >= 1 and rng.random() < 0.5:
                out.append("Extra = %s" % gen_value(rng, extra_kinds[int(rng.integers(0, 5 if kind == 2 else 2))]))
            if kind == 2 and sec >= 1 and rng.random() < 0.3:
                out.append("Other = %s" % gen_value(rng, "int"))
            if kind == 3 and sec == 0:
                out.append("Twice = 1")
                out.append("Twice = 2.5")
            if kind == 4 and rng.random() < 0.5:
                out.append("ZValue = %d" % rng.integers(0, 100))
            if kind == 5 and sec == len(starts) - 1:
                out.append("a line without the sign")
            if kind == 7 and sec == 0:
                out.append("OnlyFirst = %s" % gen_value(rng, "float"))
            continue
        if sec >= 1 and l.strip() and kind in (0, 2) and not l.startswith("TiltAngle") and rng.random() < 0.25:
            continue  # a key missing from a later section
        if kind == 6 and sec == len(starts) - 1 and l.startswith("TiltAngle") and len(starts) > 1:
            continue
        if kind == 6 and len(starts) == 1 and l.startswith("TiltAngle"):
            continue
        out.append(l)
    return "\n".join(out)


def run_specific(seed=99):
    rng = np.random.default_rng(seed)
    orig = original_function(ORIGINAL_PARSE_IMAGES, cmdoc, "_parse_images")
    n_ok = n_err = 0
    for case in range(160):
        n = [1, 2, 3, 80][case] if case < 4 else int(rng.integers(1, 41))
        text = gen_mdoc_text(rng, n=n)
        if case % 2 == 1:
            text = mutate_sections(rng, text)
        sid = "ZValue"
        if case % 10 == 8:
            text = text.replace("[ZValue", "[FrameSet")
            sid = "FrameSet"
        data = image_lines(text, sid)
        o1 = outcome(orig, list(data), sid)
        o2 = outcome(Mdoc._parse_images, list(data), sid)
        d = outcomes_identical(o1, o2)
        check(d == "", "a: _parse_images differs from the original (case %d): %s" % (case, d))
        n_ok += o1[0] == "ok"
        n_err += o1[0] == "err"
        if o1[0] == "ok" and o2[0] == "ok":
            # the same text is written from both tables
            tmp = tempfile.mkdtemp(prefix="c17_a_")
            try:
                texts = []
                for k, tab in enumerate((o1[1], o2[1])):
                    mm = Mdoc(titles=["T = x"], project_info={"Voltage": 300}, imgs=tab, section_id=sid)
                    if len(tab) > 1:
                        mm.remove_images([0])
                    mm.sort_by_tilt()
                    mm.write(os.path.join(tmp, "%d.mdoc" % k), overwrite=True)
                    texts.append(open(os.path.join(tmp, "%d.mdoc" % k)).read())
                check(texts[0] == texts[1], "a: written text differs (case %d)" % case)
            finally:
                shutil.rmtree(tmp, ignore_errors=True)
    handmade = [
        [],
        ["[ZValue = 0]\n"],
        ["[ZValue = 0]\n", "TiltAngle = 1\n"],
        ["[ZValue = 0]\n", "TiltAngle = -1.5\n", "\n", "[ZValue = 1]\n", "\n"],
        ["[ZValue = 0]\n", "A = 1\n", "A = 2\n", "TiltAngle = 1\n"],
        ["[ZValue = 0]\n", "A = 1\n", "A = 2\n", "TiltAngle = 1\n", "[ZValue = 1]\n", "no sign\n"],
        ["[ZValue = 0]\n", "A = 1\n", "TiltAngle = 1\n", "[ZValue = 1]\n", "B = 2\n", "[ZValue = 2]\n", "no sign\n"],
        ["[ZValue = 0]\n", "A = 1\n", "TiltAngle = 1\n", "[ZValue = 1]\n", "A = 1 = 2\n"],
        ["[ZValue = 0]\n", "Removed = 1\n", "TiltAngle = 1\n", "[ZValue = 1]\n", "Removed = 0\n", "TiltAngle = 2\n"],
        ["[ZValue = x]\n", "TiltAngle = 1\n"],
        ["[ZValue = 0]\n", "TiltAngle = abc\n"],
        ["[ZValue = 3]\n", "TiltAngle = 7\n", "B = 2\n", "[ZValue = 1]\n", "B = x\n", "TiltAngle = -7\n", "B = 2.5\n"],
    ]
    for k, data in enumerate(handmade):
        d = outcomes_identical(outcome(orig, list(data), "ZValue"), outcome(Mdoc._parse_images, list(data), "ZValue"))
        check(d == "", "a: _parse_images differs from the original (handmade %d): %s" % (k, d))
    check(n_ok >= 100 and n_err >= 5, "a: comparison covered %d tables and %d errors" % (n_ok, n_err))
    COUNTS["a: tables compared with the original"] = n_ok
    COUNTS["a: errors compared with the original"] = n_err


if __name__ == "__main__":
    run_property()
    run_specific()
    print(", ".join("%s: %s" % kv for kv in COUNTS.items()))
    if FAILS:
        print("FAILED (%d checks)" % len(FAILS))
        sys.exit(1)
    print("PASS")
