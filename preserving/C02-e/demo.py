import sys, os

sys.path.insert(0, os.getcwd())

import inspect
import random
import shutil
import tempfile
import types

import numpy as np
import pandas as pd

from cryocat import starfileio as cur

# --------------------------------------------------------------------------------------------------------------
# copy of the ORIGINAL cryocat/starfileio.py (unmodified tree), executed as an independent module "orig"
# --------------------------------------------------------------------------------------------------------------
ORIG_SOURCE = r'''from enum import Enum
import pandas as pd
from os import path
import warnings


class TokenType(Enum):
    LITERAL = 0
    NEWLINE = 1
    COMMENT = 2
    LOOP = 3
    PROPERTY = 4


class Token:
    def __init__(self, token_type: TokenType, value, location):
        self.token_type = token_type
        self.value = value
        self.location = (location[0] + 1, location[1] + 1)

    @staticmethod
    def tokenize(text):
        """This function tokenizes a text into several tokens.

        Parameters
        ----------
        text :
            a given text

        Returns
        -------
        type
            list of tokens

        """
        tokens = list()

        # Split the text into several lines
        lines = text.split("\n")
        for line_number, line in enumerate(lines):
            # The first index of a non-space-or-hash sequence of characters. None means there is no sequence found
            first = None
            for index, char in enumerate(line):
                if not char.isspace() and char != "#":
                    # Set the first index of the sequence if it is None
                    if first is None:
                        first = index
                    continue
                elif first is not None:
                    # If a space or # and the sequence are found, classifies the sequence as
                    #   LOOP if it is 'loop_'
                    #   PROPERTY if it starts with '_'
                    #   LITERAL otherwise

                    if line[first] == "_":
                        tokens.append(Token(TokenType.PROPERTY, line[first:index], (line_number, first)))
                    elif line[first:index] == "loop_":
                        tokens.append(Token(TokenType.LOOP, line[first:index], (line_number, first)))
                    else:
                        tokens.append(Token(TokenType.LITERAL, line[first:index], (line_number, first)))

                    # Set that there is no sequence found
                    first = None
                if char == "#":
                    # Anything after the # character is a comment

                    tokens.append(Token(TokenType.COMMENT, line[index + 1 :].strip(), (line_number, index)))
                    break
                elif not char.isspace():
                    raise IOError(f"Got unexpected {char} at (Line {line_number}, Column {index}).")
            if first is not None:
                # Classifies the sequence if there is an end of line

                if line[first] == "_":
                    tokens.append(Token(TokenType.PROPERTY, line[first:], (line_number, first)))
                elif line[first:] == "loop_":
                    tokens.append(Token(TokenType.LOOP, line[first:], (line_number, first)))
                else:
                    tokens.append(Token(TokenType.LITERAL, line[first:], (line_number, first)))

            # Add a NEWLINE token
            tokens.append(Token(TokenType.NEWLINE, None, (line_number, 0)))

        return tokens[::-1]

    @staticmethod
    def parse_newline_or_comments(tokens):
        """This function takes a token queue and dequeues any NEWLINE token and COMMENT token while storing the comments from
        the COMMENT tokens.

        Parameters
        ----------
        tokens :
            a queue of tokens

        Returns
        -------
        type
            list of comments retrieves from the dequeued COMMENT tokens

        """
        comments = []
        while True:
            comment_token = Token.check_then_consume(tokens, TokenType.COMMENT)
            if comment_token is not None:
                comments.append(comment_token.value)
            elif not Token.check_then_consume(tokens, TokenType.NEWLINE):
                break
        return comments

    @staticmethod
    def parse_specifier(tokens):
        """This function takes a token queue, gets comments, and consumes (matches) a specifier as a LITERAL token.

        Parameters
        ----------
        tokens :
            a queue of tokens

        Returns
        -------
        type
            a tuple of comments and the parsed specifier

        """
        comments = Token.parse_newline_or_comments(tokens)
        specifier = Token.consume(tokens, TokenType.LITERAL)
        return comments, specifier.value

    @staticmethod
    def parse_columns(tokens):
        """This function takes a token queue, gets comments, consumes (matches) the `loop_` keyword as a LOOP token
        following by a NEWLINE token, and parses the column names

        Parameters
        ----------
        tokens :
            a queue of tokens

        Returns
        -------
        type
            a tuple of comments and column names

        """
        comments = Token.parse_newline_or_comments(tokens)
        columns = []
        Token.consume(tokens, TokenType.LOOP)
        Token.consume(tokens, TokenType.NEWLINE)
        while Token.check(tokens, TokenType.PROPERTY):
            column = Token.parse_column(tokens)
            columns.append(column)
        return comments, columns

    @staticmethod
    def parse_column(tokens):
        """This function takes a token queue, consumes a column name token as a PROPERTY token, and tries to consume
        a COMMENT token to retrieve the comment if existed.

        The PROPERTY token captures anything starting with "_", therefore the column name be the value of the token
        without the "_".

        Parameters
        ----------
        tokens :
            a token queue

        Returns
        -------
        type
            a tuple of comments and the column name

        """
        column = Token.consume(tokens, TokenType.PROPERTY)
        Token.check_then_consume(tokens, TokenType.COMMENT)
        Token.consume(tokens, TokenType.NEWLINE)
        return column.value[1:]

    @staticmethod
    def parse_rows(tokens, columns):
        """This function takes a token queue, gets comments, tries to consume LITERAL tokens as a rows which matches
        the number of columns before getting a new line, and converts the rows to a Pandas DataFrame.

        Parameters
        ----------
        tokens :
            a queue of tokens
        columns :
            a list of column names

        Returns
        -------
        type
            a tuple of comments and Pandas DataFrames

        """
        comments = Token.parse_newline_or_comments(tokens)
        end = False
        rows = []
        while not end:
            data = []
            for i in range(len(columns)):
                token = Token.check_then_consume(tokens, TokenType.LITERAL)
                if token is None:
                    end = True
                    break
                else:
                    data.append(token.value)
            else:
                Token.consume(tokens, TokenType.NEWLINE)
                rows.append(data)
        return comments, pd.DataFrame(rows, columns=columns)

    @staticmethod
    def check(tokens, token_type):
        """This function checks if the first token from the given token queue matches a given token type.

        Parameters
        ----------
        tokens :
            a queue of tokens
        token_type :
            a token type to be matched

        Returns
        -------
        type
            a boolean value indicating the match

        """

        if len(tokens) == 0:
            # end of the text: nothing is left that could match (e.g. the labels of an empty last block without final newline)
            return False
        if tokens[-1].token_type == token_type:
            return True
        return False

    @staticmethod
    def consume(tokens, token_type):
        """This function consumes the first token from the given token queue. If the token type of the first
        token does not match the token type to be matched, this function will raise a parsing error.

        Parameters
        ----------
        tokens :
            a queue of tokens
        token_type :
            a token type to be matched

        Returns
        -------
        type
            the first token

        """
        if len(tokens) == 0:
            raise IOError(f"Expected {token_type} but there are enough token.")
        if tokens[-1].token_type == token_type:
            return tokens.pop()
        else:
            raise IOError(f"Expected {token_type} but got {tokens[0].token_type} at {tokens[0].location}.")

    @staticmethod
    def check_then_consume(tokens, token_type):
        """This function checks the first token from the given token queue and consumes it if matched. Otherwise,
        it returns a None

        Parameters
        ----------
        tokens :
            a queue of tokens
        token_type :
            a token type to be matched

        Returns
        -------
        type
            the first token or None

        """
        if len(tokens) > 0 and tokens[-1].token_type == token_type:
            return Token.consume(tokens, token_type)
        return None

    @staticmethod
    def lookahead(tokens, token_type_target, ignores):
        """This function looks for a token type while ignoring token types from the ignores list

        Parameters
        ----------
        tokens :
            a queue of tokens
        token_type_target :
            a token type to be found
        ignores :
            a list of token types to be ignored

        Returns
        -------
        type
            a boolean value indicating a found token

        """
        ignores = set(ignores)
        for i in range(len(tokens) - 1, -1, -1):
            if tokens[i].token_type == token_type_target:
                return True
            elif tokens[i].token_type in ignores:
                continue
            else:
                break
        return False


class Starfile:
    def __init__(self, file_path=None, frames=None, specifiers=None, comments=None):
        """
        This function reads a starfile with a *.star extension into a tuple of a list of Pandas DataFrame, a list of Data
            Specifier, and a list of comments

            It reads the file and extracts the lists from the parsing function.

        Parameters
        ----------
        path :
            the path to the starfile to be read

        Returns
        -------
        type
            a tuples of a list of Pandas DataFrames, list of specifiers, and list of comments

        """

        if file_path and path.isfile(file_path):
            self.frames, self.specifiers, self.comments = self.read(file_path)
        else:
            self.frames = frames
            self.specifiers = specifiers
            self.comments = comments

    @staticmethod
    def remove_lines(file_path, lines_to_remove, output_file=None, data_specifier=None, number_columns=True):

        frames, specifiers, comments = Starfile.read(file_path)

        if data_specifier is None:
            spec_id = 0
        else:
            spec_id = Starfile.get_specifier_id(specifiers, data_specifier)
            if spec_id is None:
                warnings.warn(f"The data specifier {data_specifier} was not found in the file. No lines were removed.")
                return

        # Convert row numbers to index labels
        rows_to_remove_labels = frames[spec_id].index[lines_to_remove]
        frames[spec_id] = frames[spec_id].drop(rows_to_remove_labels)
        frames[spec_id].reset_index(drop=True, inplace=True)

        if output_file is not None:
            Starfile.write(frames, output_file, specifiers=specifiers, comments=comments, number_columns=number_columns)
        else:
            return frames, specifiers, comments

    @staticmethod
    def read(file_path, data_id=None):
        """This function parses a starfile into a tuple of a list of Pandas DataFrame, a list of Data Specifier, and a list of
        comments.

        It tokenizes the file and if it finds a specifier, it starts parsing in the following order:
            1. Specifier
            2. Columns      (as column names)
            3. Rows         (as a Pandas Dataframe together with the Columns)

        Parameters
        ----------
        raw_starfile :
            the starfile to be parsed
        file_path :


        Returns
        -------
        type
            a tuples of a list of Pandas DataFrames, list of specifiers, and list of comments

        """

        with open(file_path, mode="r") as file:
            raw_starfile = file.read()

        tokens = Token.tokenize(raw_starfile)
        frames = []
        comments = []
        specifiers = []
        while Token.lookahead(tokens, TokenType.LITERAL, [TokenType.NEWLINE, TokenType.COMMENT]):
            specifier_comments, specifier = Token.parse_specifier(tokens)
            column_comments, columns = Token.parse_columns(tokens)
            rows_comments, data = Token.parse_rows(tokens, columns)
            comments.append(specifier_comments + column_comments + rows_comments)
            specifiers.append(specifier)
            frames.append(data)
        Token.parse_newline_or_comments(tokens)
        if len(tokens) > 0:
            raise IOError(f"Expected a specifier or an end of token but got {tokens[0].token_type}")

        def to_numeric_if_possible(column):
            try:
                return pd.to_numeric(column)
            except (ValueError, TypeError):
                return column

        for i, f in enumerate(frames):
            frames[i] = f.apply(to_numeric_if_possible)

        if data_id is not None:
            return frames[data_id], specifiers[data_id], comments[data_id]
        else:
            return frames, specifiers, comments

    @staticmethod
    def get_specifier_id(speficiers, specifier_id):
        if specifier_id in speficiers:
            return speficiers.index(specifier_id)
        else:
            return None

    @staticmethod
    def get_frame_and_comments(file_path, specifier):
        frames, specifiers, comments = Starfile.read(file_path)

        spec_id = Starfile.get_specifier_id(specifiers, specifier)

        if spec_id is None:
            raise ValueError(f"There is no entry with specifier {specifier}.")

        return frames[spec_id], comments[spec_id]

    @staticmethod
    def write(frames, path, specifiers=None, comments=None, number_columns=True, float_precision=6):
        if specifiers is None:
            specifiers = ["data"] * len(frames)
        if comments is None:
            comments = (None,) * len(frames)

        if len(frames) != len(specifiers) or len(frames) != len(comments) or len(specifiers) != len(comments):
            raise ValueError(
                f"Invalid size of the lists found. "
                f"The sizes are (frames: {len(frames)}), "
                f"(specifiers: {len(specifiers)}), "
                f"and (comments: {len(comments)})."
            )

        for i, f in enumerate(frames):
            frames[i] = f.round(float_precision)

        with open(path, "w") as file:

            def write_with_number(name, number):
                file.write(f"_{name} #{number}\n")

            def write_without_number(name, _):
                file.write(f"_{name}\n")

            def format_value(value):
                return "{:<10}".format(str(value))

            for frame, specifier, comment in zip(frames, specifiers, comments):
                # DataFrame.applymap was renamed to DataFrame.map in pandas 2.1 and removed in pandas 3
                frame = frame.map(format_value) if hasattr(frame, "map") else frame.applymap(format_value)
                stopgap = "stopgap" in specifier
                write_function = write_without_number if not number_columns or stopgap else write_with_number
                if comment is not None:
                    for c in comment:
                        file.write(f"\n# {c}")
                    file.write("\n")
                file.write(f"\n{specifier}\n\n")
                file.write("loop_\n")
                for index, column in enumerate(frame.columns, 1):
                    write_function(column, index)
                if stopgap:
                    file.write("\n")

                for row in frame.itertuples(index=False):
                    file.write("\t".join(map(str, row)) + "\n")
                # formatted_row = "\t".join("{:<10}".format(str(value)) for value in row)
                # file.write(formatted_row + "\n")
                file.write("\n")
'''

orig = types.ModuleType("orig_starfileio")
exec(compile(ORIG_SOURCE, "orig_starfileio.py", "exec"), orig.__dict__)

TMP = tempfile.mkdtemp(prefix="c02demo_")
FAILS = []


def fail(msg):
    FAILS.append(msg)
    if len(FAILS) <= 20:
        print("FAIL:", msg)


def check(cond, msg):
    if not cond:
        fail(msg)


# --------------------------------------------------------------------------------------------------------------
# independent STAR tokenizer (line based, no code shared with cryocat)
# --------------------------------------------------------------------------------------------------------------
def independent_parse(text):
    """returns [(block_name, [labels], [[row tokens]])]"""
    blocks = []
    state = "name"
    name = labels = rows = None
    for raw in text.replace("\r\n", "\n").split("\n"):
        hash_at = raw.find("#")
        content = raw if hash_at < 0 else raw[:hash_at]
        toks = content.split()
        if not toks:
            if state == "rows" and rows:
                # a blank / comment line after at least one row closes the block
                blocks.append((name, labels, rows))
                state = "name"
            continue
        if state == "name":
            assert len(toks) == 1 and toks[0].startswith("data_"), raw
            name, labels, rows = toks[0], [], []
            state = "loop"
        elif state == "loop":
            assert toks == ["loop_"], raw
            state = "labels"
        elif state == "labels" and toks[0].startswith("_"):
            assert len(toks) == 1, raw
            labels.append(toks[0][1:])
        else:
            if toks[0].startswith("data_") and len(toks) == 1 and not rows:
                # empty block followed by another one is outside the quantifier
                raise AssertionError("empty block in the middle")
            state = "rows"
            assert len(toks) == len(labels), raw
            rows.append(toks)
    if state in ("labels", "rows"):
        blocks.append((name, labels, rows))
    return blocks


def num_equal(a, b):
    """equality up to the last bits: pandas' text-to-float conversion used by the reader of the unmodified tree is off by
    an ulp for tokens with more than 15 significant digits (bit-exact agreement is checked against the original reader)"""
    a, b = np.asarray(a, dtype=float), np.asarray(b, dtype=float)
    if a.shape != b.shape:
        return False
    return bool(np.all((a == b) | (np.abs(a - b) <= 1e-15 * np.abs(b))))


def is_number(tok):
    try:
        float(tok)
        return True
    except ValueError:
        return False


def expected_frame(labels, rows):
    """what a reader has to return for the tokens: numeric columns as numbers, everything else as text"""
    data = {}
    for j, lab in enumerate(labels):
        col = [r[j] for r in rows]
        if rows and all(is_number(t) for t in col):
            if all(_is_int(t) for t in col):
                data[lab] = [int(t) for t in col]
            else:
                data[lab] = [float(t) for t in col]
        else:
            data[lab] = col
    return data


def _is_int(tok):
    try:
        int(tok)
        return True
    except ValueError:
        return False


def compare_read(frames, specifiers, blocks, what):
    check(list(specifiers) == [b[0] for b in blocks], f"{what}: block names {specifiers} vs {[b[0] for b in blocks]}")
    check(len(frames) == len(blocks), f"{what}: number of blocks")
    for f, (name, labels, rows) in zip(frames, blocks):
        check(list(f.columns) == labels, f"{what}/{name}: labels {list(f.columns)} vs {labels}")
        check(len(f) == len(rows), f"{what}/{name}: rows {len(f)} vs {len(rows)}")
        exp = expected_frame(labels, rows)
        for lab in labels:
            got = f[lab].tolist()
            e = exp[lab]
            if rows and all(isinstance(v, (int, float)) for v in e):
                check(pd.api.types.is_numeric_dtype(f[lab]), f"{what}/{name}/{lab}: numeric column read as {f[lab].dtype}")
                check(num_equal(got, e), f"{what}/{name}/{lab}: values")
                if all(isinstance(v, int) for v in e):
                    check(pd.api.types.is_integer_dtype(f[lab]), f"{what}/{name}/{lab}: int column read as {f[lab].dtype}")
            else:
                check(got == e, f"{what}/{name}/{lab}: text values {got[:3]} vs {e[:3]}")


def frames_identical(fa, fb, what):
    check(len(fa) == len(fb), f"{what}: number of frames")
    for a, b in zip(fa, fb):
        try:
            pd.testing.assert_frame_equal(a, b, check_exact=True)
        except AssertionError as e:
            fail(f"{what}: frames differ from original implementation: {str(e)[:200]}")


def tokens_as_tuples(tokens):
    return [(t.token_type.name, t.value, t.location) for t in tokens]


# --------------------------------------------------------------------------------------------------------------
# generators inside the quantifier
# --------------------------------------------------------------------------------------------------------------
ALPHA = "abcdefghijklmnopqrstuvwxyzABCDEFGHIJKLMNOPQRSTUVWXYZ"
REST = ALPHA + "0123456789/._-:@+"
BLOCK_NAMES = ["data_", "data_particles", "data_optics", "data_stopgap_motivelist", "data_stopgap_wedgelist"]


def text_token(rng):
    while True:
        t = rng.choice(ALPHA) + "".join(rng.choice(REST) for _ in range(rng.randint(0, 14)))
        if not is_number(t) and t != "loop_" and not t.startswith("data_"):
            return t


def random_float(rng):
    k = rng.random()
    if k < 0.15:
        return float(rng.randint(-50, 50))
    if k < 0.25:
        return rng.choice([0.0, -0.0, 1e-9, -1e-9, 4e-7, -4e-7, 0.5e-6, 1.0000005, 2.5, 123456.7890125])
    if k < 0.35:
        return rng.uniform(-1, 1) * 10 ** rng.randint(5, 18)
    if k < 0.45:
        return rng.uniform(-1, 1) * 10 ** -rng.randint(3, 9)
    return rng.uniform(-360, 360)


def random_table(rng, n_rows):
    n_cols = rng.choice([1, 2, 3, 5, 8, 12, 30, rng.randint(1, 30)])
    names = []
    while len(names) < n_cols:
        nm = rng.choice(["rln", "", "sg", "motl_"]) + "".join(rng.choice(ALPHA) for _ in range(rng.randint(1, 10)))
        if nm not in names:
            names.append(nm)
    data = {}
    for nm in names:
        kind = rng.choice("ifft")
        if kind == "i":
            data[nm] = np.array([rng.randint(-10**6, 10**6) for _ in range(n_rows)], dtype=np.int64)
        elif kind == "f":
            data[nm] = np.array([random_float(rng) for _ in range(n_rows)], dtype=float)
        else:
            data[nm] = [text_token(rng) for _ in range(n_rows)]
    df = pd.DataFrame(data, columns=names)
    if n_rows == 0:
        df = df.iloc[:0]
    return df


def random_tables(rng):
    n = rng.randint(1, 4)
    frames, specs = [], []
    for i in range(n):
        n_rows = rng.choice([1, 2, 3, 7, 50, 200, rng.randint(1, 200)])
        if i == n - 1 and rng.random() < 0.15:
            n_rows = 0
        frames.append(random_table(rng, n_rows))
        specs.append(rng.choice(BLOCK_NAMES))
    return frames, specs


def expected_tokens(df):
    """row tokens a writer has to produce: numbers rounded to 6 decimals, text unchanged"""
    out = []
    cols = []
    for c in df.columns:
        s = df[c]
        if pd.api.types.is_integer_dtype(s):
            cols.append([str(int(v)) for v in s])
        elif pd.api.types.is_float_dtype(s):
            cols.append([float(v) for v in s])
        else:
            cols.append([str(v) for v in s])
    for i in range(len(df)):
        out.append([c[i] for c in cols])
    return out


def check_written_text(text, frames_in, specs, number_columns, what):
    blocks = independent_parse(text)
    check([b[0] for b in blocks] == list(specs), f"{what}: block names in file")
    for (name, labels, rows), df in zip(blocks, frames_in):
        check(labels == [str(c) for c in df.columns], f"{what}/{name}: labels in file")
        exp = expected_tokens(df)
        check(len(rows) == len(exp), f"{what}/{name}: number of rows in file")
        for r, e in zip(rows, exp):
            for tok, ev in zip(r, e):
                if isinstance(ev, float):
                    ok = (is_number(tok) and abs(float(tok) - ev) <= 0.5000001e-6 + 1e-15 * abs(ev)
                          and ("e" in tok or len(tok.partition(".")[2]) <= 6))
                else:
                    ok = tok == ev
                if not ok:
                    fail(f"{what}/{name}: token {tok!r} expected {ev!r}")
                    break
    # header style
    lines = text.split("\n")
    numbered = [ln for ln in lines if ln.startswith("_") and "#" in ln]
    plain = [ln for ln in lines if ln.startswith("_") and "#" not in ln]
    n_numbered = sum(len(df.columns) for df, s in zip(frames_in, specs) if number_columns and "stopgap" not in s)
    n_plain = sum(len(df.columns) for df, s in zip(frames_in, specs) if not (number_columns and "stopgap" not in s))
    check(len(numbered) == n_numbered and len(plain) == n_plain, f"{what}: header style (numbered {len(numbered)}/{n_numbered})")
    for (name, labels, rows), s in zip(blocks, specs):
        pass
    if number_columns:
        k = 0
        for df, s in zip(frames_in, specs):
            if "stopgap" in s:
                continue
            for idx, c in enumerate(df.columns, 1):
                check(numbered[k] == f"_{c} #{idx}", f"{what}: numbered label line {numbered[k]!r}")
                k += 1


def deep_copy_frames(frames):
    return [f.copy(deep=True) for f in frames]


def write_both(frames, specs, tag, **kw):
    """write the same tables with the tree's writer and the original writer; returns both texts and the lists handed in"""
    fa, fb = deep_copy_frames(frames), deep_copy_frames(frames)
    pa, pb = os.path.join(TMP, tag + "_cur.star"), os.path.join(TMP, tag + "_orig.star")
    ra = cur.Starfile.write(fa, pa, specifiers=list(specs), **kw)
    rb = orig.Starfile.write(fb, pb, specifiers=list(specs), **kw)
    check(ra is None and rb is None, f"{tag}: write return value")
    with open(pa, "rb") as f:
        ta = f.read()
    with open(pb, "rb") as f:
        tb = f.read()
    check(ta == tb, f"{tag}: file bytes differ from the original writer")
    # caller visible effect on the list handed in (rounded copies stored in the list) must be the same as well
    frames_identical(fa, fb, f"{tag}: list handed to write")
    return pa, pb, ta.decode(), fa, fb


def read_both(path, what, **kw):
    ra = cur.Starfile.read(path, **kw)
    rb = orig.Starfile.read(path, **kw)
    if "data_id" in kw and kw["data_id"] is not None:
        frames_identical([ra[0]], [rb[0]], what)
        check(ra[1] == rb[1] and ra[2] == rb[2], f"{what}: specifier/comments (data_id)")
        return ra
    frames_identical(ra[0], rb[0], what)
    check(ra[1] == rb[1], f"{what}: specifiers differ from original reader")
    check(ra[2] == rb[2], f"{what}: comments differ from original reader")
    return ra


# --------------------------------------------------------------------------------------------------------------
# part 1: write -> text -> read for random tables
# --------------------------------------------------------------------------------------------------------------
def part_roundtrip(n_cases, seed):
    rng = random.Random(seed)
    for case in range(n_cases):
        frames, specs = random_tables(rng)
        number_columns = rng.random() < 0.5
        tag = f"rt{case}"
        kw = {} if (number_columns and rng.random() < 0.5) else {"number_columns": number_columns}
        pa, pb, text, fa, fb = write_both(frames, specs, tag, **kw)
        check_written_text(text, frames, specs, number_columns, tag)
        got = read_both(pa, tag + " read")
        compare_read(got[0], got[1], independent_parse(text), tag + " read")
        # values equal after rounding to 6 decimals, text unchanged, order kept
        for df, g in zip(frames, got[0]):
            check(list(g.columns) == list(df.columns), f"{tag}: columns after read")
            check(len(g) == len(df), f"{tag}: rows after read")
            if len(df) == 0:
                continue
            for c in df.columns:
                if pd.api.types.is_numeric_dtype(df[c]):
                    check(num_equal(g[c], np.round(np.asarray(df[c], dtype=float), 6)),
                          f"{tag}/{c}: numeric values after read")
                else:
                    check(g[c].tolist() == df[c].tolist(), f"{tag}/{c}: text values after read")
        # Starfile object and single-block access
        obj = cur.Starfile(pa)
        frames_identical(obj.frames, got[0], tag + " Starfile(path)")
        check(obj.specifiers == got[1], tag + " Starfile(path).specifiers")
        k = rng.randrange(len(frames))
        one = read_both(pa, tag + " data_id", data_id=k)
        frames_identical([one[0]], [got[0][k]], tag + " data_id frame")
        check(one[1] == specs[k], tag + " data_id specifier")
        os.remove(pa), os.remove(pb)


# --------------------------------------------------------------------------------------------------------------
# part 2: repeated calls on the same objects, edits in place between the calls, calls in different orders
# --------------------------------------------------------------------------------------------------------------
def part_sequences(n_cases, seed):
    rng = random.Random(seed)
    for case in range(n_cases):
        frames, specs = random_tables(rng)
        frames = [f for f in frames if len(f) > 0] or [random_table(rng, 5)]
        specs = specs[: len(frames)]
        la, lb = deep_copy_frames(frames), deep_copy_frames(frames)
        pa, pb = os.path.join(TMP, f"seq{case}_cur.star"), os.path.join(TMP, f"seq{case}_orig.star")
        for call in range(4):
            number_columns = rng.random() < 0.5
            prec = rng.choice([6, 6, 6, 3])
            sa, sb = list(specs), list(specs)
            cur.Starfile.write(la, pa, specifiers=sa, number_columns=number_columns, float_precision=prec)
            orig.Starfile.write(lb, pb, specifiers=sb, number_columns=number_columns, float_precision=prec)
            check(sa == sb == list(specs), f"seq{case}.{call}: specifiers list changed")
            with open(pa, "rb") as f:
                ta = f.read()
            with open(pb, "rb") as f:
                tb = f.read()
            check(ta == tb, f"seq{case}.{call}: file bytes differ from the original writer on repeated call")
            frames_identical(la, lb, f"seq{case}.{call}: list handed to write")
            if prec == 6:
                check_written_text(ta.decode(), la, specs, number_columns, f"seq{case}.{call}")
            ga = read_both(pa, f"seq{case}.{call} read")
            compare_read(ga[0], ga[1], independent_parse(ta.decode()), f"seq{case}.{call} read")
            # edit the objects in place (same edit on both copies) before the next call
            k = rng.randrange(len(la))
            r = rng.randrange(len(la[k]))
            c = rng.randrange(la[k].shape[1])
            col = la[k].columns[c]
            if pd.api.types.is_integer_dtype(la[k][col]):
                v = rng.randint(-999, 999)
            elif pd.api.types.is_float_dtype(la[k][col]):
                v = random_float(rng)
            else:
                v = text_token(rng)
            la[k].iloc[r, c] = v
            lb[k].iloc[r, c] = v
            if rng.random() < 0.3 and len(la[k]) > 1:
                la[k] = la[k].iloc[::-1].reset_index(drop=True)
                lb[k] = lb[k].iloc[::-1].reset_index(drop=True)
            if rng.random() < 0.3:
                new = "x" + "".join(rng.choice(ALPHA) for _ in range(6))
                la[k] = la[k].rename(columns={col: new})
                lb[k] = lb[k].rename(columns={col: new})
        os.remove(pa), os.remove(pb)

    # the same label / token text in different roles and files read in different orders
    texts = {
        "A": "data_\n\nloop_\n_x #1\n_loop #2\n1 a_\n2 b_\n",
        "B": "data_x\n\nloop_\n_x\n_y\n\nx 1.5\ny 2.5\n\n",
        "C": "\n# c\ndata_optics\n\nloop_\n_a #1\n_b #2\n_c #3\n1\t2.0\tdata\n3\t4.0\tx_\n\n\ndata_particles\n\nloop_\n_a #1\n7\n8\n",
        "D": "data_stopgap_motivelist\n\nloop_\n_motl_idx\n_x\n\n1   1e-3\n2   -0.0\n",
    }
    paths = {}
    for k, t in texts.items():
        paths[k] = os.path.join(TMP, f"order_{k}.star")
        with open(paths[k], "w", newline="") as f:
            f.write(t)
    first = {}
    for k in "ABCDDCBAACBDBDAC":
        got = read_both(paths[k], f"order {k}")
        compare_read(got[0], got[1], independent_parse(texts[k]), f"order {k}")
        if k in first:
            frames_identical(got[0], first[k][0], f"order {k}: repeated read differs from first read")
            check(got[1] == first[k][1] and got[2] == first[k][2], f"order {k}: repeated read specifiers/comments")
        else:
            first[k] = got
        check(tokens_as_tuples(cur.Token.tokenize(texts[k])) == tokens_as_tuples(orig.Token.tokenize(texts[k])),
              f"order {k}: tokens")


# --------------------------------------------------------------------------------------------------------------
# part 3: hand-built STAR texts: comments, blank lines, tabs, runs of spaces, CRLF, final newline or not
# --------------------------------------------------------------------------------------------------------------
def random_comment(rng):
    return "#" + "".join(rng.choice(REST + "  #_") for _ in range(rng.randint(0, 20)))


def filler(rng, at_least=0):
    lines = []
    for _ in range(rng.randint(at_least, at_least + 3)):
        k = rng.random()
        if k < 0.5:
            lines.append("")
        elif k < 0.7:
            lines.append(rng.choice([" ", "\t", "   \t "]))
        else:
            lines.append(rng.choice(["", " ", "\t"]) + random_comment(rng))
    return lines


def sep(rng):
    return rng.choice([" ", "  ", "\t", " \t", "\t\t", "     ", " \t  "])


def trail(rng):
    return rng.choice(["", "", " ", "\t", "   ", " \t "])


def build_text(rng):
    n_blocks = rng.randint(1, 4)
    lines = []
    expected = []
    for b in range(n_blocks):
        name = rng.choice(BLOCK_NAMES)
        n_cols = rng.randint(1, 12)
        n_rows = rng.choice([1, 2, 5, 20]) if not (b == n_blocks - 1 and rng.random() < 0.15) else 0
        labels = []
        while len(labels) < n_cols:
            lab = "".join(rng.choice(ALPHA + "_") for _ in range(rng.randint(1, 12)))
            if lab not in labels:
                labels.append(lab)
        kinds = [rng.choice("ifte") for _ in range(n_cols)]
        rows = []
        for _ in range(n_rows):
            row = []
            for k in kinds:
                if k == "i":
                    row.append(str(rng.randint(-1000, 1000)))
                elif k == "f":
                    row.append(rng.choice(["%.6f", "%.3f", "%e", "%g", "%r"]) % rng.uniform(-500, 500))
                elif k == "e":
                    row.append(rng.choice(["1e5", "-2.5E-3", "+3", "007", "1.", ".5", text_token(rng)]))
                else:
                    row.append(text_token(rng))
            rows.append(row)
        lines += filler(rng, at_least=1 if b > 0 else 0)  # blank / comment lines before a block, between blocks
        lines.append(name + trail(rng) + (rng.choice(["", "", " " + random_comment(rng)])))
        lines += filler(rng)
        lines.append("loop_" + trail(rng))
        numbered = rng.random() < 0.5
        for i, lab in enumerate(labels, 1):
            lines.append("_" + lab + ((sep(rng) + f"#{i}") if numbered else rng.choice(["", "", " # note"])) + trail(rng))
        lines += filler(rng)  # after the column labels
        for row in rows:
            lines.append(rng.choice(["", "", " ", "\t"]) + "".join(t + sep(rng) for t in row[:-1]) + row[-1] + trail(rng))
        expected.append((name, labels, rows))
    lines += filler(rng)
    eol = rng.choice(["\n", "\r\n"])
    text = eol.join(lines)
    if rng.random() < 0.5 or not expected[-1][2]:
        # (a block without rows needs a line end after its last label on the unmodified tree)
        text += eol
    return text, expected


def part_handbuilt(n_cases, seed):
    rng = random.Random(seed)
    p = os.path.join(TMP, "hand.star")
    for case in range(n_cases):
        text, expected = build_text(rng)
        with open(p, "wb") as f:
            f.write(text.encode())
        blocks = independent_parse(text)
        check(blocks == expected, f"hand{case}: independent tokenizer disagrees with the construction")
        got = read_both(p, f"hand{case}")
        compare_read(got[0], got[1], expected, f"hand{case}")
        univ = text.replace("\r\n", "\n")
        check(tokens_as_tuples(cur.Token.tokenize(univ)) == tokens_as_tuples(orig.Token.tokenize(univ)), f"hand{case}: tokens")
        check(tokens_as_tuples(cur.Token.tokenize(text)) == tokens_as_tuples(orig.Token.tokenize(text)), f"hand{case}: tokens (raw)")
        # read -> write -> read keeps blocks, labels, rows
        if all(len(r) > 0 for _, _, r in expected[:-1]):
            fr = deep_copy_frames(got[0])
            pa, pb, t2, _, _ = write_both(fr, got[1], f"hand{case}_rw", number_columns=rng.random() < 0.5)
            again = read_both(pa, f"hand{case}_rw read")
            check(again[1] == got[1], f"hand{case}: names after rewrite")
            for a, g in zip(again[0], got[0]):
                check(list(a.columns) == list(g.columns) and len(a) == len(g), f"hand{case}: shape after rewrite")
            os.remove(pa), os.remove(pb)

    # malformed texts outside the quantifier must fail the same way
    bad = ["data_\nloop_\n_a\n1 2\n", "data_\n\nloop_ x\n_a\n1\n", "data_\n\nloop_\n_a #1\n_b #2\n1 2 # c\n", "loop_\n_a\n1\n"]
    for i, t in enumerate(bad):
        with open(p, "w") as f:
            f.write(t)
        res = []
        for m in (cur, orig):
            try:
                m.Starfile.read(p)
                res.append("ok")
            except Exception as e:
                res.append(type(e).__name__)
        check(res[0] == res[1], f"bad{i}: {res}")


# --------------------------------------------------------------------------------------------------------------
# part 4: the other public entry points that go through the same code (remove_lines, get_frame_and_comments, ...)
# --------------------------------------------------------------------------------------------------------------
def part_wrappers(n_cases, seed):
    rng = random.Random(seed)
    for case in range(n_cases):
        frames, specs = random_tables(rng)
        frames = [f for f in frames if len(f) > 1] or [random_table(rng, 6)]
        specs = [rng.choice(BLOCK_NAMES[:3]) + str(i) for i in range(len(frames))]
        src = os.path.join(TMP, f"wr{case}.star")
        orig.Starfile.write(deep_copy_frames(frames), src, specifiers=list(specs))
        k = rng.randrange(len(frames))
        n = len(frames[k])
        lines = sorted(rng.sample(range(n), rng.randint(1, max(1, n // 2))))
        oa, ob = os.path.join(TMP, f"wr{case}_cur.star"), os.path.join(TMP, f"wr{case}_orig.star")
        nc = rng.random() < 0.5
        cur.Starfile.remove_lines(src, lines, output_file=oa, data_specifier=specs[k], number_columns=nc)
        orig.Starfile.remove_lines(src, lines, output_file=ob, data_specifier=specs[k], number_columns=nc)
        with open(oa, "rb") as f:
            ta = f.read()
        with open(ob, "rb") as f:
            tb = f.read()
        check(ta == tb, f"wr{case}: remove_lines output differs")
        blocks = independent_parse(ta.decode())
        check(len(blocks[k][2]) == n - len(lines), f"wr{case}: rows left")
        ra = cur.Starfile.remove_lines(src, lines, data_specifier=specs[k])
        rb = orig.Starfile.remove_lines(src, lines, data_specifier=specs[k])
        frames_identical(ra[0], rb[0], f"wr{case}: remove_lines frames")
        check(ra[1] == rb[1] and ra[2] == rb[2], f"wr{case}: remove_lines specifiers")
        fa = cur.Starfile.get_frame_and_comments(src, specs[k])
        fb = orig.Starfile.get_frame_and_comments(src, specs[k])
        frames_identical([fa[0]], [fb[0]], f"wr{case}: get_frame_and_comments")
        check(fa[1] == fb[1], f"wr{case}: get_frame_and_comments comments")
        check(cur.Starfile.get_specifier_id(specs, specs[k]) == k, f"wr{case}: get_specifier_id")
        check(cur.Starfile.get_specifier_id(specs, "data_none") is None, f"wr{case}: get_specifier_id miss")
        # default specifiers and length check
        da, db = os.path.join(TMP, "d_cur.star"), os.path.join(TMP, "d_orig.star")
        cur.Starfile.write(deep_copy_frames(frames), da)
        orig.Starfile.write(deep_copy_frames(frames), db)
        check(open(da).read() == open(db).read(), f"wr{case}: default specifiers")
        for m in (cur, orig):
            try:
                m.Starfile.write(deep_copy_frames(frames), da, specifiers=list(specs) + ["data_x"])
                fail(f"wr{case}: length mismatch accepted")
            except ValueError:
                pass
        for p in (src, oa, ob, da, db):
            os.remove(p)

    # comments handed to the writer come back from the reader
    for case in range(n_cases):
        frames, specs = random_tables(rng)
        frames = [f for f in frames if len(f) > 0] or [random_table(rng, 3)]
        specs = specs[: len(frames)]
        comments = [rng.choice([None, ["created by demo"], ["c1", "version 30001"]]) for _ in frames]
        pa, pb, text, _, _ = write_both(frames, specs, f"cm{case}", comments=list(comments), number_columns=rng.random() < 0.5)
        got = read_both(pa, f"cm{case} read")
        compare_read(got[0], got[1], independent_parse(text), f"cm{case} read")
        check(got[2] == [c if c is not None else [] for c in comments], f"cm{case}: comments {got[2]}")
        os.remove(pa), os.remove(pb)

    # public wrappers of the package that go through the reader / writer, run once with the tree's module and once
    # with the original module plugged in
    import warnings

    with warnings.catch_warnings():
        warnings.simplefilter("ignore")
        from cryocat import cryomotl, ioutils
    nrng = np.random.default_rng(seed)
    for case in range(max(2, n_cases // 4)):
        n = int(nrng.integers(1, 40))
        cols = list(cryomotl.Motl.create_empty_motl_df().columns)
        df = pd.DataFrame(nrng.uniform(-50, 50, size=(n, len(cols))), columns=cols)
        for c in ["tomo_id", "object_id", "geom1", "geom2", "geom3", "geom4", "geom5", "class"]:
            df[c] = np.round(df[c]).astype(int)
        df["subtomo_id"] = np.arange(1, n + 1)
        outs = {}
        for label, module in (("cur", cur), ("orig", orig)):
            saved = cryomotl.starfileio, ioutils.sf
            cryomotl.starfileio, ioutils.sf = module, module
            try:
                with warnings.catch_warnings():
                    warnings.simplefilter("ignore")
                    p1 = os.path.join(TMP, f"sg_{label}.star")
                    cryomotl.StopgapMotl(df.copy()).write_out(p1)
                    back = cryomotl.StopgapMotl(p1).df
                    p2 = os.path.join(TMP, f"rl_{label}.star")
                    cryomotl.RelionMotl(df.copy()).write_out(p2)
                    outs[label] = (open(p1, "rb").read(), open(p2, "rb").read(), back)
            finally:
                cryomotl.starfileio, ioutils.sf = saved
        check(outs["cur"][0] == outs["orig"][0], f"motl{case}: StopgapMotl.write_out file differs")
        check(outs["cur"][1] == outs["orig"][1], f"motl{case}: RelionMotl.write_out file differs")
        frames_identical([outs["cur"][2]], [outs["orig"][2]], f"motl{case}: StopgapMotl read back")
        blocks = independent_parse(outs["cur"][0].decode())
        check(len(blocks) == 1 and blocks[0][0] == "data_stopgap_motivelist" and len(blocks[0][2]) == n, f"motl{case}: stopgap file")
        check([r[0] for r in blocks[0][2]] == [str(i) for i in range(1, n + 1)], f"motl{case}: motl_idx column")

    # gctf style file edited through ioutils.defocus_remove_file_entries
    for case in range(max(2, n_cases // 4)):
        g = random_table(rng, rng.randint(3, 30))
        src = os.path.join(TMP, "gctf_src.star")
        orig.Starfile.write([g.copy()], src, specifiers=["data_"])
        n = len(g)
        rm = sorted(rng.sample(range(1, n + 1), rng.randint(1, n - 1)))
        res = {}
        for label, module in (("cur", cur), ("orig", orig)):
            saved = ioutils.sf
            ioutils.sf = module
            try:
                out = os.path.join(TMP, f"gctf_{label}.star")
                ioutils.defocus_remove_file_entries(src, list(rm), file_type="gctf", numbered_from_1=True, output_file=out)
                res[label] = open(out, "rb").read()
            finally:
                ioutils.sf = saved
        check(res["cur"] == res["orig"], f"gctf{case}: defocus_remove_file_entries output differs")
        blocks = independent_parse(res["cur"].decode())
        check(len(blocks[0][2]) == n - len(rm) and blocks[0][1] == list(g.columns), f"gctf{case}: rows/labels left")


# --------------------------------------------------------------------------------------------------------------
# part 5 (change b): the pieces of read/write that were moved out of the functions behave like the inline code
# --------------------------------------------------------------------------------------------------------------
def part_specific():
    rng = random.Random(6)
    # header written for every combination of block name / numbering / comments, one column up to thirty
    for case in range(60):
        n_cols = rng.choice([1, 2, 9, 10, 11, 30])
        df = pd.DataFrame({f"c{j}": [j, j + 1] for j in range(n_cols)})
        spec = rng.choice(BLOCK_NAMES + ["data_my_stopgap", "data_STOPGAP_x"])
        nc = rng.choice([True, False])
        com = rng.choice([None, [], ["one"], ["one", "two # three"]])
        pa, pb, text, _, _ = write_both([df, df], [spec, "data_other"], f"hdr{case}", comments=[com, None], number_columns=nc)
        lines = text.split("\n")
        at = lines.index(spec)
        check(lines[at + 1] == "" and lines[at + 2] == "loop_", f"hdr{case}: lines after the block name")
        labs = lines[at + 3 : at + 3 + n_cols]
        if nc and "stopgap" not in spec:
            check(labs == [f"_c{j} #{j + 1}" for j in range(n_cols)], f"hdr{case}: numbered labels")
            check(lines[at + 3 + n_cols].startswith("0"), f"hdr{case}: rows follow the labels directly")
        else:
            check(labs == [f"_c{j}" for j in range(n_cols)], f"hdr{case}: plain labels")
            check((lines[at + 3 + n_cols] == "") == ("stopgap" in spec), f"hdr{case}: blank line after stopgap labels only")
        os.remove(pa), os.remove(pb)
    # the numeric conversion: a column is converted as a whole or not at all
    cols = {
        "ints": (["1", "-2", "+3", "007"], "i"), "floats": (["1.5", "2", "1e3", "-.5"], "f"), "text": (["a", "b1", "c", "d"], "t"),
        "mixed": (["1", "x", "2.5", "3"], "t"), "names": (["t_1.mrc", "t_2.mrc", "3", "4"], "t"), "exp": (["1E5", "2e-3", "0", "5"], "f"),
    }
    keys = list(cols)
    for case in range(30):
        rng.shuffle(keys)
        use = keys[: rng.randint(1, len(keys))]
        text = "data_\n\nloop_\n" + "".join(f"_{k} #{i}\n" for i, k in enumerate(use, 1))
        for r in range(4):
            text += "  ".join(cols[k][0][r] for k in use) + "\n"
        p = os.path.join(TMP, "conv.star")
        with open(p, "w") as f:
            f.write(text)
        got = read_both(p, f"conv{case}")
        for k in use:
            s = got[0][0][k]
            if cols[k][1] == "i":
                check(pd.api.types.is_integer_dtype(s) and s.tolist() == [int(t) for t in cols[k][0]], f"conv{case}/{k}")
            elif cols[k][1] == "f":
                check(pd.api.types.is_float_dtype(s) and s.tolist() == [float(t) for t in cols[k][0]], f"conv{case}/{k}")
            else:
                check(not pd.api.types.is_numeric_dtype(s) and s.tolist() == cols[k][0], f"conv{case}/{k}")


def main():
    quick = "--quick" in sys.argv
    try:
        part_roundtrip(40 if quick else 160, 20240601)
        part_sequences(10 if quick else 40, 77)
        part_handbuilt(60 if quick else 400, 4242)
        part_wrappers(6 if quick else 25, 99)
        part_specific()
    finally:
        shutil.rmtree(TMP, ignore_errors=True)
    if FAILS:
        print(f"FAIL ({len(FAILS)} mismatches)")
        sys.exit(1)
    print("PASS")


if __name__ == "__main__":
    main()
