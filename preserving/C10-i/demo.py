import sys, os

sys.path.insert(0, os.getcwd())
import copy
import decimal
import tempfile
import warnings

warnings.filterwarnings("ignore")
import numpy as np
import pandas as pd
from scipy.spatial.transform import Rotation as R

from cryocat import cryomotl
from cryocat.cryomotl import Motl, EmMotl

COLS = list(Motl.motl_columns)
OTHER = ["score", "geom1", "tomo_id", "object_id", "subtomo_mean", "geom3", "geom4", "class"]
FAILS = []


def fail(msg):
    FAILS.append(msg)
    if len(FAILS) <= 20:
        print("FAIL:", msg)


# ----------------------------------------------------------------------------------------------------------
# independent statement of the property
# ----------------------------------------------------------------------------------------------------------
def rz(deg):
    a = np.deg2rad(deg)
    return np.array([[np.cos(a), -np.sin(a), 0.0], [np.sin(a), np.cos(a), 0.0], [0.0, 0.0, 1.0]])


def rx(deg):
    a = np.deg2rad(deg)
    return np.array([[1.0, 0.0, 0.0], [0.0, np.cos(a), -np.sin(a)], [0.0, np.sin(a), np.cos(a)]])


def zxz(phi, theta, psi):
    # extrinsic zxz(phi, theta, psi): rotate about z by phi first, then x by theta, then z by psi
    return rz(psi) @ rx(theta) @ rz(phi)


def check_property(tag, in_df, n, sym, s, out, atol=1e-6):
    """in_df: table of the input Motl as it was before the call; out: returned Motl"""
    s = np.asarray(s, dtype=float)
    N = len(in_df)
    o = out.df
    if type(out) is not Motl:
        fail(f"{tag}: result is {type(out)}")
    if len(o) != N * n:
        fail(f"{tag}: {len(o)} rows, expected {N * n}")
        return
    if list(o.index) != list(range(N * n)):
        fail(f"{tag}: index is not 0..N*n-1")
    if sorted(o.columns) != sorted(COLS):
        fail(f"{tag}: columns changed")
    if not all(o.dtypes == np.float64):
        fail(f"{tag}: dtypes changed {set(o.dtypes)}")
    ids = o["subtomo_id"].to_numpy()
    if len(np.unique(ids)) != N * n:
        fail(f"{tag}: subtomo_id not unique")
    parents = in_df.set_index("subtomo_id", drop=False)
    # n per parent, subunit indices 1..n
    cnt = o.groupby("geom5")["geom2"].apply(lambda g: sorted(g.tolist()))
    if sorted(cnt.index.tolist()) != sorted(in_df["subtomo_id"].tolist()):
        fail(f"{tag}: geom5 does not enumerate the parents")
    for pid, g in cnt.items():
        if g != list(range(1, n + 1)):
            fail(f"{tag}: parent {pid} has subunit indices {g}")
            break
    for i in range(len(o)):
        row = o.iloc[i]
        p = parents.loc[row["geom5"]]
        k = int(row["geom2"]) - 1
        Rp = zxz(p["phi"], p["theta"], p["psi"])
        Rk = Rp @ rz(360.0 * k / n)
        Ro = zxz(row["phi"], row["theta"], row["psi"])
        if not np.allclose(Ro, Rk, atol=atol):
            fail(f"{tag}: row {i} orientation is not R*Rz(360*{k}/{n})")
            break
        centre = np.array([p["x"] + p["shift_x"], p["y"] + p["shift_y"], p["z"] + p["shift_z"]])
        pos = np.array([row["x"] + row["shift_x"], row["y"] + row["shift_y"], row["z"] + row["shift_z"]])
        scale = max(1.0, np.abs(centre).max(), np.abs(s).max())
        if not np.allclose(pos, centre + Rk @ s, atol=atol * scale, rtol=0):
            fail(f"{tag}: row {i} position {pos} != centre + R_k s {centre + Rk @ s}")
            break
        # maps back to the parent's centre
        if not np.allclose(pos - Ro @ s, centre, atol=10 * atol * scale, rtol=0):
            fail(f"{tag}: row {i} does not map back to the centre")
            break
        xyz = row[["x", "y", "z"]].to_numpy(dtype=float)
        if not np.all(xyz == np.round(xyz)):
            fail(f"{tag}: row {i} x,y,z not integer {xyz}")
            break
        sh = row[["shift_x", "shift_y", "shift_z"]].to_numpy(dtype=float)
        if not np.all(np.abs(sh) <= 0.5):
            fail(f"{tag}: row {i} |shift| > 0.5 {sh}")
            break
        # half-up: the integer part is the rounding of the complete position with ties away from zero
        for a in range(3):
            d = decimal.Decimal(float(pos[a]))
            if (abs(sh[a]) < 0.5 - 1e-9 or abs(sh[a]) == 0.5) and float(d.to_integral_value(rounding=decimal.ROUND_HALF_UP)) != xyz[a]:
                fail(f"{tag}: row {i} integer part {xyz[a]} is not round-half-up of {pos[a]}")
        for c in OTHER:
            if not (row[c] == p[c] or (np.isnan(row[c]) and np.isnan(p[c]))):
                fail(f"{tag}: row {i} field {c} differs from the parent's")
                break


# ----------------------------------------------------------------------------------------------------------
# inputs
# ----------------------------------------------------------------------------------------------------------
def random_table(rng, N, kind="plain"):
    df = pd.DataFrame(0.0, index=range(N), columns=COLS)
    df["score"] = rng.random(N)
    df["geom1"] = rng.integers(-5, 5, N).astype(float)
    df["geom2"] = rng.integers(0, 5, N).astype(float)
    df["subtomo_id"] = (rng.permutation(N) + 1 + int(rng.integers(0, 50))).astype(float)
    df["tomo_id"] = rng.integers(1, 5, N).astype(float)
    df["object_id"] = rng.integers(1, 9, N).astype(float)
    df["subtomo_mean"] = rng.normal(size=N)
    df[["x", "y", "z"]] = rng.integers(-300, 900, (N, 3)).astype(float)
    df[["shift_x", "shift_y", "shift_z"]] = rng.uniform(-3, 3, (N, 3))
    df["geom3"] = rng.normal(size=N)
    df["geom4"] = rng.normal(size=N)
    df["geom5"] = rng.integers(0, 5, N).astype(float)
    df["phi"] = rng.uniform(-180, 180, N)
    df["theta"] = rng.uniform(0, 180, N)
    df["psi"] = rng.uniform(-180, 180, N)
    df["class"] = rng.integers(1, 4, N).astype(float)
    if kind == "poles":
        df["theta"] = rng.choice([0.0, 180.0, 1e-9, 180 - 1e-9, 90.0], N)
        df["phi"] = rng.choice([0.0, 90.0, -180.0, 180.0, 45.0, 359.0], N)
    elif kind == "halves":
        # complete positions that are exact ties after the (zero) offset
        df[["shift_x", "shift_y", "shift_z"]] = rng.choice([0.5, -0.5, 1.5, -1.5, 2.5, -2.5, 0.0], (N, 3))
    elif kind == "nan_holes":
        df.loc[rng.random(N) < 0.4, "geom3"] = np.nan
        df.loc[rng.random(N) < 0.4, "score"] = np.nan
    elif kind == "zero_shift":
        df[["shift_x", "shift_y", "shift_z"]] = 0.0
    elif kind == "fractional_xyz":
        df[["x", "y", "z"]] = rng.uniform(-100, 100, (N, 3))
    return df


OFFSETS = [
    [0.0, 0.0, 0.0],
    [0.0, 0.0, 7.5],  # on the axis
    [0.0, 0.0, -3.0],  # on the axis
    [10.0, 0.0, 0.0],
    [0.0, -4.25, 2.0],
    [-3.3, 8.1, -5.7],
    [1e-12, 0.0, 1.0],
]


def make_motl(route, df, rng, tmpdir):
    """Build the input list through the different constructors / factories."""
    if route == "Motl":
        return Motl(df.copy())
    if route == "Motl_index":
        d = df.copy()
        d.index = rng.permutation(len(d)) * 3 + 11  # non-default row labels
        return Motl(d)
    if route == "EmMotl":
        d = df.copy()
        d.index = rng.permutation(len(d)) + 5
        return EmMotl(d)  # check_df_type: copy, reset index, fillna
    if route == "load_df":
        return Motl.load(df.copy())
    if route == "load_motl":
        return Motl.load(Motl(df.copy()))
    if route == "emfile":
        path = os.path.join(tmpdir, f"m_{rng.integers(1 << 30)}.em")
        EmMotl(df.copy()).write_out(path)
        return Motl.load(path)  # single precision on disk
    if route == "fill":
        m = Motl()
        m.fill({"subtomo_id": df["subtomo_id"].to_numpy()})
        m.fill(
            {
                "coord": df[["x", "y", "z"]].to_numpy(),
                "angles": df[["phi", "theta", "psi"]].to_numpy(),
                "shifts": df[["shift_x", "shift_y", "shift_z"]].to_numpy(),
            }
        )
        for c in OTHER + ["geom2", "geom5"]:
            m.fill({c: df[c].to_numpy()})
        return m
    raise ValueError(route)


ROUTES = ["Motl", "Motl_index", "EmMotl", "load_df", "load_motl", "emfile", "fill"]
KINDS = ["plain", "poles", "halves", "nan_holes", "zero_shift", "fractional_xyz"]


def sym_of(n, j):
    return [n, f"C{n}", f"c{n}"][j % 3]


def run_property(seed=0, thorough_n=range(1, 65)):
    rng = np.random.default_rng(seed)
    count = 0
    with tempfile.TemporaryDirectory() as tmpdir:
        # every n in 1..64, a small list each, rotating constructors / kinds / offsets
        for n in thorough_n:
            for j in range(3):
                N = int(rng.choice([1, 2, 3, 5]))
                kind = KINDS[(n + j) % len(KINDS)]
                route = ROUTES[(n * 3 + j) % len(ROUTES)]
                s = OFFSETS[(n + 2 * j) % len(OFFSETS)]
                if kind == "halves":
                    s = [0.0, 0.0, 0.0] if j % 2 else [0.0, 0.0, 1.0]
                df = random_table(rng, N, kind)
                m = make_motl(route, df, rng, tmpdir)
                before = m.df.copy(deep=True)
                sym = sym_of(n, j)
                out = m.split_in_asymmetric_subunits(sym, s if j % 2 else np.array(s))
                tol = 2e-3 if route == "emfile" else 1e-6
                check_property(f"n={n} {sym!r} N={N} {kind} {route} s={s}", before, n, sym, s, out, atol=tol)
                # the input list is not changed
                try:
                    pd.testing.assert_frame_equal(m.df, before, check_exact=True)
                except AssertionError:
                    fail(f"n={n} {route}: input list modified")
                # repeated call on the same object gives the same answer
                if j == 0:
                    out2 = m.split_in_asymmetric_subunits(sym, s)
                    try:
                        pd.testing.assert_frame_equal(out.df, out2.df, check_exact=True)
                    except AssertionError:
                        fail(f"n={n} {route}: repeated call differs")
                count += 1
        # larger lists (up to 100 particles), a selection of n including non-divisors of 360
        for n, N in [(7, 100), (11, 37), (13, 64), (16, 50), (1, 100), (64, 10), (3, 99), (14, 21)]:
            for kind in ("plain", "poles"):
                df = random_table(rng, N, kind)
                route = ROUTES[(n + N) % len(ROUTES)]
                if route == "emfile":
                    route = "EmMotl"
                m = make_motl(route, df, rng, tmpdir)
                before = m.df.copy(deep=True)
                s = OFFSETS[(n + N) % len(OFFSETS)]
                out = m.split_in_asymmetric_subunits(f"C{n}", s)
                check_property(f"big n={n} N={N} {kind} {route}", before, n, f"C{n}", s, out)
                count += 1
        # chained: split the result again (outputs are valid inputs: unique ids, default index)
        df = random_table(rng, 4, "plain")
        m1 = Motl(df).split_in_asymmetric_subunits(5, [2.0, 1.0, -1.0])
        before = m1.df.copy(deep=True)
        m2 = m1.split_in_asymmetric_subunits("c9", [0.0, 3.0, 0.5])
        check_property("chained 5 then 9", before, 9, "c9", [0.0, 3.0, 0.5], m2)
        count += 1
    return count


# ----------------------------------------------------------------------------------------------------------
# change b: Motl.__init__ / check_df_correct_format -- texts of the originals, compared with those in the tree
# ----------------------------------------------------------------------------------------------------------
def orig_check_df_correct_format(input_df):
    if sorted(Motl.motl_columns) == sorted(input_df.columns):
        return True
    else:
        return False


def orig_init(self, motl_df=None):
    if motl_df is not None:
        if orig_check_df_correct_format(motl_df):
            self.df = motl_df
        else:
            raise ValueError("Provided pandas.DataFrame does not have correct format.")
    else:
        self.df = Motl.create_empty_motl_df()


class OrigMotl(Motl):
    __init__ = orig_init


def outcome(f, *args):
    try:
        return ("ok", f(*args))
    except Exception as e:  # noqa
        return ("raise", type(e).__name__)


def compare_constructor(seed=2):
    rng = np.random.default_rng(seed)
    cases = 0
    frames = []
    for N in (0, 1, 2, 17):
        good = random_table(rng, N, "plain") if N else Motl.create_empty_motl_df()
        frames.append(("good", good))
        frames.append(("permuted", good[list(rng.permutation(COLS))]))
        frames.append(("missing", good.drop(columns=["geom4"])))
        frames.append(("extra", good.assign(extra=1.0)))
        frames.append(("renamed", good.rename(columns={"class": "klass"})))
        dup = good.drop(columns=["geom4"]).copy()
        dup = pd.concat([dup, dup[["geom3"]]], axis=1)  # 20 columns, one twice
        frames.append(("duplicate", dup))
        ints = good.copy()
        ints.columns = range(20)
        frames.append(("int labels", ints))
        frames.append(("no columns", pd.DataFrame(index=range(N))))
        frames.append(("int dtypes", good.astype({"subtomo_id": int, "tomo_id": int}) if N else good))
        idx = good.copy()
        idx.index = rng.permutation(N) + 100
        frames.append(("other index", idx))
    for tag, f in frames:
        r_old = outcome(orig_check_df_correct_format, f)
        r_new = outcome(Motl.check_df_correct_format, f)
        if r_old != r_new:
            fail(f"check_df_correct_format {tag}: {r_old} != {r_new}")
        c_old = outcome(OrigMotl, f)
        c_new = outcome(Motl, f)
        if c_old[0] != c_new[0] or (c_old[0] == "raise" and c_old != c_new):
            fail(f"Motl({tag}): {c_old} != {c_new}")
        elif c_old[0] == "ok":
            # the very same table object is held, untouched
            if c_new[1].df is not f or c_old[1].df is not f:
                fail(f"Motl({tag}): table object not held as given")
            if type(c_new[1]) is not Motl:
                fail(f"Motl({tag}): wrong type")
        cases += 1
    # empty constructor
    a, b = OrigMotl(), Motl()
    try:
        pd.testing.assert_frame_equal(a.df, b.df, check_exact=True)
    except AssertionError:
        fail("Motl(): empty tables differ")
    # subclasses go through check_df_type as before
    for tag, f in frames:
        if tag in ("good", "permuted", "other index", "int dtypes"):
            e = EmMotl(f)
            exp = f.copy().reset_index(drop=True).fillna(0.0)
            try:
                pd.testing.assert_frame_equal(e.df, exp, check_exact=True)
            except AssertionError:
                fail(f"EmMotl({tag}) table differs")
            if e.df is f:
                fail("EmMotl must hold a copy")
            cases += 1
    # whole pipeline with the original constructor swapped in
    new_init, new_check = Motl.__init__, Motl.check_df_correct_format
    for trial in range(40):
        n = int(rng.integers(1, 65))
        df = random_table(rng, int(rng.integers(1, 12)), KINDS[trial % len(KINDS)])
        s = OFFSETS[trial % len(OFFSETS)]
        r_new = Motl(df.copy()).split_in_asymmetric_subunits(f"c{n}", s)
        Motl.__init__ = orig_init
        Motl.check_df_correct_format = staticmethod(orig_check_df_correct_format)
        try:
            r_old = Motl(df.copy()).split_in_asymmetric_subunits(f"c{n}", s)
        finally:
            Motl.__init__ = new_init
            Motl.check_df_correct_format = staticmethod(new_check)
        try:
            pd.testing.assert_frame_equal(r_old.df, r_new.df, check_exact=True)
        except AssertionError:
            fail(f"split with original constructor differs, n={n}")
        if type(r_new) is not Motl:
            fail("split result type")
        cases += 1
    return cases


if __name__ == "__main__":
    c1 = run_property()
    c2 = compare_constructor()
    if FAILS:
        print(f"{len(FAILS)} failures")
        sys.exit(1)
    print(f"PASS ({c1} property cases, {c2} helper comparisons)")
