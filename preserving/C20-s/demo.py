"""Demo for property C20 (membrane thickness pairs: one-to-one, forward, within range and cone).

Run as:  cd /tmp/wt11/C20 && /venv/bin/python /tmp/seedsU/C20/<a|b|c>/demo.py

The demo
  1. checks the property against an independent brute-force computation (no KD-tree, vectorised numpy) on many random and
     edge-case inputs inside the quantifier,
  2. checks the numba candidate kernel (find_matches_parallel) against the same brute-force candidate set,
  3. compares the functions of the tree (possibly patched) with the ORIGINAL function texts kept below, bit for bit
     (values, dtypes, shapes), including repeated calls on the same objects and checks that inputs are not mutated.
Prints PASS and exits 0 when everything holds.
"""
import os
import sys

sys.path.insert(0, os.getcwd())

import logging
import warnings

import numpy as np

from cryocat import memthick

assert os.path.abspath(memthick.__file__).startswith(os.getcwd()), memthick.__file__

QUIET = logging.getLogger("c20demo")
QUIET.setLevel(logging.ERROR)
QUIET.propagate = False
QUIET.addHandler(logging.NullHandler())

# ----------------------------------------------------------------------------------------------------------------------
# ORIGINAL function texts (unmodified tree, HEAD 86ccbaf) -- executed in a copy of the module namespace
# ----------------------------------------------------------------------------------------------------------------------
ORIG_SRC = r'''
@numba.njit(parallel=True)
def find_matches_parallel(
    points,
    normals,
    source_mask,
    target_mask,
    target_indices,
    max_thickness_voxels,
    max_angle_cos,
    match_distances,
    match_indices,
    match_counts,
):
    n_points = len(points)
    max_matches = match_distances.shape[1]

    # For each source point, find valid matches
    for i in prange(n_points):
        if not source_mask[i]:
            continue

        point = points[i]
        normal = normals[i]
        match_count = 0

        # Check each potential target
        for j in range(len(target_indices)):
            target_idx = target_indices[j]

            # Vector from source to target
            dx = points[target_idx, 0] - point[0]
            dy = points[target_idx, 1] - point[1]
            dz = points[target_idx, 2] - point[2]

            # Euclidean distance
            dist = np.sqrt(dx * dx + dy * dy + dz * dz)

            # Check if within max thickness
            if dist < max_thickness_voxels:
                # Project vector onto normal
                proj = dx * normal[0] + dy * normal[1] + dz * normal[2]

                # Only consider points in the direction of the normal
                if proj > 0:
                    # Calculate lateral distance (perpendicular to normal)
                    lateral_dx = dx - proj * normal[0]
                    lateral_dy = dy - proj * normal[1]
                    lateral_dz = dz - proj * normal[2]
                    lateral_dist_sq = lateral_dx**2 + lateral_dy**2 + lateral_dz**2

                    # Check if within cone angle
                    if proj > max_angle_cos * dist:
                        if match_count < max_matches:
                            match_distances[i, match_count] = dist
                            match_indices[i, match_count] = target_idx
                            match_count += 1

        match_counts[i] = match_count


def measure_thickness_cpu(
    points,
    normals,
    surface1_mask,
    surface2_mask,
    voxel_size,
    max_thickness_nm=8.0,
    max_angle_degrees=5.0,
    direction="1to2",
    num_threads=None,
    logger=None,
    max_matches_per_point=25,
):
    """CPU-based thickness measurement with parallelization."""
    log_msg = lambda msg: logger.info(msg) if logger else print(msg)

    # Set number of threads if specified
    if num_threads is not None:
        numba.set_num_threads(num_threads)
        log_msg(f"Using {num_threads} CPU threads")
    else:
        log_msg(f"Using all available CPU threads (numba default)")

    # Switch source and target surfaces if direction is 2to1
    if direction == "2to1":
        log_msg("Measuring thickness from surface 2 to surface 1...")
        source_mask, target_mask = surface2_mask, surface1_mask
    else:
        log_msg("Measuring thickness from surface 1 to surface 2...")
        source_mask, target_mask = surface1_mask, surface2_mask

    n_points = len(points)
    max_angle_cos = np.cos(np.radians(max_angle_degrees))

    # Convert max thickness from nm to voxels
    max_thickness_voxels = max_thickness_nm / voxel_size

    log_msg(f"Starting CPU thickness measurement with {n_points} points...")
    log_msg(f"Source points: {np.sum(source_mask)}, Target points: {np.sum(target_mask)}")
    log_msg(f"Max thickness: {max_thickness_nm} nm ({max_thickness_voxels:.2f} voxels)")
    log_msg(f"Max angle: {max_angle_degrees} degrees")

    # Get indices of target points
    target_indices = np.where(target_mask)[0]
    log_msg(f"Number of target points: {len(target_indices)}")

    # Get target points
    target_points = points[target_indices]

    # Get source points and indices
    source_indices = np.where(source_mask)[0]
    source_points = points[source_indices]

    log_msg(f"Number of source points: {len(source_points)}")

    # Use SciPy's KDTree for CPU implementation
    log_msg("Using SciPy KDTree implementation with query_ball_point")

    # Build KD-tree
    log_msg("Building KD-tree for target points...")
    target_tree = ScipyKDTree(target_points)

    # Pre-filter matches using ball query
    log_msg("Pre-filtering potential matches using KD-tree query_ball_point...")
    start_time = time.time()

    # Query ball point for each source point
    log_msg(f"Querying KD-tree for {len(source_points)} source points...")
    neighbor_lists = target_tree.query_ball_point(source_points, max_thickness_voxels)

    # Process the results
    flat_matches = []
    for i, neighbors in enumerate(neighbor_lists):
        source_idx = source_indices[i]
        source_normal = normals[source_idx]
        source_point = points[source_idx]

        valid_matches = 0

        for n in neighbors:
            # Get original index
            target_idx = target_indices[n]
            target_point = points[target_idx]

            # Vector from source to target
            dx = target_point[0] - source_point[0]
            dy = target_point[1] - source_point[1]
            dz = target_point[2] - source_point[2]

            # Distance
            dist = np.sqrt(dx * dx + dy * dy + dz * dz)

            # Project vector onto normal
            proj = dx * source_normal[0] + dy * source_normal[1] + dz * source_normal[2]

            # Only consider points in the direction of the normal
            if proj > 0:
                # Calculate lateral distance
                lateral_dx = dx - proj * source_normal[0]
                lateral_dy = dy - proj * source_normal[1]
                lateral_dz = dz - proj * source_normal[2]
                lateral_dist_sq = lateral_dx**2 + lateral_dy**2 + lateral_dz**2

                # Check if within cone angle
                if proj > max_angle_cos * dist:
                    flat_matches.append((dist, source_idx, target_idx))
                    valid_matches += 1

                    # Limit matches per point
                    if valid_matches >= max_matches_per_point:
                        break

    log_msg(f"KD-tree pre-filtering completed in {time.time() - start_time:.2f} seconds")
    log_msg(f"Found {len(flat_matches)} potential matches across all source points")

    # Process matches to ensure one-to-one matching
    log_msg("Processing matches to ensure one-to-one matching...")
    thickness_results, valid_mask, point_pairs = process_matches_cpu2cpu(flat_matches, n_points, voxel_size)

    log_msg(f"Found {np.sum(valid_mask)} valid thickness measurements")
    if np.sum(valid_mask) > 0:
        log_msg(f"Mean thickness: {np.mean(thickness_results[valid_mask]):.2f} nm")
        log_msg(
            f"Min: {np.min(thickness_results[valid_mask]):.2f} nm, Max: {np.max(thickness_results[valid_mask]):.2f} nm"
        )

    return thickness_results, valid_mask, point_pairs


def process_matches_cpu2cpu(flat_matches, n_points, voxel_size):
    # Create arrays for final results (still in voxel units)
    thickness_results = np.zeros(n_points, dtype=np.float32)
    valid_mask = np.zeros(n_points, dtype=np.bool_)
    point_pairs = np.zeros(n_points, dtype=np.int32)

    # Sort matches by distance
    flat_matches.sort()

    # Track assigned points
    source_assigned = set()
    target_assigned = set()

    # Assign matches
    for dist, source_idx, target_idx in flat_matches:
        if source_idx not in source_assigned and target_idx not in target_assigned:
            # Assign match (still in voxel units)
            thickness_results[source_idx] = dist
            valid_mask[source_idx] = True
            point_pairs[source_idx] = target_idx

            source_assigned.add(source_idx)
            target_assigned.add(target_idx)

    # Convert thickness results to physical units before returning
    thickness_results = thickness_results * voxel_size

    return thickness_results, valid_mask, point_pairs
'''

ORIG = dict(vars(memthick))
exec(compile(ORIG_SRC, "<original memthick functions>", "exec"), ORIG)
assert ORIG["measure_thickness_cpu"] is not memthick.measure_thickness_cpu

failures = []
stats = {"cases": 0, "pairs": 0, "exact_ref": 0, "rigid": 0, "kernel": 0, "oldnew": 0}


def fail(msg):
    failures.append(msg)
    if len(failures) <= 20:
        print("FAIL:", msg)


# ----------------------------------------------------------------------------------------------------------------------
# input generator
# ----------------------------------------------------------------------------------------------------------------------
def random_rotation(rng):
    q = rng.normal(size=4)
    q /= np.linalg.norm(q)
    w, x, y, z = q
    return np.array(
        [
            [1 - 2 * (y * y + z * z), 2 * (x * y - z * w), 2 * (x * z + y * w)],
            [2 * (x * y + z * w), 1 - 2 * (x * x + z * z), 2 * (y * z - x * w)],
            [2 * (x * z - y * w), 2 * (y * z + x * w), 1 - 2 * (x * x + y * y)],
        ]
    )


def perturb_normals(nrm, sigma_deg, rng):
    """Tilt each unit normal by a random angle ~ |N(0, sigma)| around a random axis; result stays unit length."""
    out = np.empty_like(nrm)
    for k, n in enumerate(nrm):
        a = rng.normal(size=3)
        a -= a.dot(n) * n
        la = np.linalg.norm(a)
        if la < 1e-12:
            out[k] = n
            continue
        a /= la
        ang = np.radians(abs(rng.normal(0.0, sigma_deg)))
        v = np.cos(ang) * n + np.sin(ang) * a
        out[k] = v / np.linalg.norm(v)
    return out


def make_case(rng, n_total=None, kind=None):
    n_total = int(rng.integers(20, 601)) if n_total is None else n_total
    kind = rng.choice(["flat", "curved", "tilted", "wavy"]) if kind is None else kind
    n_a = int(rng.integers(max(1, n_total // 3), max(2, 2 * n_total // 3)))
    n_b = n_total - n_a
    side = float(rng.uniform(2.0, 3.5)) * np.sqrt(max(n_a, n_b))  # mean spacing 2..3.5 voxels
    gap = float(rng.uniform(2.5, 6.0))  # distance of the sheets in voxels

    def sheet(n, z0, sign):
        xy = rng.uniform(0, side, size=(n, 2))
        x, y = xy[:, 0], xy[:, 1]
        if kind == "flat":
            z = np.full(n, z0)
            gx = np.zeros(n)
            gy = np.zeros(n)
        elif kind == "tilted":
            sx, sy = 0.3, -0.2
            z = z0 + sx * x + sy * y
            gx = np.full(n, sx)
            gy = np.full(n, sy)
        elif kind == "curved":
            c = 1.0 / (4.0 * side)
            z = z0 + c * ((x - side / 2) ** 2 + (y - side / 2) ** 2)
            gx = 2 * c * (x - side / 2)
            gy = 2 * c * (y - side / 2)
        else:
            k = 2 * np.pi / side
            z = z0 + 1.5 * np.sin(k * x) * np.cos(k * y)
            gx = 1.5 * k * np.cos(k * x) * np.cos(k * y)
            gy = -1.5 * k * np.sin(k * x) * np.sin(k * y)
        nrm = np.stack([-gx, -gy, np.ones(n)], axis=1)
        nrm /= np.linalg.norm(nrm, axis=1, keepdims=True)
        pts = np.stack([x, y, z], axis=1) + rng.normal(0, 0.15, size=(n, 3))  # jitter
        return pts, sign * nrm

    pa, na = sheet(n_a, 0.0, +1.0)  # lower sheet, normals point up to the other sheet
    pb, nb = sheet(n_b, gap, -1.0)  # upper sheet, normals point down
    points = np.concatenate([pa, pb])
    normals = np.concatenate([na, nb])
    normals = perturb_normals(normals, float(rng.uniform(0.0, 8.0)), rng)
    # a few normals point the wrong way (targets lie behind)
    flip = rng.random(n_total) < 0.05
    normals[flip] *= -1.0

    # arbitrary surface labelling
    lab = rng.choice(["a_is_1", "b_is_1", "random", "with_unlabelled"])
    is_a = np.arange(n_total) < n_a
    if lab == "a_is_1":
        s1, s2 = is_a.copy(), ~is_a
    elif lab == "b_is_1":
        s1, s2 = ~is_a, is_a.copy()
    elif lab == "random":
        s1 = rng.random(n_total) < 0.5
        s2 = ~s1
    else:
        s1 = is_a & (rng.random(n_total) < 0.8)
        s2 = (~is_a) & (rng.random(n_total) < 0.8)
    # shuffle the order of the points so that the surfaces are interleaved in the table
    perm = rng.permutation(n_total)
    points, normals, s1, s2 = points[perm], normals[perm], s1[perm], s2[perm]
    # into a random pose
    R = random_rotation(rng)
    t = rng.uniform(-50, 50, size=3)
    points = points @ R.T + t
    normals = normals @ R.T
    return np.ascontiguousarray(points), np.ascontiguousarray(normals), s1, s2, gap


# ----------------------------------------------------------------------------------------------------------------------
# independent brute-force reference
# ----------------------------------------------------------------------------------------------------------------------
def brute_candidates(points, normals, src_mask, tgt_mask, max_vox, max_angle_deg):
    """All source/target pairs with distance, forward projection and angle to the source normal (float64)."""
    P = np.asarray(points, dtype=np.float64)
    N = np.asarray(normals, dtype=np.float64)
    S = np.flatnonzero(src_mask)
    T = np.flatnonzero(tgt_mask)
    if len(S) == 0 or len(T) == 0:
        z = np.zeros((len(S), len(T)))
        return S, T, z, z, z
    d = P[T][None, :, :] - P[S][:, None, :]
    dist = np.sqrt(d[..., 0] * d[..., 0] + d[..., 1] * d[..., 1] + d[..., 2] * d[..., 2])
    Ns = N[S]
    proj = d[..., 0] * Ns[:, None, 0] + d[..., 1] * Ns[:, None, 1] + d[..., 2] * Ns[:, None, 2]
    with np.errstate(invalid="ignore", divide="ignore"):
        cosang = np.where(dist > 0, proj / np.where(dist > 0, dist, 1.0), 0.0)
    nlen = np.linalg.norm(Ns, axis=1)[:, None]
    ang = np.degrees(np.arccos(np.clip(cosang / nlen, -1.0, 1.0)))
    return S, T, dist, proj, ang


def greedy_reference(S, T, dist, proj, max_vox, cos_max, n_points):
    adm = (dist <= max_vox) & (proj > 0) & (proj > cos_max * dist)
    si, ti = np.nonzero(adm)
    dd = dist[si, ti]
    gs, gt = S[si], T[ti]
    order = np.lexsort((gt, gs, dd))
    used_s = np.zeros(n_points, bool)
    used_t = np.zeros(n_points, bool)
    pair = np.zeros(n_points, np.int64)
    val = np.zeros(n_points, bool)
    dv = np.zeros(n_points)
    for k in order:
        s, t = gs[k], gt[k]
        if not used_s[s] and not used_t[t]:
            used_s[s] = used_t[t] = True
            pair[s] = t
            val[s] = True
            dv[s] = dd[k]
    return dv, val, pair, adm


def check_property(tag, points, normals, s1, s2, voxel, max_nm, max_angle, direction, result, ftol):
    """Property conditions with small tolerances; returns (marginal, reference tuple)."""
    thick, valid, pairs = result
    n = len(points)
    src, tgt = (s2, s1) if direction == "2to1" else (s1, s2)
    src = np.asarray(src, bool)
    tgt = np.asarray(tgt, bool)
    max_vox = float(max_nm) / float(voxel)
    cos_max = np.cos(np.radians(max_angle))
    S, T, dist, proj, ang = brute_candidates(points, normals, src, tgt, max_vox, max_angle)

    if thick.shape != (n,) or valid.shape != (n,) or pairs.shape != (n,):
        fail(f"{tag}: output shapes {thick.shape} {valid.shape} {pairs.shape}")
        return True, None
    if valid.dtype != np.bool_:
        fail(f"{tag}: valid_mask dtype {valid.dtype}")
    # only source points are matched; unmatched entries are zero
    if np.any(valid & ~src):
        fail(f"{tag}: a non-source point has a measurement")
    if np.any(thick[~valid] != 0) or np.any(pairs[~valid] != 0):
        fail(f"{tag}: unmatched entries are not zero")
    vs = np.flatnonzero(valid)
    vt = pairs[vs].astype(np.int64)
    stats["pairs"] += len(vs)
    if np.any((vt < 0) | (vt >= n)) or np.any(~tgt[vt]):
        fail(f"{tag}: a pair's target is not a target-surface point")
        return True, None
    if len(np.unique(vt)) != len(vt):
        fail(f"{tag}: a target is used twice")
    pos_s = {s: k for k, s in enumerate(S)}
    pos_t = {t: k for k, t in enumerate(T)}
    rs = np.array([pos_s[s] for s in vs], dtype=int)
    rt = np.array([pos_t[t] for t in vt], dtype=int)
    if len(vs):
        d_pair = dist[rs, rt]
        # thickness = distance * voxel size (float32 storage), <= max thickness
        want = d_pair * float(voxel)
        if not np.allclose(thick[vs], want, rtol=ftol, atol=0):
            fail(f"{tag}: thickness is not distance*voxel (max rel err {np.max(np.abs(thick[vs]-want)/want):.3g})")
        if np.any(d_pair > max_vox * (1 + ftol)):
            fail(f"{tag}: pair longer than max thickness")
        if np.any(thick[vs] > float(max_nm) * (1 + ftol)):
            fail(f"{tag}: thickness exceeds max_thickness")
        # forward and within the cone
        if np.any(proj[rs, rt] <= 0):
            fail(f"{tag}: target not ahead of the source")
        atol_deg = 1e-6 if ftol < 1e-5 else 0.05
        if np.any(ang[rs, rt] >= max_angle + atol_deg):
            fail(f"{tag}: pair outside the cone: {np.max(ang[rs, rt]):.4f} deg >= {max_angle}")
    # greedy completeness: every clearly admissible pair (s,t) that was not chosen is blocked by a match of s or of t
    # that is not longer than d(s,t)
    eps = 1e-9 if ftol < 1e-5 else 1e-4
    clear = (dist < max_vox * (1 - eps)) & (proj > 0) & (ang < max_angle - (1e-6 if ftol < 1e-5 else 0.05))
    if clear.size:
        ds_match = np.full(len(S), np.inf)
        ds_match[rs] = dist[rs, rt] if len(vs) else []
        dt_match = np.full(len(T), np.inf)
        dt_match[rt] = dist[rs, rt] if len(vs) else []
        chosen = np.zeros_like(clear)
        chosen[rs, rt] = True
        tol = eps * max(1.0, max_vox)
        blocked = (ds_match[:, None] <= dist + tol) | (dt_match[None, :] <= dist + tol)
        bad = clear & ~chosen & ~blocked
        if np.any(bad):
            i, j = np.argwhere(bad)[0]
            fail(
                f"{tag}: admissible pair ({S[i]},{T[j]}) d={dist[i,j]:.4f} left over / closer than the matches "
                f"(source match {ds_match[i]:.4f}, target match {dt_match[j]:.4f})"
            )
        n_cand = clear.sum(axis=1)
        if n_cand.max(initial=0) >= 25:
            return True, "toomany"
    # marginal = some candidate sits numerically on a threshold or two candidate distances nearly tie
    adm_loose = (dist <= max_vox * (1 + 1e-7)) & (ang < max_angle + 1e-4) & (proj > -1e-9)
    adm_strict = (dist <= max_vox * (1 - 1e-7)) & (ang < max_angle - 1e-4) & (proj > 1e-9)
    marginal = bool(np.any(adm_loose != adm_strict))
    dd = np.diff(np.sort(dist[adm_loose]))
    if np.any((dd > 0) & (dd < 1e-9)):
        marginal = True  # nearly tied distances: the order may depend on rounding
    ties = bool(np.any(dd == 0))  # exactly tied distances: fine for the reference, not for a rigid motion
    ref = greedy_reference(S, T, dist, proj, max_vox, cos_max, n)
    return marginal, ref + (ties,)


def same_result(tag, r_new, r_old):
    ok = True
    for name, a, b in zip(("thickness_results", "valid_mask", "point_pairs"), r_new, r_old):
        if type(a) is not type(b) or a.dtype != b.dtype or a.shape != b.shape or not np.array_equal(a, b):
            fail(f"{tag}: patched and original {name} differ (dtype {a.dtype} vs {b.dtype})")
            ok = False
    stats["oldnew"] += 1
    return ok


def run_kernel(fn, points, normals, src, tgt, max_vox, cos_max, width=25):
    n = len(points)
    md = np.full((n, width), -1.0)
    mi = np.full((n, width), -1, dtype=np.int64)
    mc = np.full(n, -7, dtype=np.int64)
    fn(np.ascontiguousarray(points), np.ascontiguousarray(normals), src, tgt, np.flatnonzero(tgt), max_vox, cos_max, md, mi, mc)
    return md, mi, mc


def one_case(tag, points, normals, s1, s2, voxel, max_nm, max_angle, direction, rigid_rng=None, ftol=2e-7):
    """Runs patched + original, checks property, reference, invariances, kernel."""
    stats["cases"] += 1
    keep = [np.array(x, copy=True) for x in (points, normals, s1, s2)]
    kw = dict(max_thickness_nm=max_nm, max_angle_degrees=max_angle, direction=direction, logger=QUIET)
    new = memthick.measure_thickness_cpu(points, normals, s1, s2, voxel, **kw)
    old = ORIG["measure_thickness_cpu"](points, normals, s1, s2, voxel, **kw)
    same_result(tag, new, old)
    # repeated call on the same objects gives the same answer, inputs untouched
    again = memthick.measure_thickness_cpu(points, normals, s1, s2, voxel, **kw)
    same_result(tag + " (2nd call)", again, new)
    for nm, a, b in zip(("points", "normals", "surface1_mask", "surface2_mask"), (points, normals, s1, s2), keep):
        if a.dtype != b.dtype or not np.array_equal(a, b):
            fail(f"{tag}: input {nm} was modified")

    marginal, ref = check_property(tag, points, normals, s1, s2, voxel, max_nm, max_angle, direction, new, ftol)
    if ref is None or isinstance(ref, str):
        return ref
    exact = (not marginal) and points.dtype != np.float32 and normals.dtype != np.float32
    if exact:
        dv, val, pair, adm, ties = ref
        stats["exact_ref"] += 1
        if not np.array_equal(val, new[1]) or not np.array_equal(pair, new[2].astype(np.int64)):
            fail(f"{tag}: pairing differs from the brute-force greedy reference")
        elif not np.allclose(new[0], dv * float(voxel), rtol=2e-7, atol=0):
            fail(f"{tag}: thickness differs from the brute-force greedy reference")

    # direction '2to1' swaps the roles of the surfaces
    other = "1to2" if direction == "2to1" else "2to1"
    kw2 = dict(kw, direction=other)
    swapped = memthick.measure_thickness_cpu(points, normals, s2, s1, voxel, **kw2)
    same_result(tag + " (direction swap)", swapped, new)

    # scaling with the voxel size (factor 2 is exact in floating point)
    scaled = memthick.measure_thickness_cpu(points, normals, s1, s2, voxel * 2, **dict(kw, max_thickness_nm=max_nm * 2))
    if not np.array_equal(scaled[1], new[1]) or not np.array_equal(scaled[2], new[2]):
        fail(f"{tag}: pairing changes with the voxel size")
    if not np.array_equal(scaled[0], new[0] * 2):
        fail(f"{tag}: thickness does not scale with the voxel size")

    # rigid motion of points and normals
    if rigid_rng is not None and exact and not ref[4]:
        R = random_rotation(rigid_rng)
        t = rigid_rng.uniform(-30, 30, size=3)
        p2 = np.ascontiguousarray(points @ R.T + t)
        n2 = np.ascontiguousarray(normals @ R.T)
        moved = memthick.measure_thickness_cpu(p2, n2, s1, s2, voxel, **kw)
        stats["rigid"] += 1
        if not np.array_equal(moved[1], new[1]) or not np.array_equal(moved[2], new[2]):
            fail(f"{tag}: pairing changes under a rigid motion")
        elif not np.allclose(moved[0], new[0], rtol=1e-5, atol=0):
            fail(f"{tag}: thickness changes under a rigid motion")

    # numba candidate kernel: same candidates as brute force, same result after the one-to-one assignment
    if exact and points.dtype == np.float64:
        src, tgt = (s2, s1) if direction == "2to1" else (s1, s2)
        src = np.asarray(src, bool)
        tgt = np.asarray(tgt, bool)
        max_vox = max_nm / voxel
        cos_max = np.cos(np.radians(max_angle))
        md, mi, mc = run_kernel(memthick.find_matches_parallel, points, normals, src, tgt, max_vox, cos_max)
        md0, mi0, mc0 = run_kernel(ORIG["find_matches_parallel"], points, normals, src, tgt, max_vox, cos_max)
        stats["kernel"] += 1
        if not (np.array_equal(md, md0) and np.array_equal(mi, mi0) and np.array_equal(mc, mc0)):
            fail(f"{tag}: patched and original numba kernel outputs differ")
        dv, val, pair, adm, ties = ref
        S = np.flatnonzero(src)
        T = np.flatnonzero(tgt)
        flat = []
        for row, s in enumerate(S):
            want = set(T[np.flatnonzero(adm[row])].tolist()) if adm.size else set()
            got = mi[s, : mc[s]].tolist()
            if set(got) != want or len(got) != len(want):
                fail(f"{tag}: numba kernel candidates of source {s} differ from brute force")
            for k in range(mc[s]):
                flat.append((md[s, k], s, mi[s, k]))
        if np.any(mc[~src] != -7):
            fail(f"{tag}: numba kernel wrote a count for a non-source point")
        rk = memthick.process_matches_cpu2cpu(list(flat), len(points), voxel)
        rk0 = ORIG["process_matches_cpu2cpu"](list(flat), len(points), voxel)
        same_result(tag + " (kernel -> process_matches)", rk, rk0)
        same_result(tag + " (kernel vs KD-tree path)", rk, new)
    return None


# ----------------------------------------------------------------------------------------------------------------------
# random cases
# ----------------------------------------------------------------------------------------------------------------------
def random_suite(seed, n_cases):
    rng = np.random.default_rng(seed)
    done = 0
    attempts = 0
    while done < n_cases and attempts < 4 * n_cases:
        attempts += 1
        points, normals, s1, s2, gap = make_case(rng)
        vchoice = rng.integers(0, 4)
        v = float(rng.uniform(0.3, 2.5))
        voxel = [v, np.float64(v), np.float32(v), float(np.float32(v))][vchoice]
        max_nm = float(rng.uniform(0.8, 1.6)) * gap * float(voxel)
        max_nm = min(max_nm, 7.0 * float(voxel))
        max_angle = [float(rng.uniform(1, 30)), int(rng.integers(1, 31)), 1.0, 30.0][rng.integers(0, 4)]
        direction = ["1to2", "2to1"][rng.integers(0, 2)]
        tag = f"seed{seed}/{attempts} n={len(points)} v={voxel!r} max={max_nm:.3f} ang={max_angle} {direction}"
        r = one_case(tag, points, normals, s1, s2, voxel, max_nm, max_angle, direction, rigid_rng=rng)
        if r == "toomany":
            stats["cases"] -= 1
            continue
        done += 1
    if done < n_cases:
        fail(f"generator produced too few cases inside the quantifier ({done}/{n_cases})")


def element_type_cases(seed):
    """integer and float32 coordinates, non-contiguous views, int 0/1 masks."""
    rng = np.random.default_rng(seed)
    for k in range(12):
        points, normals, s1, s2, gap = make_case(rng, n_total=int(rng.integers(20, 200)))
        voxel = float(rng.uniform(0.5, 2.0))
        max_nm = 1.4 * gap * voxel
        ang = float(rng.uniform(5, 30))
        d = ["1to2", "2to1"][k % 2]
        # integer voxel coordinates (many exact distance ties)
        pi = np.rint(points).astype(np.int64)
        one_case(f"int64 points #{k}", pi, normals, s1, s2, voxel, max_nm, ang, d)
        one_case(f"int32 points #{k}", pi.astype(np.int32), normals, s1, s2, voxel, max_nm, ang, d)
        # float32 coordinates and normals
        one_case(
            f"float32 points #{k}", points.astype(np.float32), normals.astype(np.float32), s1, s2, voxel, max_nm, ang, d, ftol=2e-5
        )
        # Fortran-ordered / strided views
        big = np.zeros((len(points), 6))
        big[:, ::2] = points
        one_case(f"strided points #{k}", big[:, ::2], np.asfortranarray(normals), s1, s2, voxel, max_nm, ang, d)
        # 0/1 integer masks (np.where treats them like booleans)
        one_case(f"uint8 masks #{k}", points, normals, s1.astype(np.uint8), s2.astype(np.uint8), voxel, max_nm, ang, d)


def edge_cases():
    z = np.array([0.0, 0.0, 1.0])
    # regular grid: two flat parallel sheets, every source has its target straight ahead, many exact ties
    for m in (5, 6):
        gx, gy = np.meshgrid(np.arange(m) * 3.0, np.arange(m) * 3.0, indexing="ij")
        lower = np.stack([gx.ravel(), gy.ravel(), np.zeros(m * m)], axis=1)
        upper = lower + [0, 0, 4.0]
        points = np.concatenate([lower, upper])
        normals = np.concatenate([np.tile(z, (m * m, 1)), np.tile(-z, (m * m, 1))])
        s1 = np.arange(2 * m * m) < m * m
        for d in ("1to2", "2to1"):
            for ang in (1, 5.0, 30):
                for max_nm in (4.0, 4.5, 8.0):  # 4.0 = exact threshold (distance == max thickness)
                    for voxel in (1.0, 0.5, np.float32(1.0)):
                        one_case(f"grid m={m} {d} ang={ang} max={max_nm} v={voxel!r}", points, normals, s1, ~s1, voxel,
                                 max_nm * float(voxel), ang, d)
                        r = memthick.measure_thickness_cpu(points, normals, s1, ~s1, voxel, max_thickness_nm=max_nm * float(voxel),
                                                           max_angle_degrees=ang, direction=d, logger=QUIET)
                        if max_nm > 4.0:
                            src = s1 if d == "1to2" else ~s1
                            if not np.array_equal(r[1], src):
                                fail(f"grid m={m} {d}: not every source matched straight ahead")
                            off = m * m if d == "1to2" else -m * m
                            if not np.array_equal(r[2][src], np.flatnonzero(src) + off):
                                fail(f"grid m={m} {d}: wrong partner on the regular grid")
                            if not np.allclose(r[0][src], 4.0 * float(voxel)):
                                fail(f"grid m={m} {d}: wrong thickness on the regular grid")

    # hand-made: targets straight ahead, behind, at 90 degrees, just inside / outside the cone, competing sources
    for ang in (1.0, 5.0, 10.0, 29.0, 30.0):
        t_in = np.radians(ang * 0.98)
        t_out = np.radians(ang * 1.02)
        pts = [
            [0, 0, 0],  # 0 source A
            [100, 0, 0],  # 1 source B
            [200, 0, 0],  # 2 source C (only a target behind and one at 90 degrees)
            [300, 0, 0],  # 3 source D and 4 source E compete for target 11 (exactly equal distances)
            [300.5, 0, 0],
            [5 * np.sin(t_in), 0, 5 * np.cos(t_in)],  # 5 just inside the cone of A
            [100 + 5 * np.sin(t_out), 0, 5 * np.cos(t_out)],  # 6 just outside the cone of B
            [100, 0, 6.0],  # 7 straight ahead of B but farther
            [200, 0, -3.0],  # 8 behind C
            [203, 0, 0.0],  # 9 at 90 degrees to C
            [0, 0, 3.0],  # 10 straight ahead of A, closer than 5
            [300.25, 0, 4.0],  # 11 ahead of D and E
            [400, 0, 0],  # 12 source F
            [400, 0, 0],  # 13 target coincident with F (distance 0)
        ]
        points = np.array(pts, dtype=float)
        normals = np.tile(z, (len(pts), 1))
        s1 = np.zeros(len(pts), bool)
        s1[[0, 1, 2, 3, 4, 12]] = True
        # pad with far-away points to reach the 20 points of the quantifier
        pad = np.stack([np.arange(8) * 50.0, np.full(8, 500.0), np.zeros(8)], axis=1)
        points = np.concatenate([points, pad])
        normals = np.concatenate([normals, np.tile(z, (8, 1))])
        s1 = np.concatenate([s1, np.arange(8) % 2 == 0])
        s2 = ~s1
        for voxel in (1.0, 0.7, np.float32(1.35)):
            one_case(f"hand-made ang={ang} v={voxel!r}", points, normals, s1, s2, voxel, 7.0 * float(voxel), ang, "1to2")
            r = memthick.measure_thickness_cpu(points, normals, s1, s2, voxel, max_thickness_nm=7.0 * float(voxel),
                                               max_angle_degrees=ang, direction="1to2", logger=QUIET)
            exp_valid = np.zeros(len(points), bool)
            exp_pairs = np.zeros(len(points), int)
            exp_valid[0], exp_pairs[0] = True, 10  # closest admissible of A
            exp_valid[1], exp_pairs[1] = True, 7  # 6 is outside the cone
            # D and E: both see target 11 at the same distance sqrt(0.0625+16); lateral offset 0.25 -> angle 3.58 degrees
            if ang > 3.6:
                exp_valid[3], exp_pairs[3] = True, 11  # tie broken towards the lower source index
            if not np.array_equal(r[1], exp_valid) or not np.array_equal(r[2], exp_pairs):
                fail(f"hand-made ang={ang} v={voxel!r}: valid {np.flatnonzero(r[1])}, pairs {r[2][r[1]]}")

    # empty source set, empty target set, single source / single target, no admissible pair at all
    rng = np.random.default_rng(5)
    points, normals, s1, s2, gap = make_case(rng, n_total=40, kind="flat")
    none = np.zeros(40, bool)
    one_s = none.copy()
    one_s[np.flatnonzero(s1)[0]] = True
    one_t = none.copy()
    one_t[np.flatnonzero(s2)[-1]] = True
    for d in ("1to2", "2to1"):
        for a, b, nm in ((s1, none, "no surface 2"), (none, s2, "no surface 1"), (none, none, "no surfaces"),
                         (one_s, s2, "single source"), (s1, one_t, "single target"), (one_s, one_t, "single/single"),
                         (s1, s1, "same mask twice")):
            one_case(f"{nm} {d}", points, normals, a, b, 1.0, 1.5 * gap, 20.0, d)
        one_case(f"tiny max thickness {d}", points, normals, s1, s2, 1.0, 1e-3, 20.0, d)
        one_case(f"first/last rows {d}", points, normals, np.arange(40) == 0, np.arange(40) == 39, 1.0, 1e3, 30.0, d)

    # process_matches_cpu2cpu directly: empty list, single match, ties, unsorted input, list is sorted in place (as before)
    for voxel in (1.0, 2.5, np.float32(0.8), np.float64(0.8)):
        for flat in (
            [],
            [(np.float64(2.0), np.int64(3), np.int64(5))],
            [(2.0, 1, 5), (2.0, 0, 5), (1.5, 1, 6), (3.0, 2, 6), (3.5, 2, 7), (0.5, 4, 7)],
            [(np.float64(4.0), np.int64(7), np.int64(0)), (np.float64(4.0), np.int64(6), np.int64(0)), (np.float64(1.0), np.int64(7), np.int64(1))],
        ):
            a, b = list(flat), list(flat)
            rn = memthick.process_matches_cpu2cpu(a, 8, voxel)
            ro = ORIG["process_matches_cpu2cpu"](b, 8, voxel)
            same_result(f"process_matches {flat} v={voxel!r}", rn, ro)
            if a != b:
                fail("process_matches_cpu2cpu leaves the match list in a different state than the original")
            rn2 = memthick.process_matches_cpu2cpu(a, 8, voxel)
            same_result(f"process_matches 2nd call v={voxel!r}", rn2, rn)


# num_threads option and the default (print) logger must still work
def option_cases():
    import io
    import contextlib
    import numba

    rng = np.random.default_rng(11)
    points, normals, s1, s2, gap = make_case(rng, n_total=60)
    before = numba.get_num_threads()
    buf_new, buf_old = io.StringIO(), io.StringIO()
    with contextlib.redirect_stdout(buf_new):
        rn = memthick.measure_thickness_cpu(points, normals, s1, s2, 1.0, 1.5 * gap, 25.0, "1to2", 2, None, 25)
    with contextlib.redirect_stdout(buf_old):
        ro = ORIG["measure_thickness_cpu"](points, normals, s1, s2, 1.0, 1.5 * gap, 25.0, "1to2", 2, None, 25)
    same_result("positional arguments, num_threads=2, print logger", rn, ro)
    strip = lambda s: [l for l in s.splitlines() if "completed in" not in l]
    if strip(buf_new.getvalue()) != strip(buf_old.getvalue()):
        fail("printed progress messages differ from the original")
    numba.set_num_threads(before)
    # defaults: max_thickness_nm=8.0, max_angle_degrees=5.0, direction='1to2'
    with contextlib.redirect_stdout(io.StringIO()):
        rn = memthick.measure_thickness_cpu(points, normals, s1, s2, 1.7)
        ro = ORIG["measure_thickness_cpu"](points, normals, s1, s2, 1.7)
    same_result("default options", rn, ro)
    check_property("default options", points, normals, s1, s2, 1.7, 8.0, 5.0, "1to2", rn, 2e-7)


EXTRA_CHECKS = []  # filled by the per-change demos


def debug_logging_cases():
    """Change c: with DEBUG switched on for the module logger the results still equal the original ones, and the numbers
    in the debug records (if the tree emits any) agree with the returned arrays."""
    records = []

    class Grab(logging.Handler):
        def emit(self, record):
            records.append(record)

    lg = logging.getLogger(memthick.__name__)
    old_level, old_prop = lg.level, lg.propagate
    h = Grab(level=logging.DEBUG)
    lg.addHandler(h)
    lg.setLevel(logging.DEBUG)
    lg.propagate = False
    try:
        rng = np.random.default_rng(123)
        for k in range(25):
            points, normals, s1, s2, gap = make_case(rng, n_total=int(rng.integers(20, 300)))
            voxel = [0.9, np.float32(0.9), np.float64(1.7)][k % 3]
            kw = dict(max_thickness_nm=1.4 * gap * float(voxel), max_angle_degrees=float(rng.uniform(1, 30)),
                      direction=["1to2", "2to1"][k % 2], logger=QUIET)
            del records[:]
            new = memthick.measure_thickness_cpu(points, normals, s1, s2, voxel, **kw)
            mine = list(records)
            old = ORIG["measure_thickness_cpu"](points, normals, s1, s2, voxel, **kw)
            same_result(f"DEBUG logging on #{k}", new, old)
            check_property(f"DEBUG logging on #{k}", points, normals, s1, s2, voxel, kw["max_thickness_nm"],
                           kw["max_angle_degrees"], kw["direction"], new, 2e-7)
            for r in mine:
                r.getMessage()  # formatting must not fail
                if r.msg.startswith("one-to-one assignment"):
                    n_cand, n_pairs, n_src, n_tgt = r.args
                    if n_pairs != int(new[1].sum()) or n_cand != n_pairs + n_src + n_tgt:
                        fail(f"debug record inconsistent with the result: {r.getMessage()} vs {int(new[1].sum())} pairs")
                if r.msg.startswith("candidate search"):
                    src = s2 if kw["direction"] == "2to1" else s1
                    if r.args[0] != int(np.sum(src)) or r.args[2] != 0:
                        fail(f"debug record inconsistent with the input: {r.getMessage()}")
        print(f"debug records seen in the last run: {len(mine)}")
    finally:
        lg.removeHandler(h)
        lg.setLevel(old_level)
        lg.propagate = old_prop


EXTRA_CHECKS.append(debug_logging_cases)


def main():
    with warnings.catch_warnings():
        warnings.simplefilter("error")  # a new warning would be a behaviour change too
        warnings.filterwarnings("ignore", category=DeprecationWarning)
        edge_cases()
        option_cases()
        element_type_cases(3)
        for seed, n in ((1, 60), (2, 60), (20, 40)):
            random_suite(seed, n)
        for f in EXTRA_CHECKS:
            f()
    print("stats:", stats)
    if stats["pairs"] < 5000 or stats["exact_ref"] < 150 or stats["rigid"] < 100 or stats["kernel"] < 150:
        fail(f"demo exercised too little: {stats}")
    if failures:
        print(f"{len(failures)} failure(s)")
        print("FAIL")
        sys.exit(1)
    print("PASS")


if __name__ == "__main__":
    main()
