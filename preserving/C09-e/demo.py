"""Demo for property C09 -- "Spatial filters keep exactly the particles that lie inside".

Run as:  cd /tmp/wt6/C09 && /venv/bin/python /tmp/seedsQ/C09/<x>/demo.py

Two kinds of checks, both over many random and edge-case inputs inside the property's quantifier:
 (1) differential: the functions of the tree (Motl.remove_out_of_bounds_particles, adapt_to_trimming,
     clean_by_distance_to_points, clean_by_tomo_mask, ioutils.dimensions_load) against verbatim copies of the
     ORIGINAL function texts kept below (ORIG_*), on the same inputs, including 2nd/3rd calls on the same
     objects after in-place edits and calls in different orders; resulting tables, returned values, printed text,
     raised exception types and side effects on the inputs must be identical;
 (2) oracle: an independent brute-force computation of "which particles lie inside / are hit".
     Note on the lower faces: the unmodified tree has the inert lower check `all(c_min) >= 0`; the oracle therefore
     checks the full two-sided statement on lists whose particles do not leave through a lower face and the
     upper-side statement / inside-implies-kept on all lists (the differential check covers everything).
Prints PASS and exits 0 when everything holds.
"""
import sys, os

sys.path.insert(0, os.getcwd())

import contextlib
import copy
import inspect
import io
import tempfile
import warnings
from math import ceil

import numpy as np
import pandas as pd
from scipy.spatial import KDTree

warnings.filterwarnings("ignore")

from cryocat import cryomotl, ioutils, cryomap  # noqa: E402
from cryocat.cryomotl import Motl  # noqa: E402
from cryocat.exceptions import UserInputError  # noqa: E402

assert os.path.abspath(cryomotl.__file__).startswith(os.getcwd()), "cryocat not imported from the worktree"

FOCUS = "b: signature maintenance"

# ----------------------------------------------------------------------------------------------------------------
# verbatim copies of the original function texts (only `self.` helpers that are themselves copied are redirected)
# ----------------------------------------------------------------------------------------------------------------


def ORIG_get_coordinates(self, tomo_number=None):
    if tomo_number is None:
        coord = self.df.loc[:, ["x", "y", "z"]].values + self.df.loc[:, ["shift_x", "shift_y", "shift_z"]].values
    else:
        coord = (
            self.df.loc[self.df.loc[:, "tomo_id"] == tomo_number, ["x", "y", "z"]].values
            + self.df.loc[
                self.df.loc[:, "tomo_id"] == tomo_number,
                ["shift_x", "shift_y", "shift_z"],
            ].values
        )

    return coord


def ORIG_dimensions_load(input_dims, tomo_idx=None):
    if isinstance(input_dims, pd.DataFrame):
        dimensions = input_dims
    elif isinstance(input_dims, str):
        if input_dims.endswith(".com"):
            com_file_d = ioutils.imod_com_read(input_dims)
            dimensions = np.zeros((1, 3))
            dimensions[0, 0:2] = com_file_d["FULLIMAGE"]
            dimensions[0, 2] = com_file_d["THICKNESS"][0]
            dimensions = pd.DataFrame(dimensions)
        else:
            if os.path.isfile(input_dims):
                dimensions = pd.read_csv(input_dims, sep="\\s+", header=None, dtype=float)
            else:
                raise ValueError(f"The file at the path {input_dims} does not exist.")
    elif isinstance(input_dims, list):
        dimensions = pd.DataFrame(np.reshape(np.asarray(input_dims), (1, len(input_dims))))
    else:  # isinstance(input_dims, np.ndarray):
        if input_dims.ndim == 1:
            input_dims = np.reshape(input_dims, (1, input_dims.shape[0]))

        dimensions = pd.DataFrame(input_dims)

    if dimensions.shape == (1, 3):
        dimensions.columns = ["x", "y", "z"]
    elif dimensions.shape[1] == 4:
        dimensions.columns = ["tomo_id", "x", "y", "z"]
    else:
        raise ValueError(
            f"The dimensions should have shape of 1x3 or Nx4, where N is number of tomograms."
            f"Instead following shape was extracted from the prvoided files: {dimensions.shape}."
        )

    if tomo_idx is not None:
        tomos = ioutils.tlt_load(tomo_idx).astype(int)
        if "tomo_id" not in dimensions.columns:
            repeated_values = np.repeat(dimensions[["x", "y", "z"]].values, len(tomos), axis=0)
            dimensions = pd.DataFrame(repeated_values, columns=["x", "y", "z"])
            dimensions["tomo_id"] = tomos

    return dimensions


def ORIG_adapt_to_trimming(self, trim_coord_start, trim_coord_end):
    trimvol_coord = np.asarray(trim_coord_start) - 1
    tdim = np.asarray(trim_coord_end) - trimvol_coord
    self.df.loc[:, ["x", "y", "z"]] = self.df.loc[:, ["x", "y", "z"]] - np.tile(
        trimvol_coord, (self.df.shape[0], 1)
    )
    self.df = self.df.loc[~((self.df["x"] < 1.0) | (self.df["y"] < 1.0) | (self.df["z"] < 1.0)), :]
    self.df = self.df.loc[
        ~((self.df["x"] > tdim[0]) | (self.df["y"] > tdim[1]) | (self.df["z"] > tdim[2])),
        :,
    ]


def ORIG_clean_by_distance_to_points(
    self, points, radius_in_voxels, feature_id="tomo_id", inplace=True, output_file=None
):
    # Parse tomograms
    features = self.get_unique_values(feature_id)

    # Initialize clean motl
    cleaned_df = pd.DataFrame()

    # Loop through and clean
    for f in features:
        # Parse tomogram
        feature_m = self.get_motl_subset(f, feature_id=feature_id, reset_index=True)

        # Parse positions
        coord1 = ORIG_get_coordinates(feature_m)
        coord2 = points.loc[points[feature_id] == f, ["x", "y", "z"]].values

        # Create a KDTree from coord1
        tree = KDTree(coord1)

        # Query points from coord2 within the radius
        indices_to_remove = set()  # Use a set to store unique indices
        for point in coord2:
            indices = tree.query_ball_point(point, r=radius_in_voxels)  # Returns indices as array
            indices_to_remove.update(indices)  # Add indices to the set

        # Convert to a sorted list for consistent ordering
        indices_to_remove = sorted(indices_to_remove)
        cfm = feature_m.df.drop(index=indices_to_remove)
        cleaned_df = pd.concat([cleaned_df, cfm], ignore_index=True)

    cleaned_df.reset_index(drop=True, inplace=True)
    cleaned_motl = Motl(cleaned_df)

    if output_file:
        cleaned_motl.write_out(output_file)

    print(f"{self.df.shape[0]-cleaned_motl.df.shape[0]} particles were removed.")

    if inplace:
        self.df = cleaned_df
    else:
        return cleaned_motl


def ORIG_clean_by_tomo_mask(self, tomo_list, tomo_masks, inplace=True, output_file=None):
    tomos = ioutils.tlt_load(tomo_list)

    requries_loading = True

    if isinstance(tomo_masks, list):
        if len(tomos) != len(tomo_masks):
            raise ValueError(f"The list of tomograms has different length than lists of tomogram masks")
    else:
        tomo_mask = cryomap.binarize(tomo_masks)
        requries_loading = False

    cleaned_motl = Motl.load(self)

    for i, t in enumerate(tomos):
        tm = self.get_motl_subset(t, reset_index=True)
        coords = np.floor(ORIG_get_coordinates(tm)).astype(int)
        if requries_loading:
            tomo_mask = cryomap.binarize(tomo_masks[i])

        # Ensure coordinates are within the bounds of the mask array
        within_bounds = (
            (coords[:, 0] >= 0)
            & (coords[:, 1] >= 0)
            & (coords[:, 2] >= 0)
            & (coords[:, 0] < tomo_mask.shape[0])
            & (coords[:, 1] < tomo_mask.shape[1])
            & (coords[:, 2] < tomo_mask.shape[2])
        )
        within_idx = np.where(within_bounds)[0]
        coords = coords[within_bounds]

        # Filter out coordinates where the mask value is 0
        mask_values = tomo_mask[coords[:, 0], coords[:, 1], coords[:, 2]]

        # Get the indices (within the tomogram subset) of the particles that sit on zero voxels
        idx_to_remove = within_idx[mask_values == 0]
        subtomo_idx = tm.df.loc[idx_to_remove, "subtomo_id"].values

        # only rows of this tomogram: subtomogram numbers may repeat in other tomograms
        hits = (cleaned_motl.df["tomo_id"] == t) & cleaned_motl.df["subtomo_id"].isin(subtomo_idx)
        cleaned_motl.df = cleaned_motl.df[~hits]

        print(f"Removed {str(idx_to_remove.shape[0])} particles from tomogram #{str(t)}")

    cleaned_motl.df.reset_index(inplace=True, drop=True)

    if output_file is not None:
        cleaned_motl.write_out(output_file)

    if inplace:
        self.df = cleaned_motl.df
    else:
        return cleaned_motl


def ORIG_remove_out_of_bounds_particles(self, dimensions, boundary_type="center", box_size=None):
    dim = ORIG_dimensions_load(dimensions)
    original_size = len(self.df)

    # Get type of bounds
    if boundary_type == "whole":
        if box_size:
            boundary = ceil(box_size / 2)
        else:
            raise UserInputError("You need to specify box_size when boundary_type is set to 'whole'.")
    elif boundary_type == "center":
        boundary = 0
    else:
        raise UserInputError(f"Unknown type of boundaries: {boundary_type}")

    recentered = ORIG_get_coordinates(self)
    recentered_df = pd.DataFrame({
        "x": recentered[:, 0],
        "y": recentered[:, 1],
        "z": recentered[:, 2],
        "tomo_id": self.df["tomo_id"].values  # Add the tomo_id column from the original df.
    })
    idx_list = []
    for i, row in recentered_df.iterrows():
        tn = row["tomo_id"]
        tomo_dim = dim.loc[dim["tomo_id"] == tn, "x":"z"].reset_index(drop=True)
        c_min = [c - boundary for c in row["x":"z"]]
        c_max = [c + boundary for c in row["x":"z"]]
        if (
            (all(c_min) >= 0)
            and (c_max[0] < tomo_dim["x"][0])
            and (c_max[1] < tomo_dim["y"][0])
            and (c_max[2] < tomo_dim["z"][0])
        ):
            idx_list.append(i)

    self.df = self.df.iloc[idx_list].reset_index(drop=True)

    print(f"Removed {original_size - len(self.df)} particles.")
    print(f"Original size {original_size}, new_size {len(self.df)}")


# ----------------------------------------------------------------------------------------------------------------
# helpers
# ----------------------------------------------------------------------------------------------------------------
N_CHECKS = 0


def ok(cond, msg):
    global N_CHECKS
    N_CHECKS += 1
    if not cond:
        print("FAIL:", msg)
        sys.exit(1)


def same_df(a, b, msg, index_type="equiv"):
    """oracle comparison: values, dtypes, index labels, column order"""
    global N_CHECKS
    N_CHECKS += 1
    try:
        pd.testing.assert_frame_equal(a, b, check_exact=True, check_dtype=True, check_index_type=index_type)
    except AssertionError as e:
        print("FAIL:", msg, "\n", e)
        sys.exit(1)


def same_df_exact(a, b, msg):
    """differential comparison: additionally the index classes have to agree"""
    same_df(a, b, msg, index_type=True)


def run(fn, *args, **kwargs):
    """Returns (exception type name or None, return value, printed text)."""
    buf = io.StringIO()
    exc, ret = None, None
    with contextlib.redirect_stdout(buf):
        try:
            ret = fn(*args, **kwargs)
        except Exception as e:  # noqa: BLE001
            exc = type(e).__name__
    return exc, ret, buf.getvalue()


def same_outcome(new, old, msg):
    ok(new[0] == old[0], f"{msg}: exception {new[0]} vs original {old[0]}")
    ok(new[2] == old[2], f"{msg}: printed text differs: {new[2]!r} vs {old[2]!r}")
    if isinstance(old[1], Motl) or isinstance(new[1], Motl):
        ok(isinstance(new[1], Motl) and isinstance(old[1], Motl), f"{msg}: return types differ")
        ok(type(new[1]) is type(old[1]), f"{msg}: return classes differ")
        same_df_exact(new[1].df, old[1].df, msg + " (returned motl)")
    elif isinstance(old[1], pd.DataFrame) or isinstance(new[1], pd.DataFrame):
        same_df_exact(new[1], old[1], msg + " (returned frame)")
    else:
        ok(new[1] is None and old[1] is None, f"{msg}: return values differ {new[1]!r} {old[1]!r}")


TOMO_DIMS_POOL = [(40, 30, 20), (25, 50, 12), (64, 64, 32), (10, 11, 9), (33, 17, 48), (100, 80, 60)]


def make_dims(rng, n_tomos, id_pool=None):
    if id_pool is None:
        id_pool = [1, 2, 3, 5, 7, 12, 17, 40, 101]
    ids = sorted(rng.choice(id_pool, size=n_tomos, replace=False).tolist())
    rows = rng.choice(len(TOMO_DIMS_POOL), size=n_tomos, replace=False)
    arr = np.array([[ids[i], *TOMO_DIMS_POOL[rows[i]]] for i in range(n_tomos)], dtype=float)
    if rng.random() < 0.5:
        arr = arr[rng.permutation(n_tomos)]
    return arr


def make_motl(rng, dims, n, frac_style="mixed", lower_safe=0, subtomo_start=1):
    """Particles spread inside, on the faces of and beyond the volume of their own tomogram.
    lower_safe: if > 0, every complete position is >= lower_safe on each axis."""
    df = Motl.create_empty_motl_df()
    data = {}
    t_rows = rng.integers(0, dims.shape[0], size=n)
    tdim = dims[t_rows, 1:4]
    pos = np.zeros((n, 3))
    for k in range(n):
        for a in range(3):
            d = tdim[k, a]
            mode = rng.integers(0, 8)
            if mode == 0:
                v = rng.choice([0.0, 1.0, d - 1.0, d, d + 1.0, -1.0, d - 2.0])  # faces
            elif mode == 1:
                v = float(rng.integers(-15, 0))  # beyond lower
            elif mode == 2:
                v = float(d + rng.integers(0, 15))  # beyond upper
            else:
                v = float(rng.integers(0, int(d)))  # inside
            if frac_style == "mixed" and rng.random() < 0.3:
                v += rng.choice([0.5, 0.25, -0.5, 0.75, -0.25])
            elif frac_style == "float" and rng.random() < 0.7:
                v += rng.uniform(-1, 1)
            pos[k, a] = v
    if lower_safe:
        pos = np.maximum(pos, lower_safe)
    # split the complete position into x,y,z and non-zero shifts
    if frac_style == "int":
        shifts = rng.integers(-4, 5, size=(n, 3)).astype(float)
    else:
        shifts = rng.choice([0.0, 0.5, -0.5, 1.0, -2.0, 3.25, -1.75, 0.125], size=(n, 3))
    if rng.random() < 0.15:
        shifts[:] = 0.0
    xyz = pos - shifts
    for c in Motl.motl_columns:
        data[c] = rng.uniform(-5, 5, size=n).round(3)
    data["x"], data["y"], data["z"] = xyz[:, 0], xyz[:, 1], xyz[:, 2]
    data["shift_x"], data["shift_y"], data["shift_z"] = shifts[:, 0], shifts[:, 1], shifts[:, 2]
    data["tomo_id"] = dims[t_rows, 0]
    data["subtomo_id"] = (np.arange(n) + subtomo_start).astype(float)
    if rng.random() < 0.5:
        data["subtomo_id"] = rng.permutation(data["subtomo_id"])
    data["object_id"] = rng.integers(1, 4, size=n).astype(float)
    data["class"] = rng.integers(1, 3, size=n).astype(float)
    data["phi"] = rng.uniform(-180, 180, size=n)
    data["theta"] = rng.uniform(0, 180, size=n)
    data["psi"] = rng.uniform(-180, 180, size=n)
    df = pd.DataFrame(data, columns=Motl.motl_columns).astype(float)
    return Motl(df)


def positions(df):
    return df[["x", "y", "z"]].to_numpy() + df[["shift_x", "shift_y", "shift_z"]].to_numpy()


def clone(m):
    return Motl(m.df.copy(deep=True))


def rows_as_set(df):
    return [tuple(r) for r in df.to_numpy().tolist()]


# ----------------------------------------------------------------------------------------------------------------
# 1. remove_out_of_bounds_particles
# ----------------------------------------------------------------------------------------------------------------
def oracle_oob(df, dims, boundary_type, box_size, two_sided):
    b = 0 if boundary_type == "center" else ceil(box_size / 2)
    p = positions(df)
    keep = np.ones(len(df), dtype=bool)
    for k in range(len(df)):
        d = dims[dims[:, 0] == df["tomo_id"].iloc[k]][0, 1:4]
        up = np.all(p[k] + b < d)
        lo = np.all(p[k] - b >= 0)
        keep[k] = up and (lo if two_sided else True)
    return keep


def dims_variant(rng, dims):
    """The same dimensions handed over in the different accepted forms."""
    v = rng.integers(0, 4)
    if v == 0:
        return dims.copy()
    if v == 1:
        return pd.DataFrame(dims.copy())
    if v == 2:
        return pd.DataFrame(dims.copy(), columns=["tomo_id", "x", "y", "z"])
    fd, path = tempfile.mkstemp(suffix=".txt")
    with os.fdopen(fd, "w") as f:
        for r in dims:
            f.write(" ".join(str(int(x)) for x in r) + "\n")
    TMPFILES.append(path)
    return path


TMPFILES = []


def check_oob(rng, n_iter):
    for it in range(n_iter):
        n_t = int(rng.integers(1, 5))
        dims = make_dims(rng, n_t)
        n = int(rng.integers(1, 35))
        lower_safe_box = None
        boundary_type = rng.choice(["center", "whole"])
        box = int(rng.choice([1, 2, 3, 4, 5, 8, 9, 16, 21])) if boundary_type == "whole" else None
        if rng.random() < 0.1 and boundary_type == "center":
            box = 8  # ignored for "center"
        two_sided = it % 2 == 0
        b = 0 if boundary_type == "center" else ceil(box / 2)
        m = make_motl(rng, dims, n, frac_style=rng.choice(["int", "mixed", "float"]), lower_safe=b if two_sided else 0)
        if two_sided and b == 0:
            # every position >= 0 on request; make_motl with lower_safe=0 does not clip -> clip here
            p = positions(m.df)
            neg = np.minimum(p, 0)
            m.df[["x", "y", "z"]] = m.df[["x", "y", "z"]].to_numpy() - neg
        before = m.df.copy(deep=True)
        m_new, m_old = clone(m), clone(m)
        d_new = dims_variant(rng, dims)
        d_old = copy.deepcopy(d_new)
        kw = {"boundary_type": str(boundary_type)}
        if box is not None:
            kw["box_size"] = box
        r_new = run(m_new.remove_out_of_bounds_particles, d_new, **kw)
        r_old = run(ORIG_remove_out_of_bounds_particles, m_old, d_old, **kw)
        same_outcome(r_new, r_old, f"oob[{it}]")
        same_df_exact(m_new.df, m_old.df, f"oob[{it}] table")
        if isinstance(d_new, pd.DataFrame):
            same_df_exact(d_new, d_old, f"oob[{it}] dimensions table side effect")
        elif isinstance(d_new, np.ndarray):
            ok(np.array_equal(d_new, dims), f"oob[{it}] dimension array altered")
        ok(r_new[0] is None, f"oob[{it}] unexpected exception {r_new[0]}")

        # oracle
        keep_full = oracle_oob(before, dims, boundary_type, box, True)
        keep_up = oracle_oob(before, dims, boundary_type, box, False)
        expected_up = before.loc[keep_up].reset_index(drop=True)
        if two_sided:
            ok(np.array_equal(keep_full, keep_up), "generator: lower-safe list has a lower violation")
            same_df(m_new.df, before.loc[keep_full].reset_index(drop=True), f"oob[{it}] exactly the inside set")
        surv = set(m_new.df["subtomo_id"].tolist())
        ok(surv <= set(before.loc[keep_up, "subtomo_id"].tolist()), f"oob[{it}] survivor beyond an upper face")
        ok(set(before.loc[keep_full, "subtomo_id"].tolist()) <= surv, f"oob[{it}] inside particle removed")
        ok(set(before.loc[~keep_up, "subtomo_id"].tolist()).isdisjoint(surv), f"oob[{it}] upper violator kept")
        # survivors unaltered and in the original order
        sub = before.loc[before["subtomo_id"].isin(m_new.df["subtomo_id"])].reset_index(drop=True)
        same_df(m_new.df, sub, f"oob[{it}] survivors altered")
        same_df(m_new.df, expected_up, f"oob[{it}] upper-side statement")

        # second and third call on the same object after in-place edits
        for rep in range(2):
            if len(m_new.df) == 0:
                break
            col = str(rng.choice(["x", "y", "z", "shift_x", "shift_y", "shift_z"]))
            delta = float(rng.choice([-7.0, 3.0, 11.5, 25.0, -0.5]))
            rows = rng.random(len(m_new.df)) < 0.5
            m_new.df.loc[rows, col] = m_new.df.loc[rows, col] + delta
            m_old.df.loc[rows, col] = m_old.df.loc[rows, col] + delta
            before2 = m_new.df.copy(deep=True)
            bt2 = str(rng.choice(["center", "whole"]))
            kw2 = {"boundary_type": bt2}
            box2 = None
            if bt2 == "whole":
                box2 = int(rng.choice([2, 3, 6, 7, 10]))
                kw2["box_size"] = box2
            r_new = run(m_new.remove_out_of_bounds_particles, dims.copy(), **kw2)
            r_old = run(ORIG_remove_out_of_bounds_particles, m_old, dims.copy(), **kw2)
            same_outcome(r_new, r_old, f"oob[{it}] call {rep + 2}")
            same_df_exact(m_new.df, m_old.df, f"oob[{it}] call {rep + 2} table")
            k_up = oracle_oob(before2, dims, bt2, box2, False)
            same_df(m_new.df, before2.loc[k_up].reset_index(drop=True), f"oob[{it}] call {rep + 2} upper-side")

    # option errors (unchanged behaviour of the documented errors)
    dims = make_dims(rng, 2)
    m = make_motl(rng, dims, 6)
    for kw in ({"boundary_type": "whole"}, {"boundary_type": "whole", "box_size": 0}, {"boundary_type": "invalid"},
               {"boundary_type": "Center"}, {"boundary_type": "whole", "box_size": None}):
        a, b_ = clone(m), clone(m)
        r_new = run(a.remove_out_of_bounds_particles, dims.copy(), **kw)
        r_old = run(ORIG_remove_out_of_bounds_particles, b_, dims.copy(), **kw)
        same_outcome(r_new, r_old, f"oob errors {kw}")
        ok(r_new[0] == "UserInputError", f"oob errors {kw}: {r_new[0]}")
        same_df(a.df, m.df, "oob errors: table altered")
    # positional call style
    a, b_ = clone(m), clone(m)
    r_new = run(a.remove_out_of_bounds_particles, dims.copy(), "whole", 6)
    r_old = run(ORIG_remove_out_of_bounds_particles, b_, dims.copy(), "whole", 6)
    same_outcome(r_new, r_old, "oob positional")
    same_df_exact(a.df, b_.df, "oob positional table")
    # dimensions without tomo_id (1x3) and tomogram missing from the dimensions: same outcome as the original
    for bad in ([40, 30, 20], np.array([40, 30, 20]), dims[:1].copy()):
        a, b_ = clone(m), clone(m)
        r_new = run(a.remove_out_of_bounds_particles, copy.deepcopy(bad))
        r_old = run(ORIG_remove_out_of_bounds_particles, b_, copy.deepcopy(bad))
        same_outcome(r_new, r_old, "oob unusual dimensions")
        same_df_exact(a.df, b_.df, "oob unusual dimensions table")


# ----------------------------------------------------------------------------------------------------------------
# 2. adapt_to_trimming
# ----------------------------------------------------------------------------------------------------------------
def check_trim(rng, n_iter):
    for it in range(n_iter):
        dims = make_dims(rng, int(rng.integers(1, 5)))
        m = make_motl(rng, dims, int(rng.integers(1, 35)), frac_style=rng.choice(["int", "mixed", "float"]))
        if rng.random() < 0.3:  # non-default index labels
            m.df.index = rng.permutation(len(m.df)) + 100
        start = rng.integers(1, 20, size=3)
        end = start + rng.integers(0, 40, size=3)
        form = rng.integers(0, 3)
        if form == 0:
            s_arg, e_arg = start.copy(), end.copy()
        elif form == 1:
            s_arg, e_arg = start.tolist(), end.tolist()
        else:
            s_arg, e_arg = start.astype(float), tuple(end.tolist())
        before = m.df.copy(deep=True)
        m_new, m_old = clone(m), clone(m)
        m_new.df.index = m.df.index.copy()
        m_old.df.index = m.df.index.copy()
        r_new = run(m_new.adapt_to_trimming, copy.deepcopy(s_arg), copy.deepcopy(e_arg))
        r_old = run(ORIG_adapt_to_trimming, m_old, copy.deepcopy(s_arg), copy.deepcopy(e_arg))
        same_outcome(r_new, r_old, f"trim[{it}]")
        same_df_exact(m_new.df, m_old.df, f"trim[{it}] table")
        ok(r_new[0] is None, f"trim[{it}] exception {r_new[0]}")
        # oracle
        exp = before.copy(deep=True)
        for a, c in enumerate(["x", "y", "z"]):
            exp[c] = exp[c] - (start[a] - 1)
        size = end - start + 1
        inside = np.ones(len(exp), dtype=bool)
        for a, c in enumerate(["x", "y", "z"]):
            inside &= (exp[c].to_numpy() >= 1) & (exp[c].to_numpy() <= size[a])
        same_df(m_new.df, exp.loc[inside], f"trim[{it}] exactly the particles inside the trimmed volume")
        # repeated call on the same object (second trimming of the trimmed volume) after an in-place edit
        for rep in range(2):
            if len(m_new.df) == 0:
                break
            m_new.df.loc[:, "x"] = m_new.df["x"] + 2.0
            m_old.df.loc[:, "x"] = m_old.df["x"] + 2.0
            s2 = rng.integers(1, 6, size=3)
            e2 = s2 + rng.integers(0, 30, size=3)
            b2 = m_new.df.copy(deep=True)
            r_new = run(m_new.adapt_to_trimming, s2.copy(), e2.copy())
            r_old = run(ORIG_adapt_to_trimming, m_old, s2.copy(), e2.copy())
            same_outcome(r_new, r_old, f"trim[{it}] call {rep + 2}")
            same_df_exact(m_new.df, m_old.df, f"trim[{it}] call {rep + 2} table")
            exp = b2.copy(deep=True)
            inside = np.ones(len(exp), dtype=bool)
            for a, c in enumerate(["x", "y", "z"]):
                exp[c] = exp[c] - (s2[a] - 1)
                inside &= (exp[c].to_numpy() >= 1) & (exp[c].to_numpy() <= (e2 - s2 + 1)[a])
            same_df(m_new.df, exp.loc[inside], f"trim[{it}] call {rep + 2} oracle")


# ----------------------------------------------------------------------------------------------------------------
# 3. clean_by_distance_to_points
# ----------------------------------------------------------------------------------------------------------------
def make_points(rng, m, dims, n_pts, exact_ties):
    p = positions(m.df)
    rows = []
    all_ids = list(dims[:, 0]) + [999.0]
    for _ in range(n_pts):
        t = float(rng.choice(all_ids))
        mode = rng.integers(0, 4)
        same = np.where(m.df["tomo_id"].to_numpy() == t)[0]
        if mode == 0 and len(same):
            base = p[rng.choice(same)]
            off = np.array(rng.choice([(3, 4, 0), (0, 0, 5), (0, 0, 0), (1, 2, 2), (6, 0, 0)]), dtype=float) \
                if exact_ties else rng.uniform(-6, 6, size=3)
            xyz = base + off
        elif mode == 1 and len(m.df):
            xyz = p[rng.integers(0, len(p))] + rng.uniform(-1, 1, size=3)  # a position of ANY tomogram
        else:
            xyz = rng.uniform(-10, 70, size=3)
        rows.append((t, *xyz, rng.uniform()))
    pts = pd.DataFrame(rows, columns=["tomo_id", "x", "y", "z", "extra"])
    if rng.random() < 0.5:
        pts = pts[["x", "extra", "y", "tomo_id", "z"]]
    if rng.random() < 0.3 and len(pts):
        pts.index = rng.permutation(len(pts)) + 50
    return pts


def oracle_dist(before, pts, radius, feature_id="tomo_id"):
    p = positions(before)
    hit = np.zeros(len(before), dtype=bool)
    tie = np.zeros(len(before), dtype=bool)
    for k in range(len(before)):
        q = pts.loc[pts[feature_id] == before[feature_id].iloc[k], ["x", "y", "z"]].to_numpy(dtype=float)
        if len(q) == 0:
            continue
        d = np.sqrt(((q - p[k]) ** 2).sum(axis=1))
        hit[k] = np.any(d <= radius)
        tie[k] = np.any(np.abs(d - radius) < 1e-7)
    return hit, tie


def grouped(before, keep, feature_id="tomo_id"):
    parts = [before.loc[keep & (before[feature_id] == f).to_numpy()] for f in before[feature_id].unique()]
    return pd.concat(parts, ignore_index=True)


def check_dist(rng, n_iter):
    for it in range(n_iter):
        dims = make_dims(rng, int(rng.integers(1, 5)))
        m = make_motl(rng, dims, int(rng.integers(1, 35)), frac_style=rng.choice(["int", "mixed", "float"]))
        exact = it % 3 == 0
        pts = make_points(rng, m, dims, int(rng.integers(0, 12)), exact)
        radius = rng.choice([5, 5.0, 0, 1, 2.5, 3]) if exact else float(rng.uniform(0, 9))
        if isinstance(radius, np.generic):
            radius = radius.item()
        feature_id = "tomo_id"
        before = m.df.copy(deep=True)
        pts_before = pts.copy(deep=True)
        inplace = bool(rng.random() < 0.6)
        m_new, m_old = clone(m), clone(m)
        p_new, p_old = pts.copy(deep=True), pts.copy(deep=True)
        if rng.random() < 0.5:
            r_new = run(m_new.clean_by_distance_to_points, p_new, radius, inplace=inplace)
        else:
            r_new = run(m_new.clean_by_distance_to_points, p_new, radius, "tomo_id", inplace)
        r_old = run(ORIG_clean_by_distance_to_points, m_old, p_old, radius, inplace=inplace)
        same_outcome(r_new, r_old, f"dist[{it}]")
        same_df_exact(m_new.df, m_old.df, f"dist[{it}] table")
        same_df(p_new, pts_before, f"dist[{it}] points table altered")
        ok(r_new[0] is None, f"dist[{it}] exception {r_new[0]}")
        res = m_new.df if inplace else r_new[1].df
        if not inplace:
            same_df(m_new.df, before, f"dist[{it}] inplace=False altered the list")
        hit, tie = oracle_dist(before, pts, radius)
        got = set(res["subtomo_id"].tolist())
        sure_removed = set(before.loc[hit & ~tie, "subtomo_id"].tolist())
        sure_kept = set(before.loc[~hit & ~tie, "subtomo_id"].tolist())
        ok(sure_kept <= got, f"dist[{it}] particle farther than the radius removed")
        ok(sure_removed.isdisjoint(got), f"dist[{it}] particle within the radius kept")
        keep = before["subtomo_id"].isin(got).to_numpy()
        same_df(res, grouped(before, keep), f"dist[{it}] survivors altered / order")
        if not tie.any():
            same_df(res, grouped(before, ~hit), f"dist[{it}] exactly the particles within the radius removed")

        # other feature column
        if it % 5 == 0:
            pts2 = pts.copy(deep=True)
            pts2["class"] = rng.integers(1, 3, size=len(pts2)).astype(float)
            a, b_ = clone(m), clone(m)
            r_new = run(a.clean_by_distance_to_points, pts2.copy(deep=True), radius, feature_id="class")
            r_old = run(ORIG_clean_by_distance_to_points, b_, pts2.copy(deep=True), radius, feature_id="class")
            same_outcome(r_new, r_old, f"dist[{it}] class")
            same_df_exact(a.df, b_.df, f"dist[{it}] class table")
            hit2, tie2 = oracle_dist(before, pts2, radius, "class")
            if not tie2.any():
                same_df(a.df, grouped(before, ~hit2, "class"), f"dist[{it}] class oracle")

        # 2nd / 3rd call on the same objects after editing the points table and the list in place
        a, b_ = clone(m), clone(m)
        pa, pb = pts.copy(deep=True), pts.copy(deep=True)
        for rep in range(3):
            r_new = run(a.clean_by_distance_to_points, pa, radius)
            r_old = run(ORIG_clean_by_distance_to_points, b_, pb, radius)
            same_outcome(r_new, r_old, f"dist[{it}] rep {rep}")
            same_df_exact(a.df, b_.df, f"dist[{it}] rep {rep} table")
            if len(pa):
                sh = rng.uniform(-8, 8)
                pa.loc[:, "x"] = pa["x"] + sh
                pb.loc[:, "x"] = pb["x"] + sh
            if len(a.df):
                a.df.loc[:, "shift_y"] = a.df["shift_y"] + 1.5
                b_.df.loc[:, "shift_y"] = b_.df["shift_y"] + 1.5
            radius = radius + 1
            bb = a.df.copy(deep=True)
            if len(bb) == 0:
                break
            h3, t3 = oracle_dist(bb, pa, radius)
            if not t3.any():
                c = clone(a)
                run(c.clean_by_distance_to_points, pa.copy(deep=True), radius)
                same_df(c.df, grouped(bb, ~h3), f"dist[{it}] rep {rep} oracle on edited inputs")

    # output file written identically
    dims = make_dims(rng, 2)
    m = make_motl(rng, dims, 12, frac_style="int")
    pts = make_points(rng, m, dims, 5, False)
    with tempfile.TemporaryDirectory() as td:
        f1, f2 = os.path.join(td, "a.em"), os.path.join(td, "b.em")
        a, b_ = clone(m), clone(m)
        r_new = run(a.clean_by_distance_to_points, pts.copy(), 4.0, output_file=f1)
        r_old = run(ORIG_clean_by_distance_to_points, b_, pts.copy(), 4.0, output_file=f2)
        same_outcome(r_new, r_old, "dist output_file")
        ok(open(f1, "rb").read() == open(f2, "rb").read(), "dist output files differ")


# ----------------------------------------------------------------------------------------------------------------
# 4. clean_by_tomo_mask
# ----------------------------------------------------------------------------------------------------------------
def make_mask(rng, shape):
    kind = rng.integers(0, 4)
    if kind == 0:
        mk = (rng.random(shape) < 0.5).astype(float)
    elif kind == 1:
        mk = (rng.random(shape) < 0.5).astype(np.int8)
    elif kind == 2:
        mk = rng.choice([0.0, 0.5, 0.51, 1.0, 2.0], size=shape)  # binarised with > 0.5
    else:
        mk = np.zeros(shape, dtype=np.float32)
        mk[: shape[0] // 2] = 1
    return mk


def oracle_mask(before, tomo_ids, masks):
    p = np.floor(positions(before)).astype(int)
    remove = np.zeros(len(before), dtype=bool)
    tid = before["tomo_id"].to_numpy()
    for t, mk in zip(tomo_ids, masks):
        binm = mk > 0.5
        for k in range(len(before)):
            if tid[k] != t:
                continue
            q = p[k]
            inside = all(0 <= q[a] < binm.shape[a] for a in range(3))
            if inside and not binm[q[0], q[1], q[2]]:
                remove[k] = True
    return remove


def check_mask(rng, n_iter):
    for it in range(n_iter):
        dims = make_dims(rng, int(rng.integers(1, 5)), id_pool=[1, 2, 3, 5, 7, 12])
        m = make_motl(rng, dims, int(rng.integers(1, 35)), frac_style=rng.choice(["int", "int", "mixed", "float"]))
        # masks for a subset of the tomograms (+ sometimes a tomogram that has no particles)
        n_sel = int(rng.integers(1, dims.shape[0] + 1))
        sel = rng.choice(dims.shape[0], size=n_sel, replace=False)
        tomo_ids = [int(dims[s, 0]) for s in sel]
        single = rng.random() < 0.3
        if single:
            shape = tuple(int(v) for v in dims[sel[0], 1:4])
            mk = make_mask(rng, shape)
            masks_for_oracle = [mk] * len(tomo_ids)
            masks_arg = mk
        else:
            masks_for_oracle = []
            for s in sel:
                shape = tuple(int(v) for v in dims[s, 1:4])
                if rng.random() < 0.3:  # a mask volume smaller than the tomogram
                    shape = tuple(max(2, v - int(rng.integers(0, 6))) for v in shape)
                masks_for_oracle.append(make_mask(rng, shape))
            masks_arg = list(masks_for_oracle)
        if rng.random() < 0.2 and not single:
            tomo_ids.append(77)
            masks_for_oracle.append(make_mask(rng, (5, 5, 5)))
            masks_arg = list(masks_for_oracle)
        tl_form = rng.integers(0, 2)
        tl = list(tomo_ids) if tl_form == 0 else np.array(tomo_ids)
        before = m.df.copy(deep=True)
        masks_copy = copy.deepcopy(masks_arg)
        inplace = bool(rng.random() < 0.6)
        m_new, m_old = clone(m), clone(m)
        r_new = run(m_new.clean_by_tomo_mask, copy.deepcopy(tl), masks_arg, inplace=inplace)
        r_old = run(ORIG_clean_by_tomo_mask, m_old, copy.deepcopy(tl), copy.deepcopy(masks_copy), inplace=inplace)
        same_outcome(r_new, r_old, f"mask[{it}]")
        same_df_exact(m_new.df, m_old.df, f"mask[{it}] table")
        ok(r_new[0] is None, f"mask[{it}] exception {r_new[0]}")
        if single:
            ok(np.array_equal(masks_arg, masks_copy), f"mask[{it}] mask altered")
        else:
            ok(all(np.array_equal(x, y) for x, y in zip(masks_arg, masks_copy)), f"mask[{it}] masks altered")
        res = m_new.df if inplace else r_new[1].df
        if not inplace:
            same_df(m_new.df, before, f"mask[{it}] inplace=False altered the list")
        rem = oracle_mask(before, tomo_ids, masks_for_oracle)
        same_df(res, before.loc[~rem].reset_index(drop=True), f"mask[{it}] exactly the zero-voxel particles removed")

        # repeated calls after in-place edits of list and masks
        a, b_ = clone(m), clone(m)
        ma, mb = copy.deepcopy(masks_arg), copy.deepcopy(masks_arg)
        for rep in range(3):
            bb = a.df.copy(deep=True)
            r_new = run(a.clean_by_tomo_mask, copy.deepcopy(tl), ma)
            r_old = run(ORIG_clean_by_tomo_mask, b_, copy.deepcopy(tl), mb)
            same_outcome(r_new, r_old, f"mask[{it}] rep {rep}")
            same_df_exact(a.df, b_.df, f"mask[{it}] rep {rep} table")
            mo = [ma] * len(tomo_ids) if single else ma
            rem = oracle_mask(bb, tomo_ids, mo)
            same_df(a.df, bb.loc[~rem].reset_index(drop=True), f"mask[{it}] rep {rep} oracle")
            # edit in place: invert masks, move particles
            if single:
                ma[...] = 1 - (ma > 0.5)
                mb[...] = 1 - (mb > 0.5)
            else:
                for x, y in zip(ma, mb):
                    x[...] = 1 - (x > 0.5)
                    y[...] = 1 - (y > 0.5)
            if len(a.df):
                a.df.loc[:, "z"] = a.df["z"] + 1.0
                b_.df.loc[:, "z"] = b_.df["z"] + 1.0

    # documented error: list lengths differ
    dims = make_dims(rng, 2, id_pool=[1, 2])
    m = make_motl(rng, dims, 8)
    a, b_ = clone(m), clone(m)
    r_new = run(a.clean_by_tomo_mask, [1, 2], [np.ones((4, 4, 4))])
    r_old = run(ORIG_clean_by_tomo_mask, b_, [1, 2], [np.ones((4, 4, 4))])
    same_outcome(r_new, r_old, "mask length error")
    ok(r_new[0] == "ValueError", "mask length error type")
    same_df(a.df, m.df, "mask length error altered the list")


# ----------------------------------------------------------------------------------------------------------------
# 5. ioutils.dimensions_load
# ----------------------------------------------------------------------------------------------------------------
def check_dimensions_load(rng, n_iter):
    first_param = list(inspect.signature(ioutils.dimensions_load).parameters)[0]
    with tempfile.TemporaryDirectory() as td:
        for it in range(n_iter):
            n_t = int(rng.integers(1, 5))
            dims = make_dims(rng, n_t)
            one = np.array(TOMO_DIMS_POOL[rng.integers(0, len(TOMO_DIMS_POOL))], dtype=float)
            path4 = os.path.join(td, f"d4_{it}.txt")
            np.savetxt(path4, dims, fmt="%d")
            path3 = os.path.join(td, f"d3_{it}.txt")
            with open(path3, "w") as f:
                f.write("  ".join(str(int(v)) for v in one) + "\n")
            com = os.path.join(td, f"tilt_{it}.com")
            with open(com, "w") as f:
                f.write("# comment\n$tilt -StandardInput\nFULLIMAGE %d %d\nTHICKNESS %d\nOutputFile x.rec\n"
                        % (one[0], one[1], one[2]))
            cases = [
                dims.copy(), dims.astype(int), pd.DataFrame(dims.copy()), pd.DataFrame(dims.copy(), columns=list("abcd")),
                one.copy(), one.astype(int), one.tolist(), [int(v) for v in one], one.reshape(1, 3),
                pd.DataFrame(one.reshape(1, 3)), path4, path3, com,
                os.path.join(td, "missing.txt"), "", td,                                     # not a file -> ValueError
                np.arange(5.0), np.ones((2, 3)), [1, 2], pd.DataFrame(np.ones((3, 5))),   # bad shapes -> ValueError
            ]
            for ci, c in enumerate(cases):
                for tomo_idx in (None, [4, 9, 11], np.array([3.0, 8.0])):
                    c_new, c_old = copy.deepcopy(c), copy.deepcopy(c)
                    if tomo_idx is None and ci % 2 == 0:
                        r_new = run(ioutils.dimensions_load, c_new)
                    elif ci % 3 == 0:
                        r_new = run(ioutils.dimensions_load, **{first_param: c_new, "tomo_idx": copy.deepcopy(tomo_idx)})
                    else:
                        r_new = run(ioutils.dimensions_load, c_new, copy.deepcopy(tomo_idx))
                    r_old = run(ORIG_dimensions_load, c_old, copy.deepcopy(tomo_idx))
                    same_outcome(r_new, r_old, f"dimensions_load[{it},{ci}]")
                    if isinstance(c, pd.DataFrame):
                        same_df_exact(c_new, c_old, f"dimensions_load[{it},{ci}] side effect on the input table")
                        if r_new[0] is None and tomo_idx is None:
                            ok(r_new[1] is c_new, "dimensions_load no longer returns the given table")
                    elif isinstance(c, np.ndarray):
                        ok(np.array_equal(c_new, c), "dimensions_load altered the input array")
                    if r_new[0] is None and isinstance(c, (np.ndarray, list)) and np.asarray(c).size == 3:
                        ok(list(r_new[1].columns[:3]) == ["x", "y", "z"], "1x3 columns")
                        ok(np.array_equal(r_new[1][["x", "y", "z"]].to_numpy()[0], np.asarray(c, dtype=float).ravel()),
                           "1x3 values")
            # oracle for the Nx4 forms
            for c in (dims.copy(), pd.DataFrame(dims.copy()), path4):
                r = ioutils.dimensions_load(c)
                ok(list(r.columns) == ["tomo_id", "x", "y", "z"], "Nx4 columns")
                ok(np.array_equal(r.to_numpy(dtype=float), dims), "Nx4 values")


# ----------------------------------------------------------------------------------------------------------------
# 6. the filters one after the other on the same object, in different orders
# ----------------------------------------------------------------------------------------------------------------
def check_sequences(rng, n_iter):
    for it in range(n_iter):
        dims = make_dims(rng, int(rng.integers(1, 5)), id_pool=[1, 2, 3, 5, 7, 12])
        m = make_motl(rng, dims, int(rng.integers(5, 40)), frac_style=rng.choice(["int", "mixed"]))
        a, b_ = clone(m), clone(m)
        pts = make_points(rng, m, dims, 6, False)
        tomo_ids = [int(t) for t in dims[:, 0]]
        masks = [make_mask(rng, tuple(int(v) for v in d[1:4])) for d in dims]
        dims_df_a = pd.DataFrame(dims.copy())
        dims_df_b = pd.DataFrame(dims.copy())
        order = rng.permutation(["oob", "trim", "dist", "mask", "oob2", "dist2", "mask2"])
        for step in order:
            step = str(step)
            if step.startswith("oob"):
                kw = {"boundary_type": "whole", "box_size": 4} if step == "oob2" else {}
                # the same dimensions TABLE object is handed over again and again
                r_new = run(a.remove_out_of_bounds_particles, dims_df_a, **kw)
                r_old = run(ORIG_remove_out_of_bounds_particles, b_, dims_df_b, **kw)
                same_df_exact(dims_df_a, dims_df_b, f"seq[{it}] dims table")
            elif step == "trim":
                r_new = run(a.adapt_to_trimming, [2, 1, 3], [60, 60, 60])
                r_old = run(ORIG_adapt_to_trimming, b_, [2, 1, 3], [60, 60, 60])
            elif step.startswith("dist"):
                r = 3.0 if step == "dist" else 6.5
                if len(a.df) == 0:
                    continue
                r_new = run(a.clean_by_distance_to_points, pts, r)
                r_old = run(ORIG_clean_by_distance_to_points, b_, pts, r)
            else:
                if step == "mask2":
                    for x in masks:
                        x[...] = 1 - (x > 0.5)
                r_new = run(a.clean_by_tomo_mask, tomo_ids, masks)
                r_old = run(ORIG_clean_by_tomo_mask, b_, tomo_ids, masks)
            same_outcome(r_new, r_old, f"seq[{it}] {step}")
            same_df_exact(a.df, b_.df, f"seq[{it}] {step} table")
            ok(r_new[0] is None, f"seq[{it}] {step} exception {r_new[0]}")
            # survivors are rows of the original list apart from the trimming offset
            orig_rows = m.df.set_index("subtomo_id")
            cur = a.df.set_index("subtomo_id")
            cols = [c for c in Motl.motl_columns if c not in ("x", "y", "z", "subtomo_id")]
            ok(cur[cols].equals(orig_rows.loc[cur.index, cols]), f"seq[{it}] {step} survivors altered")


def main():
    seed = 20260928
    rng = np.random.default_rng(seed)
    check_oob(rng, 140)
    check_trim(rng, 120)
    check_dist(rng, 120)
    check_mask(rng, 120)
    check_dimensions_load(rng, 6)
    check_sequences(rng, 40)
    extra_checks(rng)
    for p in TMPFILES:
        os.unlink(p)
    print(f"focus: {FOCUS}; {N_CHECKS} checks")
    print("PASS")


def extra_checks(rng):
    """Change (b): signature maintenance -- remove_out_of_bounds_particles gets the optional tomo_idx=None (forwarded
    by keyword to ioutils.dimensions_load), clean_by_distance_to_points gets the optional coord_columns=None
    (None -> ["x", "y", "z"]), helper calls pass their arguments by keyword.  All old call styles (positional and
    keyword) must give the original results; the new options at their defaults / explicit old values too."""
    oob_params = inspect.signature(Motl.remove_out_of_bounds_particles).parameters
    dist_params = inspect.signature(Motl.clean_by_distance_to_points).parameters
    ok(list(oob_params)[:4] == ["self", "dimensions", "boundary_type", "box_size"], "oob: leading parameters changed")
    ok(oob_params["boundary_type"].default == "center" and oob_params["box_size"].default is None, "oob defaults")
    ok(list(dist_params)[:6] == ["self", "points", "radius_in_voxels", "feature_id", "inplace", "output_file"],
       "dist: leading parameters changed")
    ok(dist_params["feature_id"].default == "tomo_id" and dist_params["inplace"].default is True
       and dist_params["output_file"].default is None, "dist defaults")
    for it in range(60):
        dims = make_dims(rng, int(rng.integers(1, 5)))
        m = make_motl(rng, dims, int(rng.integers(1, 30)))
        bt = str(rng.choice(["center", "whole"]))
        box = int(rng.choice([2, 5, 8])) if bt == "whole" else None
        styles = [
            lambda mm, d: mm.remove_out_of_bounds_particles(d, bt, box),
            lambda mm, d: mm.remove_out_of_bounds_particles(dimensions=d, boundary_type=bt, box_size=box),
            lambda mm, d: mm.remove_out_of_bounds_particles(d, box_size=box, boundary_type=bt),
        ]
        if "tomo_idx" in oob_params:
            styles.append(lambda mm, d: mm.remove_out_of_bounds_particles(d, bt, box, None))
            styles.append(lambda mm, d: mm.remove_out_of_bounds_particles(d, bt, box_size=box, tomo_idx=None))
            # Nx4 dimensions carry their own tomo_id: a given list of indices does not matter
            styles.append(lambda mm, d: mm.remove_out_of_bounds_particles(d, bt, box, [int(t) for t in dims[:, 0]]))
        b_ = clone(m)
        r_old = run(ORIG_remove_out_of_bounds_particles, b_, dims.copy(), bt, box)
        for si, st in enumerate(styles):
            for d in (dims.copy(), pd.DataFrame(dims.copy())):
                a = clone(m)
                r_new = run(st, a, d)
                same_outcome(r_new, r_old, f"oob call style {si}")
                same_df_exact(a.df, b_.df, f"oob call style {si} table")

        pts = make_points(rng, m, dims, int(rng.integers(0, 8)), False)
        radius = float(rng.uniform(0, 8))
        styles = [
            lambda mm, p: mm.clean_by_distance_to_points(p, radius),
            lambda mm, p: mm.clean_by_distance_to_points(p, radius, "tomo_id", True, None),
            lambda mm, p: mm.clean_by_distance_to_points(points=p, radius_in_voxels=radius, feature_id="tomo_id",
                                                         inplace=True, output_file=None),
        ]
        if "coord_columns" in dist_params:
            styles.append(lambda mm, p: mm.clean_by_distance_to_points(p, radius, coord_columns=None))
            styles.append(lambda mm, p: mm.clean_by_distance_to_points(p, radius, "tomo_id", True, None, ["x", "y", "z"]))
            styles.append(lambda mm, p: mm.clean_by_distance_to_points(p, radius, coord_columns=("x", "y", "z")))
        b_ = clone(m)
        r_old = run(ORIG_clean_by_distance_to_points, b_, pts.copy(deep=True), radius)
        for si, st in enumerate(styles):
            a = clone(m)
            pp = pts.copy(deep=True)
            r_new = run(st, a, pp)
            same_outcome(r_new, r_old, f"dist call style {si}")
            same_df_exact(a.df, b_.df, f"dist call style {si} table")
            same_df(pp, pts, "dist call style: points altered")
        if "coord_columns" in dist_params and len(pts):
            # the new option: same points under other column names, plus decoy x/y/z columns
            p2 = pts.rename(columns={"x": "px", "y": "py", "z": "pz"})
            p2["x"], p2["y"], p2["z"] = 1e6, 1e6, 1e6
            cols = ["px", "py", "pz"]
            a = clone(m)
            r_new = run(a.clean_by_distance_to_points, p2, radius, coord_columns=cols)
            same_outcome(r_new, r_old, "dist coord_columns")
            same_df_exact(a.df, b_.df, "dist coord_columns table")
            ok(cols == ["px", "py", "pz"], "coord_columns list altered")

    if "tomo_idx" in oob_params:
        # the new option: one x y z triplet valid for all listed tomograms == the Nx4 table with repeated rows
        for it in range(20):
            ids = [2, 5, 9]
            one = [30, 40, 20]
            dims = np.array([[t, *one] for t in ids], dtype=float)
            m = make_motl(rng, dims, 20)
            a, b_ = clone(m), clone(m)
            r_new = run(a.remove_out_of_bounds_particles, list(one), "whole", 4, tomo_idx=list(ids))
            r_old = run(ORIG_remove_out_of_bounds_particles, b_, dims.copy(), "whole", 4)
            same_outcome(r_new, r_old, "oob tomo_idx")
            same_df_exact(a.df, b_.df, "oob tomo_idx table")
        print("new options tomo_idx / coord_columns checked")


if __name__ == "__main__":
    main()
