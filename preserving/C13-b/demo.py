"""Property C13 -- Masks: analytic shapes and voxel-wise set algebra.

Run as:  cd /tmp/wt6/C13 && /venv/bin/python /tmp/seedsP/C13/<x>/demo.py

The script checks cryocat.cryomask against an independent (integer / rational arithmetic) computation of the analytic
shapes, against plain boolean algebra for union / intersection / subtraction / difference, and against verbatim copies
of the ORIGINAL functions (ORIG_* below, text taken from the unmodified tree).  Prints PASS and exits 0 when everything
holds.
"""
import sys, os

sys.path.insert(0, os.getcwd())
import warnings

warnings.filterwarnings("ignore")
import tempfile
import numpy as np
from cryocat import cryomask as cm
from cryocat import cryomap
from cryocat.cryomask import get_correct_format, preprocess_params, postprocess, write_out

FOCUS = "algebra"  # which group of functions gets the larger number of random cases: sphere / algebra / ellipsoid
N_BASE = 120
N_FOCUS = 400

rng = np.random.default_rng(20260928)
failures = []


def check(cond, msg):
    if not cond:
        failures.append(msg)
        if len(failures) <= 25:
            print("FAIL:", msg)


# ------------------------------------------------------------------------------------------------------------------
# verbatim copies of the original functions (unmodified tree)
# ------------------------------------------------------------------------------------------------------------------
def ORIG_spherical_mask(mask_size, radius=None, center=None, gaussian=0.0, gaussian_outwards=True, output_name=None):
    mask_size = get_correct_format(mask_size)
    center = get_correct_format(center, reference_size=mask_size)

    if radius is None:
        radius = np.amin(mask_size) // 2

    radius = preprocess_params(radius, gaussian, gaussian_outwards)

    x, y, z = np.mgrid[0 : mask_size[0] : 1, 0 : mask_size[1] : 1, 0 : mask_size[2] : 1]
    mask = np.sqrt((x - center[0]) ** 2 + (y - center[1]) ** 2 + (z - center[2]) ** 2)
    mask[mask > radius] = 0
    mask[mask > 0] = 1
    if radius >= 0:  # (edited on review: copy of the original updated to cryoCAT fix bb2db4f)
        mask[center[0], center[1], center[2]] = 1

    mask = postprocess(mask, gaussian, np.asarray([0, 0, 0]), output_name)

    return mask


def ORIG_spherical_shell_mask(mask_size, shell_thickness, radius=None, center=None, gaussian=0.0, output_name=None):
    mask_size = get_correct_format(mask_size)
    center = get_correct_format(center, reference_size=mask_size)

    if radius is None:
        radius = np.amin(mask_size) // 2

    shell_thickness = shell_thickness / 2

    sp1 = ORIG_spherical_mask(mask_size, radius=radius + shell_thickness, center=center)
    sp2 = ORIG_spherical_mask(mask_size, radius=radius - shell_thickness, center=center)

    shell_mask = sp1 - sp2

    shell_mask = postprocess(shell_mask, gaussian, np.asarray([0, 0, 0]), output_name)

    return shell_mask


def ORIG_cylindrical_mask(
    mask_size, radius=None, height=None, center=None, gaussian=0, gaussian_outwards=True, angles=None, output_name=None
):
    mask_size = get_correct_format(mask_size)
    center = get_correct_format(center, reference_size=mask_size)

    if radius is None:
        radius = np.amin(mask_size[:2]) // 2  # only x, y are relevant

    if height is None:
        height = mask_size[2]

    height = height // 2

    radius = preprocess_params(radius, gaussian, gaussian_outwards)
    height = preprocess_params(height, gaussian, gaussian_outwards)

    x, y = np.mgrid[0 : mask_size[0] : 1, 0 : mask_size[1] : 1]
    mask_xy = np.sqrt((x - center[0]) ** 2 + (y - center[1]) ** 2)
    mask_xy[mask_xy > radius] = 0
    mask_xy[mask_xy > 0] = 1
    mask_xy[center[0], center[1]] = 1

    mask = np.zeros(mask_size)
    mask[:, :, center[2] - height : center[2] + height + 1] = np.tile(mask_xy[:, :, None], (1, 1, height * 2 + 1))

    mask = postprocess(mask, gaussian, angles, output_name)

    return mask


def ORIG_ellipsoid_mask(
    mask_size, radii=None, center=None, gaussian=0, output_name=None, angles=None, gaussian_outwards=True
):
    mask_shape = get_correct_format(mask_size)
    center = get_correct_format(center, reference_size=mask_shape)
    radii = get_correct_format(radii, reference_size=mask_shape)

    radii = preprocess_params(radii, gaussian, gaussian_outwards)

    xi = tuple(np.linspace(1, s, s) - np.floor(0.5 * s) for s in mask_shape)

    xi = np.meshgrid(*xi, indexing="ij")
    points = np.array(xi).reshape(3, -1)[::-1]

    grid_center = 0.5 * mask_shape - center
    grid_center = np.tile(grid_center.reshape(3, 1), (1, points.shape[1]))

    points = points[:, ::-1]
    grid_center = grid_center[::-1]
    radii = radii[::-1]
    radii = np.tile(radii.reshape(3, 1), (1, points.shape[1]))

    ellipsoid = (points - grid_center) ** 2
    ellipsoid = ellipsoid / radii**2
    distance = np.sum(ellipsoid, axis=0).reshape(mask_shape)

    mask = distance <= 1

    mask = postprocess(mask, gaussian, angles, output_name)

    return mask


def ORIG_ellipsoid_shell_mask(mask_size, shell_thickness, radii, center=None, gaussian=0.0, angles=None, output_name=None):
    mask_size = get_correct_format(mask_size)
    center = get_correct_format(center, reference_size=mask_size)
    radii = get_correct_format(radii, reference_size=mask_size)

    shell_thickness = shell_thickness / 2

    e1 = ORIG_ellipsoid_mask(mask_size, radii=radii + shell_thickness, center=center)
    e2 = ORIG_ellipsoid_mask(mask_size, radii=radii - shell_thickness, center=center)

    shell_mask = e1 & ~e2

    shell_mask = postprocess(shell_mask, gaussian, angles, output_name)

    return shell_mask


def ORIG_union(mask_list, output_name=None):
    final_mask = np.zeros(cryomap.read(mask_list[0]).shape)

    for m in mask_list:
        mask = cryomap.read(m)
        final_mask += mask

    final_mask = np.clip(final_mask, 0.0, 1.0)

    write_out(final_mask, output_name)

    return final_mask


def ORIG_intersection(mask_list, output_name=None):
    final_mask = np.ones(cryomap.read(mask_list[0]).shape)

    for m in mask_list:
        mask = cryomap.read(m)
        final_mask *= mask

    final_mask = np.clip(final_mask, 0.0, 1.0)
    write_out(final_mask, output_name)

    return final_mask


def ORIG_subtraction(mask_list, output_name=None):
    # in floating point, like union and intersection: unsigned masks would wrap around at 0 - 1, boolean ones have no `-`
    final_mask = cryomap.read(mask_list[0]).astype(float)

    for m in mask_list[1:]:
        mask = cryomap.read(m)
        final_mask -= mask

    final_mask = np.clip(final_mask, 0.0, 1.0)
    write_out(final_mask, output_name)

    return final_mask


def ORIG_difference(mask_list, output_name=None):
    union_mask = ORIG_union(mask_list)
    inter_mask = ORIG_intersection(mask_list)

    final_mask = union_mask - inter_mask
    final_mask = np.clip(final_mask, 0.0, 1.0)
    write_out(final_mask, output_name)

    return final_mask


# ------------------------------------------------------------------------------------------------------------------
# helpers
# ------------------------------------------------------------------------------------------------------------------
def outcome(fn, *args, **kwargs):
    """Returns ("ok", value) or ("err", exception type)."""
    try:
        return "ok", fn(*args, **kwargs)
    except Exception as e:  # noqa
        return "err", type(e)


def same_outcome(o1, o2):
    if o1[0] != o2[0]:
        return False
    if o1[0] == "err":
        return o1[1] is o2[1]
    a, b = o1[1], o2[1]
    return a.shape == b.shape and a.dtype == b.dtype and np.array_equal(a, b, equal_nan=True)


def rand_box(even=False):
    if rng.random() < 0.15:
        s = int(rng.integers(6, 49))
        box = [s, s, s]
    else:
        box = [int(v) for v in rng.integers(6, 49, 3)]
    if even:
        box = [b + (b % 2) for b in box]
        box = [min(b, 48) for b in box]
    return box


def rand_center(box):
    u = rng.random()
    if u < 0.2:
        return None
    if u < 0.35:  # corners / faces
        return [int(rng.choice([0, b - 1])) for b in box]
    return [int(rng.integers(0, b)) for b in box]


def eff_center(box, center):
    return [b // 2 for b in box] if center is None else list(center)


def rand_radius(box):
    u = rng.random()
    if u < 0.1:
        return 1
    if u < 0.25:
        return int(max(box) + rng.integers(0, 8))  # beyond the box
    return int(rng.integers(1, max(box) // 2 + 3))


def sq_dist_int(box, c):
    i, j, k = np.indices(box)
    return (i - c[0]) ** 2, (j - c[1]) ** 2, (k - c[2]) ** 2


def sphere_oracle(box, c, r):
    """distance <= r, exact integer arithmetic for integer and half-integer r."""
    a, b, d = sq_dist_int(box, c)
    two_r = int(round(2 * r))
    assert abs(two_r - 2 * r) < 1e-12
    if two_r < 0:
        return np.zeros(box, dtype=bool)
    return 4 * (a + b + d) <= two_r * two_r


def cylinder_oracle(box, c, r, h):
    i, j, k = np.indices(box)
    planar = (i - c[0]) ** 2 + (j - c[1]) ** 2 <= r * r
    return planar & (np.abs(k - c[2]) <= h // 2)


def ellipsoid_oracle(box, c, radii):
    """Exact rational test of sum(((i-c)/r)^2) <= 1.  Returns (inside, tie) with python-int arithmetic through
    object free int64 (values stay far below 2**62 for boxes <= 48 and radii <= 60)."""
    a, b, d = sq_dist_int(box, c)
    rx, ry, rz = [int(v) ** 2 for v in radii]
    lhs = a * (ry * rz) + b * (rx * rz) + d * (rx * ry)
    rhs = rx * ry * rz
    return lhs <= rhs, lhs == rhs


def in_unit_range(m, eps=1e-9):
    return bool(np.all(np.isfinite(m)) and m.min() >= -eps and m.max() <= 1 + eps)


GAUSS = [0, 0.0, 0.5, 1, 1.7, 2.5, 3]


# ------------------------------------------------------------------------------------------------------------------
# spheres and spherical shells
# ------------------------------------------------------------------------------------------------------------------
def test_spheres(n):
    for it in range(n):
        box = rand_box()
        center = rand_center(box)
        c = eff_center(box, center)
        r = rand_radius(box)
        if rng.random() < 0.2:
            r = r + 0.5
        size_arg = box if rng.random() < 0.8 else np.asarray(box)
        m = cm.spherical_mask(size_arg, radius=r, center=center)
        tag = f"sphere box={box} center={center} r={r}"
        check(m.shape == tuple(box) and m.dtype == np.float64, tag + " shape/dtype")
        check(np.array_equal(m, sphere_oracle(box, c, r).astype(float)), tag + " != oracle")
        o = ORIG_spherical_mask(box, radius=r, center=center)
        check(m.dtype == o.dtype and np.array_equal(m, o), tag + " != original")
        check(np.array_equal(m, cm.spherical_mask(size_arg, radius=r, center=center)), tag + " repeated call")
        # non-special float radius (never a tie because the squared distance is an integer)
        rf = float(rng.uniform(1.0, max(box)))
        if abs(rf * rf - round(rf * rf)) > 1e-6:
            a, b, d = sq_dist_int(box, c)
            mf = cm.spherical_mask(box, radius=rf, center=center)
            check(np.array_equal(mf, ((a + b + d) <= rf * rf).astype(float)), tag + f" float radius {rf}")
            check(np.array_equal(mf, ORIG_spherical_mask(box, radius=rf, center=center)), tag + f" rf={rf} != orig")
    # cubic via scalar size, default radius and centre
    for s in [6, 7, 8, 15, 32, 47, 48]:
        m = cm.spherical_mask(s)
        check(np.array_equal(m, sphere_oracle([s] * 3, [s // 2] * 3, s // 2).astype(float)), f"sphere default s={s}")
        check(np.array_equal(m, ORIG_spherical_mask(s)), f"sphere default s={s} != original")
        m = cm.spherical_mask([s, s + 3, 2 * s - 5 if 2 * s - 5 >= 6 else 6])
        b = [s, s + 3, 2 * s - 5 if 2 * s - 5 >= 6 else 6]
        check(
            np.array_equal(m, sphere_oracle(b, [v // 2 for v in b], min(b) // 2).astype(float)),
            f"sphere default noncubic {b}",
        )


def test_sphere_shells(n):
    for it in range(n):
        box = rand_box()
        center = rand_center(box)
        c = eff_center(box, center)
        r = rand_radius(box)
        t = int(rng.integers(1, 9))
        m = cm.spherical_shell_mask(box, t, radius=r, center=center)
        tag = f"s_shell box={box} center={center} r={r} t={t}"
        outer = cm.spherical_mask(box, radius=r + t / 2, center=c)
        inner = cm.spherical_mask(box, radius=r - t / 2, center=c)
        check(np.array_equal(m, outer - inner), tag + " != outer - inner")
        if r - t / 2 >= 0:
            exp = sphere_oracle(box, c, r + t / 2) & ~sphere_oracle(box, c, r - t / 2)
            check(np.array_equal(m, exp.astype(float)), tag + " != oracle")
        check(np.array_equal(m, ORIG_spherical_shell_mask(box, t, radius=r, center=center)), tag + " != original")
        check(in_unit_range(m), tag + " range")
    m = cm.spherical_shell_mask(20, 3)
    check(np.array_equal(m, ORIG_spherical_shell_mask(20, 3)), "s_shell default radius")


# ------------------------------------------------------------------------------------------------------------------
# cylinders
# ------------------------------------------------------------------------------------------------------------------
def test_cylinders(n):
    for it in range(n):
        box = rand_box()
        center = rand_center(box)
        c = eff_center(box, center)
        r = rand_radius(box)
        u = rng.random()
        if u < 0.6:  # height that fits
            hmax = 2 * min(c[2], box[2] - 1 - c[2]) + 1
            h = int(rng.integers(1, hmax + 1))
        elif u < 0.8:
            h = int(rng.integers(1, box[2] + 10))
        else:
            h = 1
        tag = f"cylinder box={box} center={center} r={r} h={h}"
        got = outcome(cm.cylindrical_mask, box, radius=r, height=h, center=center)
        org = outcome(ORIG_cylindrical_mask, box, radius=r, height=h, center=center)
        check(same_outcome(got, org), tag + f" outcome differs from original ({got[0]} vs {org[0]})")
        fits = c[2] - h // 2 >= 0 and c[2] + h // 2 <= box[2] - 1
        if fits:
            check(got[0] == "ok", tag + " raised although the slab fits")
            if got[0] == "ok":
                m = got[1]
                check(m.dtype == np.float64, tag + " dtype")
                check(np.array_equal(m, cylinder_oracle(box, c, r, h).astype(float)), tag + " != oracle")
    for b in [[9, 12, 7], [16, 10, 21], [31, 31, 31]]:
        got = outcome(cm.cylindrical_mask, b)
        org = outcome(ORIG_cylindrical_mask, b)
        check(same_outcome(got, org), f"cylinder defaults {b}")
        if got[0] == "ok":
            c = [v // 2 for v in b]
            check(np.array_equal(got[1], cylinder_oracle(b, c, min(b[:2]) // 2, b[2]).astype(float)), f"cyl default {b}")


# ------------------------------------------------------------------------------------------------------------------
# ellipsoids and ellipsoid shells (even boxes)
# ------------------------------------------------------------------------------------------------------------------
def test_ellipsoids(n):
    for it in range(n):
        box = rand_box(even=True)
        center = rand_center(box)
        c = eff_center(box, center)
        if rng.random() < 0.2:
            rr = int(rng.integers(1, 30))
            radii = [rr, rr, rr]
        else:
            radii = [rand_radius(box) for _ in range(3)]
        tag = f"ellipsoid box={box} center={center} radii={radii}"
        m = cm.ellipsoid_mask(box, radii=radii, center=center)
        o = ORIG_ellipsoid_mask(box, radii=radii, center=center)
        check(m.shape == tuple(box) and m.dtype == o.dtype == np.bool_, tag + " shape/dtype")
        check(np.array_equal(m, o), tag + " != original")
        inside, tie = ellipsoid_oracle(box, c, radii)
        check(np.array_equal(m[~tie], inside[~tie]), tag + " != oracle away from exact ties")
        # ties where every term is a dyadic rational are exact in floating point as well
        a, b, d = sq_dist_int(box, c)
        exact_tie = tie & ((a == 0).astype(int) + (b == 0).astype(int) + (d == 0).astype(int) >= 2)
        check(bool(np.all(m[exact_tie])), tag + " axis-end voxels (distance exactly 1) must be inside")
        check(np.array_equal(m, cm.ellipsoid_mask(np.asarray(box), radii=np.asarray(radii), center=center)), tag + " rep")
    # odd / mixed boxes and degenerate radii: only the comparison with the original
    for it in range(max(20, n // 5)):
        box = rand_box()
        center = rand_center(box)
        radii = [int(rng.integers(0, 30)) for _ in range(3)]
        got = outcome(cm.ellipsoid_mask, box, radii=radii, center=center)
        org = outcome(ORIG_ellipsoid_mask, box, radii=radii, center=center)
        check(same_outcome(got, org), f"ellipsoid (any box) box={box} center={center} radii={radii} != original")
    for b in [[8, 12, 16], 10, [48, 6, 20]]:
        check(np.array_equal(cm.ellipsoid_mask(b), ORIG_ellipsoid_mask(b)), f"ellipsoid default radii {b}")
    check(np.array_equal(cm.ellipsoid_mask(12, radii=4), ORIG_ellipsoid_mask(12, radii=4)), "ellipsoid scalar radii")
    check(
        np.array_equal(cm.ellipsoid_mask(12, radii=4), sphere_oracle([12] * 3, [6] * 3, 4)), "ellipsoid r=4 is a sphere"
    )


def test_ellipsoid_shells(n):
    for it in range(n):
        box = rand_box(even=True)
        center = rand_center(box)
        c = eff_center(box, center)
        radii = [rand_radius(box) for _ in range(3)]
        t = int(rng.integers(1, 9))
        tag = f"e_shell box={box} center={center} radii={radii} t={t}"
        m = cm.ellipsoid_shell_mask(box, t, radii, center=center)
        outer = cm.ellipsoid_mask(box, radii=np.asarray(radii) + t / 2, center=c)
        inner = cm.ellipsoid_mask(box, radii=np.asarray(radii) - t / 2, center=c)
        check(np.array_equal(m, outer & ~inner), tag + " != outer minus inner")
        check(np.array_equal(m, ORIG_ellipsoid_shell_mask(box, t, radii, center=center)), tag + " != original")
        check(in_unit_range(m.astype(float)), tag + " range")


# ------------------------------------------------------------------------------------------------------------------
# name based generator
# ------------------------------------------------------------------------------------------------------------------
def test_generate(n):
    for it in range(n):
        r = int(rng.integers(1, 20))
        h = int(rng.integers(1, 2 * r + 3))
        t = int(rng.integers(1, 7))
        rx, ry, rz = [int(v) for v in rng.integers(1, 20, 3)]
        size = None if rng.random() < 0.5 else int(rng.integers(3, 25)) * 2
        auto = lambda specs: int(np.ceil((2 * max(specs) + 4) / 2) * 2)  # noqa

        s = size if size is not None else auto([r])
        m = cm.generate_mask(f"sphere_r{r}", mask_size=size)
        check(np.array_equal(m, sphere_oracle([s] * 3, [s // 2] * 3, r).astype(float)), f"generate sphere r={r} s={size}")
        check(np.array_equal(m, ORIG_spherical_mask(s, radius=r)), f"generate sphere r={r} s={size} != orig")

        s = size if size is not None else auto([r, h])
        got = outcome(cm.generate_mask, f"cylinder_r{r}_h{h}", mask_size=size)
        org = outcome(ORIG_cylindrical_mask, s, radius=r, height=h)
        check(same_outcome(got, org), f"generate cylinder r={r} h={h} s={size}")
        if got[0] == "ok":
            check(
                np.array_equal(got[1], cylinder_oracle([s] * 3, [s // 2] * 3, r, h).astype(float)),
                f"generate cylinder r={r} h={h} s={size} != oracle",
            )

        s = size if size is not None else auto([r, t])
        s = int(np.ceil((s + t) / 2) * 2)
        m = cm.generate_mask(f"s_shell_r{r}_s{t}", mask_size=size)
        check(np.array_equal(m, ORIG_spherical_shell_mask(s, t, radius=r)), f"generate s_shell r={r} t={t} s={size}")
        if r - t / 2 >= 0:
            exp = sphere_oracle([s] * 3, [s // 2] * 3, r + t / 2) & ~sphere_oracle([s] * 3, [s // 2] * 3, r - t / 2)
            check(np.array_equal(m, exp.astype(float)), f"generate s_shell r={r} t={t} s={size} != oracle")

        s = size if size is not None else auto([rx, ry, rz])
        m = cm.generate_mask(f"ellipsoid_rx{rx}_ry{ry}_rz{rz}", mask_size=size)
        check(np.array_equal(m, ORIG_ellipsoid_mask(s, radii=[rx, ry, rz])), f"generate ellipsoid {rx},{ry},{rz} s={size}")
        inside, tie = ellipsoid_oracle([s] * 3, [s // 2] * 3, [rx, ry, rz])
        check(np.array_equal(m[~tie], inside[~tie]), f"generate ellipsoid {rx},{ry},{rz} s={size} != oracle")

        s = size if size is not None else auto([rx, ry, rz, t])
        m = cm.generate_mask(f"e_shell_rx{rx}_ry{ry}_rz{rz}_s{t}", mask_size=size)
        check(
            np.array_equal(m, ORIG_ellipsoid_shell_mask(s, t, [rx, ry, rz])),
            f"generate e_shell {rx},{ry},{rz} t={t} s={size}",
        )
    check(outcome(cm.generate_mask, "cube_r3")[1] is ValueError, "unknown shape must raise ValueError")


# ------------------------------------------------------------------------------------------------------------------
# soft edges
# ------------------------------------------------------------------------------------------------------------------
def test_soft(n):
    for it in range(n):
        g = GAUSS[int(rng.integers(0, len(GAUSS)))]
        outwards = bool(rng.integers(0, 2))
        # sphere
        box = rand_box()
        center = rand_center(box)
        c = eff_center(box, center)
        r = rand_radius(box)
        m = cm.spherical_mask(box, radius=r, center=center, gaussian=g, gaussian_outwards=outwards)
        tag = f"soft sphere box={box} center={center} r={r} g={g} out={outwards}"
        check(in_unit_range(m), tag + " range")
        if outwards:
            check(bool(np.all(m[sphere_oracle(box, c, r)] >= 1 - 1e-3)), tag + " core not 1")
        o = ORIG_spherical_mask(box, radius=r, center=center, gaussian=g, gaussian_outwards=outwards)
        check(np.array_equal(m, o), tag + " != original")
        # shell (always central blur)
        t = int(rng.integers(1, 7))
        ms = cm.spherical_shell_mask(box, t, radius=r, center=center, gaussian=g)
        check(in_unit_range(ms), tag + " shell range")
        check(np.array_equal(ms, ORIG_spherical_shell_mask(box, t, radius=r, center=center, gaussian=g)), tag + " shell")
        # ellipsoid
        box = rand_box(even=True)
        center = rand_center(box)
        c = eff_center(box, center)
        radii = [rand_radius(box) for _ in range(3)]
        m = cm.ellipsoid_mask(box, radii=radii, center=center, gaussian=g, gaussian_outwards=outwards)
        tag = f"soft ellipsoid box={box} center={center} radii={radii} g={g} out={outwards}"
        check(in_unit_range(m.astype(float)), tag + " range")
        if outwards:
            inside, tie = ellipsoid_oracle(box, c, radii)
            check(bool(np.all(m[inside & ~tie] >= 1 - 1e-3)), tag + " core not 1")
        o = ORIG_ellipsoid_mask(box, radii=radii, center=center, gaussian=g, gaussian_outwards=outwards)
        check(m.dtype == o.dtype and np.array_equal(m, o), tag + " != original")
        me = cm.ellipsoid_shell_mask(box, t, radii, center=center, gaussian=g)
        check(in_unit_range(me.astype(float)), tag + " shell range")
        check(np.array_equal(me, ORIG_ellipsoid_shell_mask(box, t, radii, center=center, gaussian=g)), tag + " shell")
        # cylinder: keep the (enlarged) slab inside the box, otherwise only compare the outcome with the original
        box = rand_box()
        c = [int(rng.integers(0, b)) for b in box]
        r = rand_radius(box)
        h = int(rng.integers(1, 8))
        got = outcome(cm.cylindrical_mask, box, radius=r, height=h, center=c, gaussian=g, gaussian_outwards=outwards)
        org = outcome(ORIG_cylindrical_mask, box, radius=r, height=h, center=c, gaussian=g, gaussian_outwards=outwards)
        tag = f"soft cylinder box={box} center={c} r={r} h={h} g={g} out={outwards}"
        check(same_outcome(got, org), tag + " != original")
        if got[0] == "ok":
            check(in_unit_range(got[1]), tag + " range")
            if outwards:
                check(bool(np.all(got[1][cylinder_oracle(box, c, r, h)] >= 1 - 1e-3)), tag + " core not 1")


# ------------------------------------------------------------------------------------------------------------------
# set algebra
# ------------------------------------------------------------------------------------------------------------------
def random_binary(box, dtype=float):
    u = rng.random()
    if u < 0.5:
        m = rng.random(box) < rng.uniform(0.05, 0.95)
    elif u < 0.7:
        m = sphere_oracle(box, [int(rng.integers(0, b)) for b in box], int(rng.integers(1, max(box))))
    elif u < 0.8:
        m = np.zeros(box, dtype=bool)
    elif u < 0.9:
        m = np.ones(box, dtype=bool)
    else:
        m = rng.random(box) < 0.5
    return m.astype(dtype)


def random_soft(box):
    u = rng.random()
    if u < 0.5:
        return rng.random(box)
    if u < 0.8:
        return cm.add_gaussian(random_binary(box), float(rng.uniform(0.5, 3)))
    return np.round(rng.random(box), 1)  # many exact 0.0 / 1.0 and repeated values


OPS = ["union", "intersection", "subtraction", "difference"]
ORIG_OPS = {"union": ORIG_union, "intersection": ORIG_intersection, "subtraction": ORIG_subtraction, "difference": ORIG_difference}


def test_algebra(n):
    for it in range(n):
        box = rand_box()
        if rng.random() < 0.5:
            box = [max(6, b // 2) for b in box]
        k = int(rng.integers(1, 6))
        binary = rng.random() < 0.6
        masks = [random_binary(box) if binary else random_soft(box) for _ in range(k)]
        if rng.random() < 0.2 and k > 1:
            masks[-1] = masks[0]  # the same object twice
        if rng.random() < 0.15:
            masks[0] = np.asfortranarray(masks[0])
        if rng.random() < 0.15 and k > 1:
            masks[1] = masks[1].astype(np.float32)
        backup = [m.copy() for m in masks]
        container = masks if rng.random() < 0.7 else tuple(masks)
        res = {}
        for op in OPS:
            r1 = getattr(cm, op)(container)
            r2 = getattr(cm, op)(container)
            ro = ORIG_OPS[op](container)
            tag = f"{op} box={box} k={k} binary={binary}"
            check(all(np.array_equal(a, b) and a.dtype == b.dtype for a, b in zip(masks, backup)), tag + " mutated input")
            check(r1.shape == tuple(box), tag + " shape")
            check(r1.dtype == ro.dtype and np.array_equal(r1, ro), tag + " != original")
            check(np.array_equal(r1, r2), tag + " repeated call differs")
            check(in_unit_range(r1, eps=0.0), tag + " outside [0,1]")
            check(not any(np.shares_memory(r1, m) for m in masks), tag + " result aliases an input")
            res[op] = r1
        if binary:
            bm = [m.astype(bool) for m in backup]
            any_ = np.logical_or.reduce(bm)
            all_ = np.logical_and.reduce(bm)
            rest = np.logical_or.reduce(bm[1:]) if k > 1 else np.zeros(box, dtype=bool)
            check(np.array_equal(res["union"], any_.astype(float)), f"union != OR box={box} k={k}")
            check(np.array_equal(res["intersection"], all_.astype(float)), f"intersection != AND box={box} k={k}")
            check(np.array_equal(res["subtraction"], (bm[0] & ~rest).astype(float)), f"subtraction != AND-NOT {box} {k}")
            check(np.array_equal(res["difference"], (any_ & ~all_).astype(float)), f"difference != XOR box={box} k={k}")
            if k == 2:
                check(np.array_equal(res["difference"], (bm[0] ^ bm[1]).astype(float)), f"difference != XOR (2) {box}")
    # other dtypes: whatever the original did (value or exception type), the current code must do the same
    for dtype in [bool, np.int8, np.int64, np.float32, np.uint8]:
        for k in [1, 2, 3]:
            box = [7, 9, 6]
            masks = [random_binary(box, dtype=dtype) for _ in range(k)]
            backup = [m.copy() for m in masks]
            for op in OPS:
                got = outcome(getattr(cm, op), masks)
                org = outcome(ORIG_OPS[op], masks)
                check(same_outcome(got, org), f"{op} dtype={np.dtype(dtype)} k={k} outcome differs from original")
                check(all(np.array_equal(a, b) and a.dtype == b.dtype for a, b in zip(masks, backup)), f"{op} {dtype} mutated")
    # mixed float32 first mask
    masks = [random_binary([8, 6, 10]).astype(np.float32), random_soft([8, 6, 10]), random_binary([8, 6, 10])]
    for op in OPS:
        check(same_outcome(outcome(getattr(cm, op), masks), outcome(ORIG_OPS[op], masks)), f"{op} mixed f32/f64")
    # error paths stay the same
    for op in OPS:
        check(same_outcome(outcome(getattr(cm, op), []), outcome(ORIG_OPS[op], [])), f"{op} empty list")
        bad = [np.ones((4, 4, 4)), np.ones((5, 4, 4))]
        check(same_outcome(outcome(getattr(cm, op), bad), outcome(ORIG_OPS[op], bad)), f"{op} shape mismatch")
        bad = [np.ones((4, 4, 4)), 3]
        check(same_outcome(outcome(getattr(cm, op), bad), outcome(ORIG_OPS[op], bad)), f"{op} invalid entry")
    # files (paths and arrays mixed) and output_name
    with tempfile.TemporaryDirectory() as td:
        box = [10, 8, 12]
        arrs = [random_binary(box) for _ in range(3)]
        p_mrc = os.path.join(td, "m0.mrc")
        p_em = os.path.join(td, "m1.em")
        cryomap.write(arrs[0], p_mrc, data_type=np.single)
        cryomap.write(arrs[1], p_em, data_type=np.single)
        mixed = [p_mrc, p_em, arrs[2]]
        for op in OPS:
            out = os.path.join(td, f"out_{op}.mrc")
            got = getattr(cm, op)(mixed, output_name=out)
            exp = getattr(cm, op)(arrs)
            check(np.array_equal(got, exp), f"{op} with file paths")
            check(np.array_equal(got, ORIG_OPS[op](mixed)), f"{op} with file paths != original")
            check(os.path.isfile(out) and np.array_equal(cryomap.read(out), got.astype(np.single)), f"{op} written file")
            check(np.array_equal(cryomap.read(p_mrc), arrs[0]) and np.array_equal(cryomap.read(p_em), arrs[1]), f"{op} files changed")


# ------------------------------------------------------------------------------------------------------------------
def count(group):
    return N_FOCUS if group == FOCUS else N_BASE


if __name__ == "__main__":
    test_spheres(count("sphere"))
    test_sphere_shells(count("sphere"))
    test_cylinders(count("sphere"))
    test_ellipsoids(count("ellipsoid"))
    test_ellipsoid_shells(count("ellipsoid"))
    test_generate(60)
    test_soft(60 if FOCUS == "algebra" else 100)
    test_algebra(count("algebra"))
    if failures:
        print(f"FAIL ({len(failures)} failed checks)")
        sys.exit(1)
    print("PASS")
    sys.exit(0)
