"""C04, change b: the STOPGAP <-> cryoCAT conversion stays a lossless renaming with parity half-sets.

Run as:  cd /tmp/wt13/C04 && /venv/bin/python /tmp/seedsW/C04/b/demo.py

Three parts
  1. the property against an independent computation (own STAR parser, own half-up rounding, own renaming table),
     for many particle lists x reset_index x in-memory / via-file x update_coord,
  2. the functions of the tree (patched or not) against the ORIGINAL function texts kept below, on the same inputs,
  3. the caller's tables are left untouched and repeated calls give the same answer.
"""
import sys, os

sys.path.insert(0, os.getcwd())

import copy
import math
import shutil
import tempfile
import warnings

warnings.simplefilter("ignore")

import numpy as np
import pandas as pd

from cryocat import cryomotl, starfileio
from cryocat.cryomotl import Motl, StopgapMotl, EmMotl
from cryocat.exceptions import UserInputError

# ----------------------------------------------------------------------------------------------------------------------
# independent statement of the documented renaming (written down by hand, NOT taken from StopgapMotl.pairs)
RENAME = [
    ("score", "score"),
    ("subtomo_id", "subtomo_num"),
    ("tomo_id", "tomo_num"),
    ("object_id", "object"),
    ("x", "orig_x"),
    ("y", "orig_y"),
    ("z", "orig_z"),
    ("shift_x", "x_shift"),
    ("shift_y", "y_shift"),
    ("shift_z", "z_shift"),
    ("phi", "phi"),
    ("psi", "psi"),
    ("theta", "the"),
    ("class", "class"),
]
SG_COLUMNS = ["motl_idx", "tomo_num", "object", "subtomo_num", "halfset", "orig_x", "orig_y", "orig_z", "score",
              "x_shift", "y_shift", "z_shift", "phi", "psi", "the", "class"]
MOTL_COLUMNS = ["score", "geom1", "geom2", "subtomo_id", "tomo_id", "object_id", "subtomo_mean", "x", "y", "z",
                "shift_x", "shift_y", "shift_z", "geom3", "geom4", "geom5", "phi", "psi", "theta", "class"]
assert len(RENAME) == 14

# ----------------------------------------------------------------------------------------------------------------------
# ORIGINAL function texts (HEAD b1093bd) of the reader, executed in the namespace of cryocat.starfileio.
# OrigToken is the Token class with the original parse_rows / lookahead; orig_read is the original Starfile.read
# bound to OrigToken, so the reference reader does not run a single line of the tree's versions of these functions.
ORIGINAL_TOKEN_SRC = """
class OrigToken(Token):
    @staticmethod
    def parse_rows(tokens, columns):
        comments = Token.parse_newline_or_comments(tokens)
        end = False
        rows = []
        while not end:
            data = []
            for i in range(len(columns)):
                token = Token.check_then_consume(tokens, TokenType.LITERAL)
                if token is None:
                    end = True
                    break
                else:
                    data.append(token.value)
            else:
                Token.consume(tokens, TokenType.NEWLINE)
                rows.append(data)
        return comments, pd.DataFrame(rows, columns=columns)

    @staticmethod
    def lookahead(tokens, token_type_target, ignores):
        ignores = set(ignores)
        for i in range(len(tokens) - 1, -1, -1):
            if tokens[i].token_type == token_type_target:
                return True
            elif tokens[i].token_type in ignores:
                continue
            else:
                break
        return False
"""
ORIGINAL_READ_SRC = """
def orig_read(file_path, data_id=None):
    with open(file_path, mode="r") as file:
        raw_starfile = file.read()

    tokens = Token.tokenize(raw_starfile)
    frames = []
    comments = []
    specifiers = []
    while Token.lookahead(tokens, TokenType.LITERAL, [TokenType.NEWLINE, TokenType.COMMENT]):
        specifier_comments, specifier = Token.parse_specifier(tokens)
        column_comments, columns = Token.parse_columns(tokens)
        rows_comments, data = Token.parse_rows(tokens, columns)
        comments.append(specifier_comments + column_comments + rows_comments)
        specifiers.append(specifier)
        frames.append(data)
    Token.parse_newline_or_comments(tokens)
    if len(tokens) > 0:
        raise IOError(f"Expected a specifier or an end of token but got {tokens[0].token_type}")

    def to_numeric_if_possible(column):
        try:
            return pd.to_numeric(column)
        except (ValueError, TypeError):
            return column

    for i, f in enumerate(frames):
        frames[i] = f.apply(to_numeric_if_possible)

    if data_id is not None:
        return frames[data_id], specifiers[data_id], comments[data_id]
    else:
        return frames, specifiers, comments
"""
_ns1 = dict(starfileio.__dict__)
exec(ORIGINAL_TOKEN_SRC, _ns1)
OrigToken = _ns1["OrigToken"]
_ns2 = dict(starfileio.__dict__)
_ns2["Token"] = OrigToken  # every Token.xxx inside orig_read resolves to the original parse_rows / lookahead
exec(ORIGINAL_READ_SRC, _ns2)
orig_read = _ns2["orig_read"]
TokenType = starfileio.TokenType


def outcome(fn, *args):
    try:
        return ("ok", fn(*args))
    except Exception as e:  # noqa
        return ("err", type(e), str(e))


def same_read(path, tag, data_id=None):
    """Starfile.read of the tree against the original reader on one file; returns the tree's outcome"""
    args = (path,) if data_id is None else (path, data_id)
    a = outcome(starfileio.Starfile.read, *args)
    b = outcome(orig_read, *args)
    check(a[0] == b[0], tag + f": outcome kind {a[0]} vs {b[0]}")
    if a[0] == "err":
        check(a[1:] == b[1:], tag + f": errors differ {a[1:]} vs {b[1:]}")
        return a
    if data_id is None:
        fa, sa, ca = a[1]
        fb, sb, cb = b[1]
        check(isinstance(fa, list) and isinstance(sa, list) and isinstance(ca, list), tag + ": list results")
        check(sa == sb, tag + ": specifiers")
        check(ca == cb, tag + ": comments")
        check(len(fa) == len(fb), tag + ": number of blocks")
        for k, (x, y) in enumerate(zip(fa, fb)):
            same_frame(x, y, tag + f": block {k}")
    else:
        same_frame(a[1][0], b[1][0], tag + ": selected block")
        check(a[1][1:] == b[1][1:], tag + ": selected specifier / comments")
    return a


# ----------------------------------------------------------------------------------------------------------------------
CHECKS = 0


def check(cond, msg):
    global CHECKS
    CHECKS += 1
    if not cond:
        print("FAIL:", msg)
        sys.exit(1)


def same_frame(a, b, msg):
    """exact equality: values, dtypes, column order, index"""
    check(list(a.columns) == list(b.columns), msg + ": columns differ")
    check(a.index.equals(b.index) and type(a.index) is type(b.index), msg + ": index differs")
    check(list(a.dtypes.astype(str)) == list(b.dtypes.astype(str)), msg + f": dtypes differ")
    for c in a.columns:
        x, y = a[c].to_numpy(), b[c].to_numpy()
        if x.dtype.kind == "f":
            ok = np.array_equal(x, y, equal_nan=True) and np.array_equal(np.signbit(x), np.signbit(y))
        else:
            ok = all(p == q for p, q in zip(x.tolist(), y.tolist())) and len(x) == len(y)
        check(ok, msg + f": values differ in column {c}")


def snapshot(df):
    return df.copy(deep=True), [id(df[c]) is not None for c in df.columns]


def untouched(df, snap, msg):
    same_frame(df, snap[0], msg + " (caller's table changed)")


# ----------------------------------------------------------------------------------------------------------------------
# inputs
def make_motl(rng, n, kind, int_ids):
    """A particle list with n particles: arbitrary finite values, non-sequential subtomogram numbers, several
    tomograms / objects of different sizes."""
    if kind == "uniform":
        data = rng.uniform(-1000.0, 1000.0, size=(n, 20))
    elif kind == "large":
        data = rng.uniform(-1.0e6, 1.0e6, size=(n, 20))
    elif kind == "small":
        data = rng.normal(0.0, 1.0e-3, size=(n, 20))
    elif kind == "integers":
        data = rng.integers(-500, 500, size=(n, 20)).astype(float)
    elif kind == "halves":  # x + shift exactly on .5 -> half-up rounding matters for update_coord
        data = rng.integers(-50, 50, size=(n, 20)).astype(float)
    elif kind == "zeros":
        data = np.zeros((n, 20))
    else:
        raise ValueError(kind)
    df = pd.DataFrame(data, columns=MOTL_COLUMNS)
    if kind == "halves":
        for s in ("shift_x", "shift_y", "shift_z"):
            df[s] = rng.choice([-1.5, -0.5, 0.5, 1.5, 2.5, 0.25, -0.75], size=n)
    # non-sequential, unsorted, unique subtomogram numbers of both parities
    sub = rng.choice(np.arange(1, 20 * n + 50), size=n, replace=False)
    if kind == "zeros":
        sub = np.arange(2, 2 * n + 2, 2)[::-1].copy()  # all even -> one half-set only
    n_tomo = int(rng.integers(1, 6))
    tomo = np.sort(rng.choice(np.arange(1, 400), size=n_tomo, replace=False)[rng.integers(0, n_tomo, size=n)])
    obj = rng.integers(1, 9, size=n)
    cls = rng.integers(1, 5, size=n)
    if int_ids:
        df["subtomo_id"] = sub.astype(np.int64)
        df["tomo_id"] = tomo.astype(np.int64)
        df["object_id"] = obj.astype(np.int64)
        df["class"] = cls.astype(np.int64)
    else:
        df["subtomo_id"] = sub.astype(float)
        df["tomo_id"] = tomo.astype(float)
        df["object_id"] = obj.astype(float)
        df["class"] = cls.astype(float)
    return df


def half_up(v):
    """round half away from zero, independent of decimal"""
    r = math.floor(abs(v) + 0.5)
    return -float(r) if v < 0 else float(r)


def expected_fields(df, update_coord):
    """the 14 shared fields under STOPGAP names as plain float lists, in particle order"""
    exp = {sg: [float(v) for v in df[em].tolist()] for em, sg in RENAME}
    if update_coord:
        for pos, sh in (("orig_x", "x_shift"), ("orig_y", "y_shift"), ("orig_z", "z_shift")):
            total = [p + s for p, s in zip(exp[pos], exp[sh])]
            exp[pos] = [half_up(t) for t in total]
            exp[sh] = [t - r for t, r in zip(total, exp[pos])]
    return exp


def parse_star_independently(path):
    """minimal reader for the written file: returns (column names, list of rows of strings)"""
    with open(path) as f:
        lines = [ln.strip() for ln in f.read().split("\n")]
    lines = [ln for ln in lines if ln != "" and not ln.startswith("#")]
    check(lines[0] == "data_stopgap_motivelist", "file: specifier")
    check(lines[1] == "loop_", "file: loop_")
    names, k = [], 2
    while k < len(lines) and lines[k].startswith("_"):
        names.append(lines[k][1:].split()[0])
        k += 1
    rows = [ln.split() for ln in lines[k:]]
    return names, rows


TOL = 0.5e-6 + 1e-9  # values are rounded to 6 decimals when written


def close(a, b):
    return abs(a - b) <= TOL + 1e-12 * max(abs(a), abs(b))


# ----------------------------------------------------------------------------------------------------------------------
def property_in_memory(df, reset_index, tag):
    snap = snapshot(df)
    sg = StopgapMotl.convert_to_sg_motl(df, reset_index)
    untouched(df, snap, tag)
    n = df.shape[0]
    check(list(sg.columns) == SG_COLUMNS, tag + ": STOPGAP column order")
    check(sg.shape == (n, 16), tag + ": shape")
    exp = expected_fields(df, False)
    for em, name in RENAME:
        got = sg[name].tolist()
        check(len(got) == n and all(float(g) == e for g, e in zip(got, exp[name])), tag + f": field {em}->{name}")
        check(str(sg[name].dtype) == str(df[em].dtype), tag + f": dtype of {name}")
    sub = [int(v) for v in df["subtomo_id"].tolist()]
    check(sg["halfset"].tolist() == ["A" if s % 2 == 0 else "B" for s in sub], tag + ": halfset parity")
    want_idx = list(range(1, n + 1)) if reset_index else sub
    check([float(v) for v in sg["motl_idx"].tolist()] == [float(v) for v in want_idx], tag + ": motl_idx")

    ref = StopgapMotl.convert_to_sg_motl(df, reset_index)
    untouched(df, snap, tag + " (second call)")
    same_frame(sg, ref, tag + ": repeated conversion")
    # repeated call on the same object
    same_frame(StopgapMotl.convert_to_sg_motl(df, reset_index), ref, tag + ": second call")
    # the output is a fresh table: writing into it leaves the input alone
    sg.loc[:, "phi"] = -12345.0
    sg["halfset"] = "X"
    untouched(df, snap, tag + " after writing to the result")

    # constructor / emmotl2stopgap keep the 14 fields in the cryoCAT table (in-memory path)
    for m in (StopgapMotl(df), cryomotl.emmotl2stopgap(df, reset_index=reset_index)):
        untouched(df, snap, tag + " constructor")
        for em, name in RENAME:
            check([float(v) for v in m.df[em].tolist()] == exp[name], tag + f": StopgapMotl(df).df[{em}]")
        same_frame(StopgapMotl.convert_to_sg_motl(m.df, reset_index), ref, tag + ": via object")


def property_via_file(df, reset_index, update_coord, workdir, tag, through_function):
    snap = snapshot(df)
    n = df.shape[0]
    path = os.path.join(workdir, "out.star")
    if os.path.exists(path):
        os.remove(path)
    if through_function:
        # emmotl2stopgap applies the coordinate update itself and writes with update_coord=False
        m = cryomotl.emmotl2stopgap(df, path, update_coordinates=update_coord, reset_index=reset_index)
    else:
        m = StopgapMotl(df)
        m.write_out(path, update_coord=update_coord, reset_index=reset_index)
    untouched(df, snap, tag)
    exp = expected_fields(df, update_coord)
    sub = [int(v) for v in df["subtomo_id"].tolist()]

    # (i) the file itself, parsed independently
    names, rows = parse_star_independently(path)
    check(names == SG_COLUMNS, tag + ": file columns")
    check(len(rows) == n and all(len(r) == 16 for r in rows), tag + ": file rows")
    for em, name in RENAME:
        j = names.index(name)
        check(all(close(float(r[j]), e) for r, e in zip(rows, exp[name])), tag + f": file field {name}")
    j = names.index("halfset")
    check([r[j] for r in rows] == ["A" if s % 2 == 0 else "B" for s in sub], tag + ": file halfset")
    j = names.index("motl_idx")
    want_idx = list(range(1, n + 1)) if reset_index else sub
    check([float(r[j]) for r in rows] == [float(v) for v in want_idx], tag + ": file motl_idx")

    # (ii) loaded back
    back = StopgapMotl(path)
    check(back.df.shape[0] == n, tag + ": loaded length")
    for em, name in RENAME:
        check(all(close(float(g), e) for g, e in zip(back.df[em].tolist(), exp[name])), tag + f": loaded {em}")
    em_back = cryomotl.stopgap2emmotl(path)
    check(isinstance(em_back, EmMotl), tag + ": stopgap2emmotl type")
    for em, name in RENAME:
        check(all(close(float(g), e) for g, e in zip(em_back.df[em].tolist(), exp[name])), tag + f": em {em}")
    check(list(back.sg_df.columns) == SG_COLUMNS, tag + ": sg_df columns")
    check(back.sg_df["halfset"].tolist() == ["A" if s % 2 == 0 else "B" for s in sub], tag + ": loaded halfset")

    # (iii) the reader of the tree vs the original reader text on the same file
    res = same_read(path, tag + ": Starfile.read vs original")
    check(res[0] == "ok" and res[1][1] == ["data_stopgap_motivelist"], tag + ": one particle block")
    same_frame(res[1][0][0], back.sg_df, tag + ": read vs constructor")
    same_read(path, tag + ": Starfile.read(data_id=0) vs original", data_id=0)
    same_frame(StopgapMotl.read_in(path), back.sg_df, tag + ": read_in")

    # (iv) writing the same object again gives the same bytes (no state carried between calls)
    with open(path, "rb") as f:
        first = f.read()
    path2 = os.path.join(workdir, "again.star")
    m.write_out(path2, update_coord=False, reset_index=reset_index)
    with open(path2, "rb") as f:
        second = f.read()
    if not update_coord or through_function:
        check(first == second, tag + ": second write differs")


def token_queue(kinds):
    """a token queue (stored back to front, as tokenize returns it) with the given head-to-tail token types"""
    return [starfileio.Token(k, "v", (0, 0)) for k in kinds][::-1]


def lookahead_cases(rng):
    T = TokenType
    kinds = [T.LITERAL, T.NEWLINE, T.COMMENT, T.LOOP, T.PROPERTY]
    fixed = [[], [T.LITERAL], [T.NEWLINE], [T.NEWLINE, T.COMMENT, T.LITERAL], [T.NEWLINE, T.LOOP, T.LITERAL],
             [T.COMMENT] * 5, [T.LITERAL, T.LOOP]]
    rand = [[kinds[j] for j in rng.integers(0, 5, size=int(rng.integers(0, 8)))] for _ in range(400)]
    for seq in fixed + rand:
        for target in kinds:
            for ignores in ([T.NEWLINE, T.COMMENT], [], [T.NEWLINE], [target, T.NEWLINE], (T.COMMENT,)):
                q1, q2 = token_queue(seq), token_queue(seq)
                a = starfileio.Token.lookahead(q1, target, ignores)
                b = OrigToken.lookahead(q2, target, ignores)
                check(a is b, f"lookahead {seq} {target} {ignores}")
                check([t.token_type for t in q1] == [t.token_type for t in q2] == seq[::-1], "lookahead keeps queue")
                # independent statement: first token outside the ignored types decides (the target always counts)
                first = next((k for k in seq if k == target or k not in set(ignores)), None)
                check(a == (first == target), f"lookahead meaning {seq} {target} {ignores}")


def parse_rows_cases(rng):
    """parse_rows on token queues directly: several blocks of different sizes, empty blocks, truncated rows,
    the same column list object used for several calls"""
    T = TokenType
    texts = [
        "1 2 3\n4 5 6\n",
        "1 2 3\n4 5 6",  # no final newline: the last row has no NEWLINE token of its own -> tokenize adds one
        "\n\n# note\n1 2 3\n",
        "1 2 3\n4 5\n",  # truncated row
        "1 2 3\n4 5 6 7\n",  # one value too many
        "",
        "\n",
        "a b c\nloop_\n",
        "1 2 3\n\n4 5 6\n",  # blank line ends the block
        "1 2 3 # trailing comment\n4 5 6\n",
        "_x\n",
    ]
    for _ in range(60):
        nrow = int(rng.integers(0, 6))
        ncol = int(rng.integers(1, 5))
        lines = ["\t".join(str(v) for v in rng.integers(-9, 9, size=ncol)) for _ in range(nrow)]
        if nrow and rng.integers(0, 3) == 0:
            lines[-1] = lines[-1].rsplit("\t", 1)[0] if ncol > 1 else lines[-1]
        texts.append("\n".join(lines) + ("\n" if rng.integers(0, 2) else ""))
    column_sets = [["a", "b", "c"], ["a"], ["a", "b"], ["a", "b", "c", "d"], []]
    for text in texts:
        for columns in column_sets:
            snap_cols = list(columns)
            q1, q2 = starfileio.Token.tokenize(text), starfileio.Token.tokenize(text)
            a = outcome(starfileio.Token.parse_rows, q1, columns)
            b = outcome(OrigToken.parse_rows, q2, columns)
            tag = f"parse_rows {text!r} {columns}"
            check(a[0] == b[0], tag + ": outcome kind")
            if a[0] == "ok":
                check(a[1][0] == b[1][0], tag + ": comments")
                same_frame(a[1][1], b[1][1], tag)
            else:
                check(a[1:] == b[1:], tag + ": error")
            # what is left in the queue is the same (the next block starts at the same token)
            check([(t.token_type, t.value, t.location) for t in q1] == [(t.token_type, t.value, t.location) for t in q2],
                  tag + ": rest of the queue")
            check(columns == snap_cols, tag + ": column list untouched")


def reader_edge_cases(workdir, rng):
    """whole files: blocks of different sizes, empty blocks, a block without rows after one with rows, comments,
    missing final newline, malformed files (same error), repeated reads of the same file"""
    block = "\ndata_stopgap_motivelist\n\nloop_\n_motl_idx\n_tomo_num\n_halfset\n\n1\t5\tA\n2\t5\tB\n\n"
    other = "\ndata_other\n\nloop_\n_a #1\n_b #2\n1.5\t2\n3.5\t4\n5.5\t6\n\n"
    one = "\n# made by hand\ndata_one\n# cols\nloop_\n_a #1\n_b #2\n_c #3\n# rows\nx\t1\t2.5\n"
    empty = "\ndata_empty\n\nloop_\n_a #1\n_b #2\n\n"
    mixed = "\ndata_mixed\n\nloop_\n_a #1\n_b #2\n1\tx\n2\ty\n3\t4\n"
    texts = {
        "only": block,
        "two": other + block,
        "three": block + other + one,
        "rows_then_empty": other + empty,
        "empty_last_no_newline": other + empty.rstrip("\n"),
        "empty_then_rows": empty + block,
        "empty_only": empty,
        "mixed": mixed + other,
        "no_final_newline": (other + block).rstrip("\n"),
        "truncated_row": other.rstrip("\n") + "\n7.5\n" + block,
        "blank": "\n\n",
        "nothing": "",
        "comment_only": "# nothing here\n",
        "no_loop": "data_x\n_a 1\n",
        "stray_property": other + "_zzz\n",
        "stray_loop": other + "loop_\n",
        "comment_tail": other + "# the end\n\n",
    }
    for name, text in texts.items():
        p = os.path.join(workdir, f"edge_{name}.star")
        with open(p, "w") as f:
            f.write(text)
        r1 = same_read(p, f"read {name}")
        r2 = same_read(p, f"read {name} (again)")  # repeated call on the same file
        check(r1[0] == r2[0], f"read {name}: repeat kind")
        if r1[0] == "ok":
            for k in range(len(r1[1][0])):
                same_frame(r1[1][0][k], r2[1][0][k], f"read {name}: repeat block {k}")
                same_read(p, f"read {name} data_id={k}", data_id=k)
            same_read(p, f"read {name} data_id=-1", data_id=-1) if len(r1[1][0]) else None
        same_read(p, f"read {name} data_id=7", data_id=7)  # out of range: same IndexError (or same parse error)
    # expectations written down independently for the files that matter most
    res = starfileio.Starfile.read(os.path.join(workdir, "edge_three.star"))
    check(res[1] == ["data_stopgap_motivelist", "data_other", "data_one"], "three: specifiers in file order")
    check([f.shape for f in res[0]] == [(2, 3), (3, 2), (1, 3)], "three: block sizes")
    check(res[0][1]["a"].tolist() == [1.5, 3.5, 5.5] and res[0][1]["b"].tolist() == [2, 4, 6], "three: values")
    check(res[0][2].iloc[0].tolist() == ["x", 1, 2.5], "three: text column kept, numbers converted")
    check(res[2][2] == ["made by hand", "cols", "rows"], "three: comments of the third block")
    res = starfileio.Starfile.read(os.path.join(workdir, "edge_rows_then_empty.star"))
    check([f.shape for f in res[0]] == [(3, 2), (0, 2)], "block without rows after one with rows")
    check(list(res[0][1].columns) == ["a", "b"], "empty block keeps its labels")
    res = starfileio.Starfile.read(os.path.join(workdir, "edge_mixed.star"))
    check(res[0][0]["a"].tolist() == [1, 2, 3] and res[0][0]["b"].tolist() == ["x", "y", "4"], "mixed column stays text")
    sg = StopgapMotl.read_in(os.path.join(workdir, "edge_two.star"))
    check(sg["tomo_num"].tolist() == [5, 5] and sg["halfset"].tolist() == ["A", "B"], "read_in picks the particle block")

    # random multi-block files written by the module's own writer
    for rep in range(40):
        frames, specs = [], []
        for k in range(int(rng.integers(1, 5))):
            nrow, ncol = int(rng.integers(0, 12)), int(rng.integers(1, 6))
            fr = pd.DataFrame(rng.uniform(-50, 50, size=(nrow, ncol)).round(int(rng.integers(0, 7))),
                              columns=[f"c{j}" for j in range(ncol)])
            if ncol > 1 and rng.integers(0, 2):
                fr["c1"] = [["A", "B"][int(v)] for v in rng.integers(0, 2, size=nrow)]
            if k > 0 and frames[-1].shape[0] == 0:
                continue  # (the reader cannot continue after an empty block: keep such blocks last)
            frames.append(fr)
            specs.append(f"data_block{k}" if rng.integers(0, 2) else "data_stopgap_motivelist")
        p = os.path.join(workdir, f"multi_{rep}.star")
        given = [f.copy(deep=True) for f in frames]
        starfileio.Starfile.write(list(frames), p, specifiers=specs)
        for f, g in zip(frames, given):
            same_frame(f, g, "writer leaves the tables alone")
        r = same_read(p, f"multi {rep}")
        check(r[0] == "ok" and r[1][1] == specs, f"multi {rep}: specifiers")
        for k, g in enumerate(given):
            got = r[1][0][k]
            check(list(got.columns) == list(g.columns) and got.shape == g.shape, f"multi {rep}: block {k} shape")
            for c in g.columns:
                if g[c].dtype.kind == "f":
                    check(all(close(float(x), float(y)) for x, y in zip(got[c].tolist(), g[c].tolist())),
                          f"multi {rep}: block {k} column {c}")
                else:
                    check(got[c].tolist() == g[c].tolist(), f"multi {rep}: block {k} text column {c}")


def main():
    rng = np.random.default_rng(20260928)
    workdir = tempfile.mkdtemp(prefix="c04b_")
    try:
        sizes = [1, 2, 3, 5, 17, 64, 300]
        kinds = ["uniform", "large", "small", "integers", "halves", "zeros"]
        cases = 0
        for kind in kinds:
            for n in sizes + [int(rng.integers(1, 301))]:
                for int_ids in (False, True):
                    df = make_motl(rng, n, kind, int_ids)
                    for reset_index in (False, True):
                        tag = f"{kind}/n={n}/int={int_ids}/reset={reset_index}"
                        property_in_memory(df, reset_index, tag)
                        cases += 1
        # via-file path (update_coordinates applies a Python function per row: keep the sizes moderate)
        for kind in kinds:
            for n in [1, 2, 7, 40, int(rng.integers(1, 120))]:
                int_ids = bool(rng.integers(0, 2))
                df = make_motl(rng, n, kind, int_ids)
                for reset_index in (False, True):
                    for update_coord in (False, True):
                        for through_function in (False, True):
                            tag = f"file/{kind}/n={n}/reset={reset_index}/upd={update_coord}/fn={through_function}"
                            property_via_file(df, reset_index, update_coord, workdir, tag, through_function)
                            cases += 1
        df = make_motl(rng, 300, "uniform", False)
        property_via_file(df, False, False, workdir, "file/300", False)
        property_via_file(df, True, True, workdir, "file/300/upd", True)
        # a table whose row labels are not 0..n-1 (a selection of a larger list)
        big = make_motl(rng, 60, "uniform", True)
        sel = big[big["object_id"] > 3]
        if sel.shape[0] > 0:
            snap = snapshot(sel)
            a = StopgapMotl.convert_to_sg_motl(sel, False)
            untouched(sel, snap, "selection")
            check(a["subtomo_num"].tolist() == sel["subtomo_id"].tolist(), "selection order")
            property_via_file(sel, True, False, workdir, "file/selection", False)
        reader_edge_cases(workdir, rng)
        lookahead_cases(rng)
        parse_rows_cases(rng)
    finally:
        shutil.rmtree(workdir, ignore_errors=True)
    print(f"PASS ({cases} configurations, {CHECKS} checks)")


if __name__ == "__main__":
    main()
