"""C16 / a -- dose_filter: frequency grid built with array arithmetic instead of a double Python loop.

Checks (1) the property itself against an independent computation (np.fft.fftfreq based, no fftshift, no centred grid),
(2) that the function in the worktree returns bit-identical results to the original text kept below.
Run: cd /tmp/wt7/C16 && /venv/bin/python /tmp/seedsT/C16/a/demo.py
"""
import os, sys, io, contextlib, warnings, tempfile

sys.path.insert(0, os.getcwd())
import numpy as np

warnings.filterwarnings("ignore")
np.seterr(all="ignore")

from cryocat import tiltstack, ioutils

# ----------------------------------------------------------------------------------------------------------------------
# original text of the two functions (HEAD 917e6f2), executed in a namespace that shares the module's helpers
ORIG = '''
def dose_filter(tilt_stack, pixel_size, total_dose, output_file=None, input_order="xyz", output_order="xyz"):
    print(f"Dose-filtering started...")

    ts = TiltStack(tilt_stack=tilt_stack, input_order=input_order, output_order=output_order)
    pixel_size = float(pixel_size)
    total_dose = ioutils.total_dose_load(total_dose)

    # Precalculate frequency array
    frequency_array = np.zeros((ts.height, ts.width))
    cen_x = ts.width // 2  # Center for array is half the image size
    cen_y = ts.height // 2  # Center for array is half the image size

    rstep_x = 1 / (ts.width * pixel_size)  # reciprocal pixel size
    rstep_y = 1 / (ts.height * pixel_size)

    # Loop to fill array with frequency values
    for x in range(ts.width):
        for y in range(ts.height):
            d = np.sqrt(((x - cen_x) ** 2 * rstep_x**2) + ((y - cen_y) ** 2 * rstep_y**2))
            frequency_array[y, x] = d

    # Generate filtered stack
    ts.data = np.array(ts.data, copy=True)  # Make ts.data writeable
    for z in range(ts.n_tilts):
        image = ts.data[z, :, :]
        ts.data[z, :, :] = dose_filter_single_image(image, total_dose[z], frequency_array)

    ts.write_out(output_file)

    print(f"...dose-filtering finished.")

    return ts.correct_order()


def dose_filter_single_image(image, dose, freq_array):
    a = 0.245
    b = -1.665
    c = 2.81

    # Calculate Fourier transform
    ft = np.fft.fftshift(np.fft.fft2(image))

    # Calculate exposure-dependent amplitude attenuator
    q = np.exp((-dose) / (2 * ((a * (freq_array**b)) + c)))

    # Attenuate and inverse transform
    filtered_image = np.fft.ifft2(np.fft.ifftshift(ft * q))

    return filtered_image.real
'''
ns = {"np": np, "ioutils": ioutils, "TiltStack": tiltstack.TiltStack}
exec(ORIG, ns)
orig_dose_filter = ns["dose_filter"]
orig_single = ns["dose_filter_single_image"]


def quiet(f, *a, **k):
    with contextlib.redirect_stdout(io.StringIO()):
        return f(*a, **k)


# ----------------------------------------------------------------------------------------------------------------------
# independent reference: frequencies from fftfreq (cycles / Angstrom), zero frequency untouched
def ref_attenuation(h, w, pixel_size, dose):
    fy = np.fft.fftfreq(h, d=pixel_size)[:, None]
    fx = np.fft.fftfreq(w, d=pixel_size)[None, :]
    f = np.sqrt(fx * fx + fy * fy)
    q = np.ones((h, w))
    nz = f > 0
    q[nz] = np.exp(-float(dose) / (2.0 * (0.245 * f[nz] ** (-1.665) + 2.81)))
    return q


def ref_filter(stack_zyx, pixel_size, doses):
    out = np.empty(stack_zyx.shape, dtype=float)
    for i in range(stack_zyx.shape[0]):
        q = ref_attenuation(stack_zyx.shape[1], stack_zyx.shape[2], pixel_size, doses[i])
        out[i] = np.fft.ifft2(np.fft.fft2(stack_zyx[i].astype(float)) * q).real
    return out


fails = []


def check(cond, msg):
    if not cond:
        fails.append(msg)
        if len(fails) < 20:
            print("FAIL:", msg)


def plane_wave(h, w, ky, kx, phase=0.3):
    yy, xx = np.mgrid[0:h, 0:w]
    return np.cos(2 * np.pi * (ky * yy / h + kx * xx / w) + phase)


rng = np.random.default_rng(160016)
sizes = [(4, 4), (4, 5), (5, 4), (5, 5), (7, 64), (64, 7), (64, 64), (63, 63), (32, 17), (9, 16), (1 + 3, 64)]
for _ in range(25):
    sizes.append((int(rng.integers(4, 65)), int(rng.integers(4, 65))))

n_cases = 0
for case, (h, w) in enumerate(sizes):
    n = int(rng.integers(1, 11)) if case % 5 else (1 if case % 10 else 10)
    ps = float(rng.uniform(0.5, 10.0)) if case % 4 else [0.5, 10.0, 1.0, 1.327][(case // 4) % 4]
    doses = rng.uniform(0.0, 300.0, n)
    rng.shuffle(doses)
    if case % 3 == 0:
        doses[0] = 0.0
    if case % 6 == 1:
        doses[-1] = 300.0
    if case % 7 == 2:
        doses = np.round(doses).astype(int)  # integer doses
    if case % 7 == 3:
        doses = doses.astype(np.float32)
    stack = rng.normal(3.0, 2.0, (n, h, w))  # z, y, x
    if case % 4 == 1:  # pure plane waves
        for i in range(n):
            stack[i] = plane_wave(h, w, int(rng.integers(0, h)), int(rng.integers(0, w)))
    if case % 9 == 4:
        stack[0] = 0.0
    if case % 9 == 5:
        stack[-1] = -7.25  # constant negative image

    dose_arg = doses if case % 2 else list(doses)

    # zyx in / zyx out
    out = quiet(tiltstack.dose_filter, stack, ps, dose_arg, input_order="zyx", output_order="zyx")
    old = quiet(orig_dose_filter, stack, ps, dose_arg, input_order="zyx", output_order="zyx")
    check(out.shape == old.shape and out.dtype == old.dtype, f"case {case}: shape/dtype differ from original")
    check(np.array_equal(out, old), f"case {case}: not bit-identical to original, max {np.abs(out - old).max()}")
    ref = ref_filter(stack, ps, doses)
    scale = max(1.0, np.abs(stack).max())
    check(np.allclose(out, ref, rtol=0, atol=1e-10 * scale), f"case {case}: formula violated {np.abs(out - ref).max()}")

    # DFT against the input's, every frequency of every image
    for i in range(n):
        F_in = np.fft.fft2(stack[i])
        F_out = np.fft.fft2(out[i])
        q = ref_attenuation(h, w, ps, doses[i])
        check(np.allclose(F_out, F_in * q, rtol=0, atol=1e-9 * scale * h * w), f"case {case} img {i}: DFT ratio")
        check(abs(F_out[0, 0] - F_in[0, 0]) <= 1e-9 * scale * h * w, f"case {case} img {i}: DC changed")
        check(abs(out[i].mean() - stack[i].mean()) <= 1e-10 * scale, f"case {case} img {i}: mean changed")
        check(np.all(np.abs(F_out) <= np.abs(F_in) + 1e-9 * scale * h * w), f"case {case} img {i}: power increased")
        if float(doses[i]) == 0.0:
            check(np.allclose(out[i], stack[i], rtol=0, atol=1e-12 * scale), f"case {case} img {i}: zero dose")

    # xyz in / xyz out (default orders): same thing seen through the transposition
    sx = np.ascontiguousarray(stack.transpose(2, 1, 0))
    out_x = quiet(tiltstack.dose_filter, sx, ps, dose_arg)
    old_x = quiet(orig_dose_filter, sx, ps, dose_arg)
    check(out_x.shape == (w, h, n), f"case {case}: xyz shape {out_x.shape}")
    check(np.array_equal(out_x, old_x), f"case {case}: xyz not identical to original")
    check(np.array_equal(out_x.transpose(2, 1, 0), out), f"case {case}: xyz != zyx result")

    # mixed orders
    out_m = quiet(tiltstack.dose_filter, sx, ps, dose_arg, input_order="xyz", output_order="zyx")
    check(np.array_equal(out_m, out), f"case {case}: xyz->zyx")

    # linearity, composition, monotonicity (first three cases of each parity are enough for speed)
    if case < 20:
        other = rng.normal(0, 1, stack.shape)
        lin = quiet(tiltstack.dose_filter, 2.5 * stack - 0.75 * other, ps, doses, input_order="zyx", output_order="zyx")
        o2 = quiet(tiltstack.dose_filter, other, ps, doses, input_order="zyx", output_order="zyx")
        check(np.allclose(lin, 2.5 * out - 0.75 * o2, rtol=0, atol=1e-9 * scale), f"case {case}: linearity")
        d2 = rng.uniform(0, 150, n)
        d1 = np.asarray(doses, dtype=float) / 2
        once = quiet(tiltstack.dose_filter, stack, ps, d1 + d2, input_order="zyx", output_order="zyx")
        first = quiet(tiltstack.dose_filter, stack, ps, d1, input_order="zyx", output_order="zyx")
        twice = quiet(tiltstack.dose_filter, first, ps, d2, input_order="zyx", output_order="zyx")
        check(np.allclose(once, twice, rtol=0, atol=1e-9 * scale), f"case {case}: composition")
        more = quiet(tiltstack.dose_filter, stack, ps, d1 + d2 + 5.0, input_order="zyx", output_order="zyx")
        for i in range(n):
            A1 = np.abs(np.fft.fft2(once[i]))
            A2 = np.abs(np.fft.fft2(more[i]))
            check(np.all(A2 <= A1 + 1e-9 * scale * h * w), f"case {case} img {i}: more dose attenuates more")

    # input not modified, repeated call gives the same
    again = quiet(tiltstack.dose_filter, stack, ps, dose_arg, input_order="zyx", output_order="zyx")
    check(np.array_equal(again, out), f"case {case}: repeated call differs")

    # other element types: only the comparison with the original (the cast back to the input type is the original's)
    for dt in (np.float32, np.int16):
        st = (stack * 10).astype(dt)
        o_new = quiet(tiltstack.dose_filter, st, ps, dose_arg, input_order="zyx", output_order="zyx")
        o_old = quiet(orig_dose_filter, st, ps, dose_arg, input_order="zyx", output_order="zyx")
        check(o_new.dtype == o_old.dtype and np.array_equal(o_new, o_old), f"case {case}: dtype {dt} differs")
        if dt is np.float32:
            r = ref_filter(st, ps, doses)
            check(np.allclose(o_new, r, rtol=0, atol=2e-5 * max(1.0, np.abs(st).max())), f"case {case}: float32 formula")
    n_cases += 1

# pure plane waves: amplitude ratio at exactly one frequency, all (ky, kx) of a small odd x even image
h, w, ps = 7, 6, 2.0
for ky in range(h):
    for kx in range(w):
        img = plane_wave(h, w, ky, kx)[None]
        for dose in (0.0, 1.0, 37.5, 300.0):
            out = quiet(tiltstack.dose_filter, img, ps, np.array([dose]), input_order="zyx", output_order="zyx")
            q = ref_attenuation(h, w, ps, dose)[ky, kx]
            check(np.allclose(out[0], q * img[0], rtol=0, atol=1e-12), f"plane wave ({ky},{kx}) dose {dose}")
            check(np.array_equal(out, quiet(orig_dose_filter, img, ps, np.array([dose]), input_order="zyx", output_order="zyx")), "pw orig")

# doses from a text file and through an .mrc file on disk (reader / writer route), compared with the original
with tempfile.TemporaryDirectory() as td:
    stack = rng.normal(0, 1, (5, 12, 9)).astype(np.float32)
    doses = np.array([30.0, 10.0, 0.0, 20.0, 40.0])
    fn = os.path.join(td, "dose.txt")
    np.savetxt(fn, doses, fmt="%.6f")
    o1 = quiet(tiltstack.dose_filter, stack, 1.7, fn, input_order="zyx", output_order="zyx")
    o2 = quiet(orig_dose_filter, stack, 1.7, fn, input_order="zyx", output_order="zyx")
    check(np.array_equal(o1, o2), "dose from txt file differs from original")
    check(np.allclose(o1, ref_filter(stack, 1.7, doses), rtol=0, atol=2e-5), "dose from txt file: formula")
    mrc_out = os.path.join(td, "out.mrc")
    o3 = quiet(tiltstack.dose_filter, stack, 1.7, doses, output_file=mrc_out, input_order="zyx", output_order="zyx")
    o4 = quiet(tiltstack.dose_filter, mrc_out, 1.7, np.zeros(5), output_order="zyx")
    check(np.allclose(o4, o3, rtol=0, atol=1e-5), "written stack read back and filtered with zero dose")
    o5 = quiet(orig_dose_filter, mrc_out, 1.7, doses, output_order="zyx")
    o6 = quiet(tiltstack.dose_filter, mrc_out, 1.7, doses, output_order="zyx")
    check(np.array_equal(o5, o6), "file input differs from original")

# single image function on its own (centred grid as dose_filter builds it, and the un-centred one the test-suite uses)
for (h, w) in [(4, 4), (5, 8), (8, 5), (33, 33), (64, 10)]:
    img = rng.normal(0, 1, (h, w))
    yy, xx = np.mgrid[0:h, 0:w]
    fc = np.sqrt(((xx - w // 2) / (w * 1.3)) ** 2 + ((yy - h // 2) / (h * 1.3)) ** 2)
    fu = np.sqrt(np.fft.fftfreq(w, 1.3)[None, :] ** 2 + np.fft.fftfreq(h, 1.3)[:, None] ** 2)
    for fa in (fc, fu, rng.uniform(0.01, 1, (h, w))):
        for dose in (0.0, 12.5, np.float32(80.0), 300):
            r1 = tiltstack.dose_filter_single_image(img, dose, fa)
            r2 = orig_single(img, dose, fa)
            check(r1.dtype == r2.dtype and np.array_equal(r1, r2), f"single image {h}x{w} dose {dose}")
    check(np.allclose(tiltstack.dose_filter_single_image(img, 20.0, fc),
                      np.fft.ifft2(np.fft.fft2(img) * ref_attenuation(h, w, 1.3, 20.0)).real, rtol=0, atol=1e-12),
          f"single image formula {h}x{w}")

print(f"{n_cases} stacks checked")
if fails:
    print(f"FAILED ({len(fails)} checks)")
    sys.exit(1)
print("PASS")
