"""C09 / change b -- clean_by_distance_to_points: per-feature survivors collected in a list and concatenated once
(instead of growing the table inside the loop); the index set built by a comprehension.

Checks, over many random and edge-case inputs,
 1. the property clause "cleaning against reference points removes exactly the particles whose complete position
    (x + shift_x, ...) is within the radius of a point of the same tomogram; survivors are never altered" against an
    independent brute-force computation,
 2. that the function in the tree returns the very same table (values, dtypes, index, column order) as the ORIGINAL
    function text kept below, for inplace=True and inplace=False, for feature_id tomo_id and object_id, with and without
    output_file,
 3. that the caller's inputs (the points table, and the motl itself for inplace=False) are left untouched.
Prints PASS and exits 0 when everything holds.
"""
import os, sys

sys.path.insert(0, os.getcwd())

import contextlib, io, tempfile
import numpy as np
import pandas as pd
from pandas.testing import assert_frame_equal
from scipy.spatial import KDTree

from cryocat.cryomotl import Motl


# ---------------------------------------------------------------- original text (HEAD b1093bd), kept for comparison
def clean_by_distance_to_points_ORIG(self, points, radius_in_voxels, feature_id="tomo_id", inplace=True, output_file=None):
    # Parse tomograms
    features = self.get_unique_values(feature_id)

    # Initialize clean motl
    cleaned_df = pd.DataFrame()

    # Loop through and clean
    for f in features:
        # Parse tomogram
        feature_m = self.get_motl_subset(f, feature_id=feature_id, reset_index=True)

        # Parse positions
        coord1 = feature_m.get_coordinates()
        coord2 = points.loc[points[feature_id] == f, ["x", "y", "z"]].values

        # Create a KDTree from coord1
        tree = KDTree(coord1)

        # Query points from coord2 within the radius
        indices_to_remove = set()  # Use a set to store unique indices
        for point in coord2:
            indices = tree.query_ball_point(point, r=radius_in_voxels)  # Returns indices as array
            indices_to_remove.update(indices)  # Add indices to the set

        # Convert to a sorted list for consistent ordering
        indices_to_remove = sorted(indices_to_remove)
        cfm = feature_m.df.drop(index=indices_to_remove)
        cleaned_df = pd.concat([cleaned_df, cfm], ignore_index=True)

    cleaned_df.reset_index(drop=True, inplace=True)
    cleaned_motl = Motl(cleaned_df)

    if output_file:
        cleaned_motl.write_out(output_file)

    print(f"{self.df.shape[0]-cleaned_motl.df.shape[0]} particles were removed.")

    if inplace:
        self.df = cleaned_df
    else:
        return cleaned_motl


# ---------------------------------------------------------------- input generation
COLS = Motl.motl_columns


def random_motl_df(rng, tomo_ids, sizes, dims, exact):
    """Particles of several tomograms, interleaved, positions inside / on the faces of / beyond the volume,
    non-zero shifts.  exact=True: integer positions and half-integer shifts (distances to integer points are exact)."""
    rows = []
    for t, n, d in zip(tomo_ids, sizes, dims):
        for _ in range(n):
            if exact:
                pos = np.array([rng.integers(-4, d[k] + 5) for k in range(3)], dtype=float)
                sh = rng.integers(-2, 3, size=3) * 1.0
            else:
                pos = np.array([rng.uniform(-4, d[k] + 4) for k in range(3)])
                sh = rng.uniform(-1.5, 1.5, size=3)
            r = dict.fromkeys(COLS, 0.0)
            r.update(
                score=rng.random(), tomo_id=float(t), object_id=float(rng.integers(1, 4)),
                x=pos[0], y=pos[1], z=pos[2], shift_x=sh[0], shift_y=sh[1], shift_z=sh[2],
                phi=rng.uniform(-180, 180), theta=rng.uniform(0, 180), psi=rng.uniform(-180, 180),
                geom1=float(rng.integers(0, 9)), **{"class": float(rng.integers(1, 3))},
            )
            rows.append(r)
    if not rows:
        return Motl.create_empty_motl_df()
    df = pd.DataFrame(rows, columns=COLS).astype(float)
    df = df.iloc[rng.permutation(len(df))].reset_index(drop=True)  # tomograms interleaved
    df["subtomo_id"] = np.arange(1, len(df) + 1, dtype=float)
    return df


def random_points(rng, df, feature_id, point_features, dims_by_feature, exact, n_range=(0, 6)):
    """Reference points per feature value; some exactly on a particle, some near one, some far away."""
    rows = []
    for f in point_features:
        n = int(rng.integers(*n_range))
        sub = df.loc[df[feature_id] == f]
        d = dims_by_feature.get(f, (20, 20, 20))
        for _ in range(n):
            u = rng.random()
            if len(sub) and u < 0.45:
                p = sub.iloc[int(rng.integers(0, len(sub)))]
                c = np.array([p.x + p.shift_x, p.y + p.shift_y, p.z + p.shift_z])
                if exact:
                    # exact offsets with integer length: 0, 3, 5 (3-4-0), 7 (2-3-6)
                    off = np.array([[0, 0, 0], [3, 0, 0], [0, 3, 4], [4, 0, -3], [2, -3, 6], [-6, 2, 3]][int(rng.integers(0, 6))], dtype=float)
                else:
                    off = rng.normal(0, 3.0, size=3)
                c = c + off
            else:
                c = np.array([rng.integers(-4, d[k] + 5) if exact else rng.uniform(-4, d[k] + 4) for k in range(3)], dtype=float)
            rows.append({feature_id: float(f), "x": c[0], "y": c[1], "z": c[2], "note": float(len(rows))})
    return pd.DataFrame(rows, columns=[feature_id, "x", "y", "z", "note"]).astype(float)


def independent(df0, points, radius, feature_id):
    """Brute force: the rows to keep, grouped by feature in order of first appearance, original order inside a group.
    Also the smallest |distance - radius| met, to discard numerically undecidable random cases."""
    remove = np.zeros(len(df0), dtype=bool)
    margin = np.inf
    pf = points[feature_id].to_numpy()
    pxyz = points[["x", "y", "z"]].to_numpy(dtype=float)
    for i in range(len(df0)):
        r = df0.iloc[i]
        c = (r["x"] + r["shift_x"], r["y"] + r["shift_y"], r["z"] + r["shift_z"])
        for j in range(len(points)):
            if pf[j] != r[feature_id]:
                continue
            d2 = (c[0] - pxyz[j, 0]) ** 2 + (c[1] - pxyz[j, 1]) ** 2 + (c[2] - pxyz[j, 2]) ** 2
            margin = min(margin, abs(d2 - radius * radius))
            if d2 <= radius * radius:
                remove[i] = True
    order = []
    seen = []
    for v in df0[feature_id].tolist():
        if v not in seen:
            seen.append(v)
    for v in seen:
        order += [i for i in range(len(df0)) if df0[feature_id].iloc[i] == v and not remove[i]]
    exp = df0.iloc[order].reset_index(drop=True)
    return exp, int(remove.sum()), margin


def quiet(fn, *a, **k):
    buf = io.StringIO()
    with contextlib.redirect_stdout(buf):
        res = fn(*a, **k)
    return res, buf.getvalue()


def run_case(df0, points, radius, feature_id, label, exact):
    exp, n_removed, margin = independent(df0, points, radius, feature_id)
    if not exact and margin < 1e-7:
        return None  # a random distance numerically on the sphere: not decidable independently, skip
    p_before = points.copy(deep=True)

    # inplace=False: result returned, motl untouched
    m = Motl(df0.copy())
    res_new, out_new = quiet(m.clean_by_distance_to_points, points, radius, feature_id=feature_id, inplace=False)
    assert_frame_equal(m.df, df0, check_exact=True, obj=label + ": motl changed by inplace=False")
    res_old, out_old = quiet(clean_by_distance_to_points_ORIG, m, points, radius, feature_id=feature_id, inplace=False)
    assert_frame_equal(m.df, df0, check_exact=True, obj=label)
    assert isinstance(res_new, Motl) and type(res_new) is type(res_old), label
    assert_frame_equal(res_new.df, res_old.df, check_exact=True, obj=label + " patched-vs-original")
    assert list(res_new.df.columns) == list(res_old.df.columns), label
    assert out_new == out_old == f"{n_removed} particles were removed.\n", (label, out_new, out_old)

    # the property
    assert_frame_equal(res_new.df, exp, check_exact=True, obj=label + " property")

    # repeated call on the same object gives the same answer again
    res_again, _ = quiet(m.clean_by_distance_to_points, points, radius, feature_id=feature_id, inplace=False)
    assert_frame_equal(res_again.df, res_new.df, check_exact=True, obj=label + " second call")

    # inplace=True
    m1, m2 = Motl(df0.copy()), Motl(df0.copy())
    r1, _ = quiet(m1.clean_by_distance_to_points, points, radius, feature_id=feature_id)
    r2, _ = quiet(clean_by_distance_to_points_ORIG, m2, points, radius, feature_id=feature_id)
    assert r1 is None and r2 is None, label
    assert_frame_equal(m1.df, m2.df, check_exact=True, obj=label + " inplace patched-vs-original")
    assert_frame_equal(m1.df, exp, check_exact=True, obj=label + " inplace property")
    # cleaning the cleaned list again with the same points removes nothing more (idempotent)
    # (an emptied list is refused by both versions alike, see the empty-motl check in main)
    if len(exp):
        quiet(m1.clean_by_distance_to_points, points, radius, feature_id=feature_id)
        assert_frame_equal(m1.df, exp, check_exact=True, obj=label + " idempotence")

    # caller's points untouched
    assert_frame_equal(points, p_before, check_exact=True, obj=label + ": points changed")
    return n_removed, len(exp)


def main():
    rng = np.random.default_rng(909)
    done = skipped = removed = kept = 0
    for it in range(260):
        exact = bool(it % 2)
        n_tomos = int(rng.integers(1, 5))
        tomo_ids = sorted(rng.choice(np.arange(1, 30), size=n_tomos, replace=False).tolist(), reverse=bool(it % 3 == 0))
        sizes = [int(rng.integers(1, 12)) for _ in range(n_tomos)]
        dims = [tuple(int(v) for v in rng.integers(8, 30, size=3)) for _ in range(n_tomos)]
        df0 = random_motl_df(rng, tomo_ids, sizes, dims, exact)
        feature_id = "object_id" if it % 5 == 0 else "tomo_id"
        feats = list(pd.unique(df0[feature_id]))
        dims_by = dict(zip(tomo_ids, dims)) if feature_id == "tomo_id" else {}
        # reference points: not for every feature of the motl (groups without hits), and for features the motl lacks
        point_feats = [f for f in feats if rng.random() < 0.75] + [99.0]
        if it % 13 == 0:
            point_feats = []  # no reference points at all
        if it % 4 == 0 and len(feats) > 1:
            # a group without points after one with hits
            point_feats = [feats[0]]
        pts = random_points(rng, df0, feature_id, point_feats, dims_by, exact, n_range=(1, 6) if it % 4 == 0 else (0, 6))
        pts = pts.iloc[rng.permutation(len(pts))]  # arbitrary index on the caller's table
        radius = float(rng.choice([0, 1, 3, 5, 7])) if exact else float(rng.uniform(0.0, 9.0))
        if it % 17 == 0:
            radius = int(radius)  # integer radius
        res = run_case(df0, pts, radius, feature_id, f"case {it}", exact)
        if res is None:
            skipped += 1
            continue
        done += 1
        removed += res[0]
        kept += res[1]

    # fixed cases on the sphere (exact arithmetic): distance == radius is removed, just beyond is kept
    base = random_motl_df(rng, [5, 2], [3, 2], [(20, 20, 20), (9, 9, 9)], True)
    base["tomo_id"] = [5.0, 2.0, 5.0, 2.0, 5.0]
    base[["x", "y", "z"]] = np.array([[10, 10, 10], [10, 10, 10], [13, 14, 10], [13, 14, 10], [13, 14, 11]], dtype=float)
    base[["shift_x", "shift_y", "shift_z"]] = np.array([[0, 0, 0], [0, 0, 0], [0.5, 0, 0], [0, 0, 0], [0, 0, -1]], dtype=float)
    assert all(str(t) == "float64" for t in base.dtypes), base.dtypes
    pts = pd.DataFrame({"tomo_id": [5.0, 7.0], "x": [10.0, 10.0], "y": [10.0, 10.0], "z": [10.0, 10.0]})
    r = run_case(base, pts, 5.0, "tomo_id", "sphere", True)
    assert r == (2, 3), r  # rows 0 (d=0) and 4 (d=5) of tomogram 5 removed; 2 (d>5) and tomogram 2 kept
    r = run_case(base, pts.iloc[:0], 5.0, "tomo_id", "no points", True)
    assert r == (0, 5), r
    r = run_case(base, pd.concat([pts, pts.assign(tomo_id=2.0)], ignore_index=True), 100.0, "tomo_id", "all removed", True)
    assert r == (5, 0), r
    done += 3

    # int-typed columns survive the same way in both versions (dtype handling of the concatenation)
    mixed = base.copy()
    mixed["tomo_id"] = mixed["tomo_id"].astype(int)
    mixed["class"] = mixed["class"].astype(int)
    a, _ = quiet(Motl(mixed.copy()).clean_by_distance_to_points, pts, 5.0, inplace=False)
    b, _ = quiet(clean_by_distance_to_points_ORIG, Motl(mixed.copy()), pts, 5.0, inplace=False)
    assert_frame_equal(a.df, b.df, check_exact=True, obj="mixed dtypes")

    # empty motl: both versions refuse it the same way (no feature value -> table without columns)
    errs = []
    for fn in (lambda m: m.clean_by_distance_to_points(pts, 5.0), lambda m: clean_by_distance_to_points_ORIG(m, pts, 5.0)):
        try:
            quiet(fn, Motl(Motl.create_empty_motl_df()))
            errs.append(None)
        except Exception as e:  # noqa: BLE001
            errs.append((type(e), str(e)))
    assert errs[0] == errs[1], errs

    # output_file: same file content from both versions
    with tempfile.TemporaryDirectory() as td:
        f1, f2 = os.path.join(td, "new.em"), os.path.join(td, "old.em")
        quiet(Motl(base.copy()).clean_by_distance_to_points, pts, 5.0, inplace=False, output_file=f1)
        quiet(clean_by_distance_to_points_ORIG, Motl(base.copy()), pts, 5.0, inplace=False, output_file=f2)
        assert open(f1, "rb").read() == open(f2, "rb").read(), "output files differ"
        back = Motl.load(f1).df
        assert len(back) == 3 and back["tomo_id"].tolist() == [5.0, 2.0, 2.0], back

    print(f"{done} cases checked ({skipped} numerically undecidable random cases skipped), {removed} particles removed / "
          f"{kept} kept: property holds, patched == original, caller inputs untouched")
    print("PASS")


if __name__ == "__main__":
    main()
