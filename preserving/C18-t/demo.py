"""C18 -- nearest-neighbour analysis equals brute force and is invariant under rigid motion.

Run as:  cd /tmp/wt11/C18 && /venv/bin/python <this file>
Checks (a) nnana.get_nn_stats against a brute-force computation written with explicit rotation matrices, (b) invariance
under a rigid motion of every tomogram, (c) bit-for-bit agreement of the functions in the tree with the original
functions (text kept below), including repeated calls on the same objects, (d) that the particle lists handed in are
left untouched.  Prints PASS and exits 0 when everything holds.
"""
import os
import sys

sys.path.insert(0, os.getcwd())

ORIGINAL_TEXT = r'''
def get_feature_nn_indices(fm_a, fm_nn, nn_number=1):
    """Get the indices and distances of nearest neighbors for given feature coordinates.

    Parameters
    ----------
    fm_a : cryomotl.Motl
        A motl for which nearest neighbors are to be found.
    fm_nn : cryomotl.Motl
        A motl in which the nearest neighbors will be searched for.
    nn_number : int, default=1
        The number of nearest neighbors to retrieve for each feature. Default is 1.

    Returns
    -------
    ordered_idx : ndarray
        An array of indices corresponding to the ordered features in `fm_a`.
    nn_idx : ndarray
        A 2D array of shape (n_features, nn_count) containing the indices of the nearest neighbors for each feature
        in `fm_a`.
    nn_dist : ndarray
        A 2D array of shape (n_features, nn_count) containing the distances to the nearest neighbors for each feature
        in `fm_a`.
    nn_count : int
        The actual number of nearest neighbors retrieved, which is the minimum of `nn_number` and the number of
        available neighbors.

    Notes
    -----
    This function uses a KDTree for efficient nearest neighbor search.
    """

    coord_a = fm_a.get_coordinates()
    coord_nn = fm_nn.get_coordinates()

    nn_count = min(nn_number, coord_nn.shape[0])
    kdt_nn = sn.KDTree(coord_nn)
    nn_dist, nn_idx = kdt_nn.query(coord_a, k=nn_count)
    ordered_idx = np.arange(0, nn_idx.shape[0], 1)

    return (
        ordered_idx,
        nn_idx.reshape((nn_idx.shape[0], nn_count)),
        nn_dist.reshape((nn_idx.shape[0], nn_count)),
        nn_count,
    )


def get_nn_stats(motl_a, motl_nn, pixel_size=1.0, feature_id="tomo_id", nn_number=1, rotation_type="angular_distance"):
    """For each particle in motl_a, this function computes nn_number nearest neighbors in motl_nn and returns the
    associated data: distance of neighbor to query point, coordinates of nearest neighbors, coordinates of nearest neighbors
    after being rotated with respect to the coordinate frame of the query point, angular distance between query point and
    nearest neighbor, representations of associated rotation via rotated unit vector + Euler angles, subtomogram-id of query point
    of its associated nearest neighbors.

    Parameters
    ----------
    motl_a : cryocat.cryomotl.Motl or str
        Input particle list of query points.
    motl_nn : cryocat.cryomotl.Motl or str
        Input particle list of with nearest neighbors of interest.
    pixel_size : float, default=1.0
        Pixel size. Defaults to 1.0.
    feature_id : str, default='tomo_id'
        Particle list feature to distinguish between subsets of input motls. Defaults to "tomo_id".
    nn_number : int, default=1
        Number of requested nearest neighbors in motl_nn for each particle in motl_a. Defaults to 1.
    rotation_type : str, default='angular_distance'
        For comparison of rotations. Choice between "all", "angular_distance",
        "cone_distance", and "in_plane_distance". Defaults to "angular_distance".

    Returns
    -------
    pandas dataframe
        Contains statistics of nearest neighbors analysis between input particle lists.
    """
    (
        centered_coord,
        rotated_coord,
        nn_dist,
        ang_dst,
        subtomo_idx,
        subtomo_idx_nn,
    ) = get_nn_distances(
        motl_a, motl_nn, nn_number=nn_number, pixel_size=pixel_size, feature=feature_id, rotation_type=rotation_type
    )

    coord_rot, angles = get_nn_rotations(motl_a, motl_nn, feature=feature_id, nn_number=nn_number)

    nn_stats = pd.DataFrame(
        np.hstack(
            (
                nn_dist.reshape((nn_dist.shape[0], 1)),
                centered_coord,
                rotated_coord,
                ang_dst.reshape((nn_dist.shape[0], 1)),
                coord_rot,
                angles,
                subtomo_idx.reshape((nn_dist.shape[0], 1)),
                subtomo_idx_nn.reshape((nn_dist.shape[0], 1)),
            )
        ),
        columns=[
            "distance",
            "coord_x",
            "coord_y",
            "coord_z",
            "coord_rx",
            "coord_ry",
            "coord_rz",
            "angular_distance",
            "rot_x",
            "rot_y",
            "rot_z",
            "phi",
            "theta",
            "psi",
            "subtomo_idx",
            "subtomo_nn_idx",
        ],
    )

    nn_stats["type"] = "nn"

    return nn_stats


def get_nn_distances(motl_a, motl_nn, pixel_size=1.0, nn_number=1, feature="tomo_id", rotation_type="angular_distance"):
    """Get nearest neighbor distances and related information between two sets of particles.

    Parameters
    ----------
    motl_a : str or Motl
        Path to the first motl file or a Motl object containing the first set of particles.
    motl_nn : str or Motl
        Path to the second motl file or a Motl object containing the second set of particles.
    pixel_size : float, default=1.0
        The size of a pixel in the same units as the coordinates. Default is 1.0.
    nn_number : int, default=1
        The number of nearest neighbors to consider. Default is 1.
    feature : str, default='tomo_id'
        The feature to use for splitting the particles. Default is 'tomo_id'.
    rotation_type : str, default='angular_distance'
        The type of rotation distance to compute. Default is 'angular_distance'.

    Returns
    -------
    centered_coord : np.ndarray
        The coordinates of the nearest neighbors centered around the reference particles.
    rotated_coord : np.ndarray
        The coordinates of the nearest neighbors after applying the rotation.
    nn_dist : np.ndarray
        The distances to the nearest neighbors.
    angular_distances : np.ndarray
        The angular distances between the reference particles and their nearest neighbors.
    subtomo_idx : np.ndarray
        The subtomo IDs of the reference motifs.
    subtomo_idx_nn : np.ndarray
        The subtomo IDs of the nearest neighbors.

    Notes
    -----
    This function assumes that the input motifs have angle information and that the
    motl files are compatible with the Motl class. The function will only work with
    the intersection of features present in both motls.
    """

    if isinstance(motl_a, str):
        motl_a = cryomotl.Motl(motl_path=motl_a)

    if isinstance(motl_nn, str):
        motl_nn = cryomotl.Motl(motl_path=motl_nn)

    # Get unique feature idx
    features_a = np.unique(motl_a.df.loc[:, feature].values)
    features_nn = np.unique(motl_nn.df.loc[:, feature].values)

    # Work only with intersection
    features = np.intersect1d(features_a, features_nn, assume_unique=True)

    centered_coord = []
    nn_dist = []
    angular_distances = []
    rotated_coord = []
    subtomo_idx = []
    subtomo_idx_nn = []

    for f in features:
        fm_a = motl_a.get_motl_subset(f, feature_id=feature)
        fm_nn = motl_nn.get_motl_subset(f, feature_id=feature)

        idx, nn_idx, dist, nn_count = get_feature_nn_indices(fm_a, fm_nn, nn_number)

        if len(idx) == 0:
            continue

        coord_nn = fm_nn.get_coordinates() * pixel_size
        coord_a = fm_a.get_coordinates() * pixel_size

        # get angles
        angles_a = fm_a.get_angles()
        angles_a = angles_a[idx, :]
        angles_nn = fm_nn.get_angles()
        rotations = srot.from_euler("zxz", angles=angles_a, degrees=True)

        angles = -fm_a.df[["psi", "theta", "phi"]].values
        angles = angles[idx, :]
        rot = srot.from_euler("zxz", angles=angles, degrees=True)

        subtomos_nn = fm_nn.df["subtomo_id"].to_numpy()
        subtomos_a = fm_a.df["subtomo_id"].to_numpy()

        for i in range(nn_count):
            c_coord = coord_nn[nn_idx[:, i], :] - coord_a[idx, :]
            centered_coord.append(c_coord)
            nn_dist.append(dist[:, i] * pixel_size)

            angles_nn_sel = angles_nn[nn_idx[:, i], :]

            rotations_nn = srot.from_euler("zxz", angles=angles_nn_sel, degrees=True)
            angular_distances.append(geom.compare_rotations(rotations, rotations_nn, rotation_type=rotation_type))

            rotated_coord.append(rot.apply(c_coord))

            subtomo_idx_nn.append(subtomos_nn[nn_idx[:, i]])
            subtomo_idx.append(subtomos_a[idx])

    return (
        np.vstack(centered_coord),
        np.vstack(rotated_coord),
        np.concatenate(nn_dist),
        np.concatenate(angular_distances),
        np.concatenate(subtomo_idx),
        np.concatenate(subtomo_idx_nn),
    )


def get_nn_rotations(motl_a, motl_nn, nn_number=1, feature="tomo_id", type_id="geom1"):
    """Get nearest neighbor rotations based on specified features from two motl objects.

    Parameters
    ----------
    motl_a : str or Motl
        The path to the first motl file or a Motl object containing the first set of data.
    motl_nn : str or Motl
        The path to the second motl file or a Motl object containing the nearest neighbor data.
    nn_number : int, default=1
        The number of nearest neighbors to consider for each feature. Dfault is 1.
    feature : str, default='tomo_id'
        The feature used to identify unique elements in the motl data. Default is 'tomo_id'.
    type_id : str, default='geom1'
        The type identifier for the geometry. Default is 'geom1'.

    Returns
    -------
    points_on_sphere : ndarray
        An array of points on the sphere representing the rotations.
    angles : ndarray
        An array of Euler angles corresponding to the computed rotations in degrees.

    Notes
    -----
    This function assumes that the input motl objects or paths contain the necessary data
    and that the `get_motl_subset` and `get_angles` methods are available for the Motl class.
    """

    if isinstance(motl_a, str):
        motl_a = cryomotl.Motl(motl_path=motl_a)

    if isinstance(motl_nn, str):
        motl_nn = cryomotl.Motl(motl_path=motl_nn)

    # Get unique feature idx
    features_a = np.unique(motl_a.df.loc[:, feature].values)
    features_nn = np.unique(motl_nn.df.loc[:, feature].values)

    # Work only with intersection
    features = np.intersect1d(features_a, features_nn, assume_unique=True)

    nn_rotations = []

    for f in features:
        fm_a = motl_a.get_motl_subset(f, feature_id=feature)
        fm_nn = motl_nn.get_motl_subset(f, feature_id=feature)

        idx, idx_nn, _, nn_count = get_feature_nn_indices(fm_a, fm_nn, nn_number)

        angles_nn = fm_nn.get_angles()
        angles_ref_to_zero = -fm_a.get_feature(["psi", "theta", "phi"])
        rot_to_zero = srot.from_euler("zxz", angles=angles_ref_to_zero[idx, :], degrees=True)

        for i in range(nn_count):
            rot_nn = srot.from_euler("zxz", angles=angles_nn[idx_nn[:, i], :], degrees=True)
            nn_rotations.append(rot_to_zero * rot_nn)

    nn_rotations = srot.concatenate(nn_rotations)
    points_on_sphere = geom.visualize_rotations(nn_rotations, plot_rotations=False)
    angles = nn_rotations.as_euler("zxz", degrees=True)

    return points_on_sphere, angles
'''


import contextlib
import io
import warnings

import numpy as np
import pandas as pd
from scipy.spatial.transform import Rotation as srot

warnings.filterwarnings("ignore")

from cryocat import cryomotl, nnana, geom  # noqa: E402

# --------------------------------------------------------------------------------------------------------------
# the original functions, executed in a namespace of their own (so that they call each other, not the tree's)
# --------------------------------------------------------------------------------------------------------------
ORIG = {
    "np": np,
    "pd": pd,
    "cryomotl": cryomotl,
    "srot": srot,
    "geom": geom,
    "sn": nnana.sn,
    "__name__": "orig_nnana",
}
exec(compile(ORIGINAL_TEXT, "<original nnana functions>", "exec"), ORIG)

STAT_COLS = [
    "distance", "coord_x", "coord_y", "coord_z", "coord_rx", "coord_ry", "coord_rz", "angular_distance",
    "rot_x", "rot_y", "rot_z", "phi", "theta", "psi", "subtomo_idx", "subtomo_nn_idx",
]

failures = []


def check(cond, msg):
    if not cond:
        failures.append(msg)
        if len(failures) < 20:
            print("FAIL:", msg)


def quiet(fn, *args, **kwargs):
    """call fn with stdout swallowed (progress lines are not part of the property)"""
    buf = io.StringIO()
    with contextlib.redirect_stdout(buf):
        return fn(*args, **kwargs)


def outcome(fn, *args, **kwargs):
    try:
        return ("ok", quiet(fn, *args, **kwargs))
    except Exception as e:  # noqa: BLE001
        return ("exc", type(e).__name__)


# --------------------------------------------------------------------------------------------------------------
# input generation
# --------------------------------------------------------------------------------------------------------------
def make_motl(rng, n, tomos, id_offset=0, shifts=True, box=200.0, int_positions=True):
    df = pd.DataFrame(0.0, index=np.arange(n), columns=cryomotl.Motl.motl_columns)
    df["score"] = rng.random(n)
    df["subtomo_id"] = (rng.permutation(n) + 1 + id_offset).astype(float)
    t = rng.choice(np.asarray(tomos, dtype=float), size=n)
    # every requested tomogram is present when there is room for it
    for j, tv in enumerate(tomos[: min(len(tomos), n)]):
        t[j] = tv
    df["tomo_id"] = rng.permutation(t)
    df["object_id"] = rng.integers(1, 4, n).astype(float)
    pos = rng.random((n, 3)) * box
    if int_positions and shifts:  # whole-number positions without shifts could tie
        pos = np.floor(pos)
    df[["x", "y", "z"]] = pos
    if shifts:
        df[["shift_x", "shift_y", "shift_z"]] = rng.random((n, 3)) * 2 - 1
    df["phi"] = rng.random(n) * 360 - 180
    df["psi"] = rng.random(n) * 360 - 180
    df["theta"] = rng.random(n) * 178 + 1
    df["class"] = 1.0
    return cryomotl.Motl(motl_df=df)


def rigid_move(motl, tomo_motions):
    """rotate positions and orientations of every tomogram by its own Q and translate by its own t"""
    df = motl.df.copy()
    for tomo, (Q, t) in tomo_motions.items():
        m = (df["tomo_id"] == tomo).values
        if not m.any():
            continue
        pos = df.loc[m, ["x", "y", "z"]].values + df.loc[m, ["shift_x", "shift_y", "shift_z"]].values
        new_pos = Q.apply(pos) + t
        df.loc[m, ["x", "y", "z"]] = new_pos
        df.loc[m, ["shift_x", "shift_y", "shift_z"]] = 0.0
        R = srot.from_euler("zxz", df.loc[m, ["phi", "theta", "psi"]].values, degrees=True)
        e = (Q * R).as_euler("zxz", degrees=True)
        df.loc[m, "phi"] = e[:, 0]
        df.loc[m, "theta"] = e[:, 1]
        df.loc[m, "psi"] = e[:, 2]
    return cryomotl.Motl(motl_df=df)


# --------------------------------------------------------------------------------------------------------------
# independent computation: brute force over all candidates, rotation matrices written out by hand
# --------------------------------------------------------------------------------------------------------------
def rz(a):
    c, s = np.cos(a), np.sin(a)
    return np.array([[c, -s, 0.0], [s, c, 0.0], [0.0, 0.0, 1.0]])


def rx(a):
    c, s = np.cos(a), np.sin(a)
    return np.array([[1.0, 0.0, 0.0], [0.0, c, -s], [0.0, s, c]])


def rot_matrix(phi, theta, psi):
    # extrinsic z(phi) x(theta) z(psi): first phi about z, then theta about x, then psi about z
    p, t, s = np.radians([phi, theta, psi])
    return rz(s) @ rx(t) @ rz(p)


def brute_force(df_a, df_nn, k, pixel_size):
    rows = []
    rel = []
    shared = sorted(set(df_a["tomo_id"]) & set(df_nn["tomo_id"]))
    for tomo in shared:
        a = df_a[df_a["tomo_id"] == tomo]
        b = df_nn[df_nn["tomo_id"] == tomo]
        pa = a[["x", "y", "z"]].values + a[["shift_x", "shift_y", "shift_z"]].values
        pb = b[["x", "y", "z"]].values + b[["shift_x", "shift_y", "shift_z"]].values
        kk = min(k, len(b))
        d = np.sqrt(((pa[:, None, :] - pb[None, :, :]) ** 2).sum(axis=2))
        order = np.argsort(d, axis=1, kind="stable")
        Ra = [rot_matrix(*r) for r in a[["phi", "theta", "psi"]].values]
        Rb = [rot_matrix(*r) for r in b[["phi", "theta", "psi"]].values]
        ida = a["subtomo_id"].values
        idb = b["subtomo_id"].values
        for i in range(kk):
            for q in range(len(a)):
                j = order[q, i]
                off = (pb[j] - pa[q]) * pixel_size
                relm = Ra[q].T @ Rb[j]
                ang = np.degrees(np.arccos(np.clip((np.trace(relm) - 1.0) / 2.0, -1.0, 1.0)))
                rows.append(
                    [d[q, j] * pixel_size, *off, *(Ra[q].T @ off), ang, *(relm @ np.array([0.0, 0.0, 1.0])), ida[q], idb[j]]
                )
                rel.append(relm)
    return np.array(rows), np.array(rel)


def stats_rel_matrices(stats):
    return srot.from_euler("zxz", stats[["phi", "theta", "psi"]].values, degrees=True).as_matrix()


def check_against_brute_force(stats, df_a, df_nn, k, pixel_size, tag):
    bf, rel = brute_force(df_a, df_nn, k, pixel_size)
    check(list(stats.columns) == STAT_COLS + ["type"], f"{tag}: columns")
    check(stats.shape[0] == bf.shape[0], f"{tag}: number of rows {stats.shape[0]} != {bf.shape[0]}")
    if stats.shape[0] != bf.shape[0]:
        return
    v = stats[STAT_COLS].values.astype(float)
    check(np.array_equal(v[:, 14], bf[:, 11]), f"{tag}: query subtomo ids")
    check(np.array_equal(v[:, 15], bf[:, 12]), f"{tag}: neighbour subtomo ids")
    check(np.allclose(v[:, 0], bf[:, 0], rtol=1e-9, atol=1e-9), f"{tag}: distances")
    check(np.allclose(v[:, 1:4], bf[:, 1:4], rtol=1e-9, atol=1e-9), f"{tag}: offsets")
    check(np.allclose(v[:, 4:7], bf[:, 4:7], rtol=1e-8, atol=1e-7), f"{tag}: particle-frame offsets")
    check(np.allclose(v[:, 7], bf[:, 7], atol=1e-4), f"{tag}: angular distance")
    check(np.allclose(v[:, 8:11], bf[:, 8:11], atol=1e-8), f"{tag}: z-normal of the relative orientation")
    check(np.allclose(stats_rel_matrices(stats), rel, atol=1e-8), f"{tag}: relative orientation")
    check((stats["type"] == "nn").all(), f"{tag}: type column")


def check_invariance(stats, moved_stats, tag):
    check(stats.shape == moved_stats.shape, f"{tag}: shape after rigid motion")
    if stats.shape != moved_stats.shape:
        return
    a = stats[STAT_COLS].values.astype(float)
    b = moved_stats[STAT_COLS].values.astype(float)
    check(np.array_equal(a[:, 14:16], b[:, 14:16]), f"{tag}: neighbours after rigid motion")
    check(np.allclose(a[:, 0], b[:, 0], rtol=1e-9, atol=1e-7), f"{tag}: distance not invariant")
    check(np.allclose(a[:, 4:7], b[:, 4:7], rtol=1e-8, atol=1e-6), f"{tag}: particle-frame offset not invariant")
    check(np.allclose(a[:, 7], b[:, 7], atol=1e-4), f"{tag}: angular distance not invariant")
    check(np.allclose(a[:, 8:11], b[:, 8:11], atol=1e-8), f"{tag}: rot_xyz not invariant")
    check(
        np.allclose(stats_rel_matrices(stats), stats_rel_matrices(moved_stats), atol=1e-8),
        f"{tag}: relative orientation not invariant",
    )


# --------------------------------------------------------------------------------------------------------------
# patched vs original, bit for bit
# --------------------------------------------------------------------------------------------------------------
def same_array(x, y):
    x = np.asarray(x)
    y = np.asarray(y)
    return x.shape == y.shape and x.dtype == y.dtype and np.array_equal(x, y, equal_nan=True)


def same_outcome(o1, o2, tag):
    check(o1[0] == o2[0], f"{tag}: one raised, the other did not ({o1[0]} {o2[0]})")
    if o1[0] != o2[0]:
        return
    if o1[0] == "exc":
        check(o1[1] == o2[1], f"{tag}: different exception {o1[1]} / {o2[1]}")
        return
    r1, r2 = o1[1], o2[1]
    if isinstance(r1, pd.DataFrame):
        check(list(r1.columns) == list(r2.columns), f"{tag}: columns differ")
        check(list(r1.dtypes) == list(r2.dtypes), f"{tag}: dtypes differ")
        check(r1.index.equals(r2.index), f"{tag}: index differs")
        check(r1.equals(r2), f"{tag}: tables differ")
    else:
        check(len(r1) == len(r2), f"{tag}: tuple length")
        for n, (x, y) in enumerate(zip(r1, r2)):
            if isinstance(x, (int, np.integer)) and not isinstance(x, np.ndarray):
                check(type(x) is type(y) and x == y, f"{tag}: element {n} differs")
            else:
                check(same_array(x, y), f"{tag}: element {n} differs")


def compare_with_original(ma, mn, k, px, rotation_type, tag):
    same_outcome(
        outcome(nnana.get_nn_stats, ma, mn, pixel_size=px, nn_number=k, rotation_type=rotation_type),
        outcome(ORIG["get_nn_stats"], ma, mn, pixel_size=px, nn_number=k, rotation_type=rotation_type),
        f"{tag}: get_nn_stats",
    )
    same_outcome(
        outcome(nnana.get_nn_distances, ma, mn, pixel_size=px, nn_number=k, rotation_type=rotation_type),
        outcome(ORIG["get_nn_distances"], ma, mn, pixel_size=px, nn_number=k, rotation_type=rotation_type),
        f"{tag}: get_nn_distances",
    )
    same_outcome(
        outcome(nnana.get_nn_rotations, ma, mn, nn_number=k),
        outcome(ORIG["get_nn_rotations"], ma, mn, nn_number=k),
        f"{tag}: get_nn_rotations",
    )


def compare_indices_with_original(ma, mn, k, tag):
    for tomo in sorted(set(ma.df["tomo_id"]) & set(mn.df["tomo_id"])):
        fa = ma.get_motl_subset(tomo)
        fn = mn.get_motl_subset(tomo)
        for rep in range(2):
            same_outcome(
                outcome(nnana.get_feature_nn_indices, fa, fn, k),
                outcome(ORIG["get_feature_nn_indices"], fa, fn, k),
                f"{tag}: get_feature_nn_indices tomo {tomo} call {rep}",
            )


# --------------------------------------------------------------------------------------------------------------
# the runs
# --------------------------------------------------------------------------------------------------------------
def one_case(rng, case, na, nb, tomos_a, tomos_b, k, px, coincident=False, shifts=True, int_positions=True):
    tag = f"case {case} (na={na}, nb={nb}, ta={tomos_a}, tb={tomos_b}, k={k}, px={px!r}, same={coincident})"
    ma = make_motl(rng, na, tomos_a, shifts=shifts, int_positions=int_positions)
    mn = ma if coincident else make_motl(rng, nb, tomos_b, id_offset=1000, shifts=shifts, int_positions=int_positions)
    before_a = ma.df.copy(deep=True)
    before_n = mn.df.copy(deep=True)

    shared = set(ma.df["tomo_id"]) & set(mn.df["tomo_id"])
    if not shared:
        # nothing to analyse: the behaviour (an exception) has to be the original one
        compare_with_original(ma, mn, k, px, "angular_distance", tag)
        return 0

    stats = quiet(nnana.get_nn_stats, ma, mn, pixel_size=px, nn_number=k)
    check_against_brute_force(stats, before_a, before_n, k, float(px), tag)

    # a second and third call on the same objects give the same table
    for rep in (2, 3):
        again = quiet(nnana.get_nn_stats, ma, mn, pixel_size=px, nn_number=k)
        check(again.equals(stats), f"{tag}: call {rep} on the same objects differs from call 1")

    # rigid motion, one (Q, t) per tomogram
    motions = {
        t: (srot.random(random_state=int(rng.integers(1 << 31))), rng.normal(size=3) * 300)
        for t in set(tomos_a) | set(tomos_b)
    }
    ma_m = rigid_move(ma, motions)
    mn_m = ma_m if coincident else rigid_move(mn, motions)
    moved = quiet(nnana.get_nn_stats, ma_m, mn_m, pixel_size=px, nn_number=k)
    check_invariance(stats, moved, tag)

    # the same with the original functions
    for rt in ("angular_distance", "cone_distance", "in_plane_distance"):
        compare_with_original(ma, mn, k, px, rt, tag + " " + rt)
    compare_with_original(ma_m, mn_m, k, px, "angular_distance", tag + " moved")
    compare_indices_with_original(ma, mn, k, tag)

    # the table of call 1 is still what it was, the inputs are untouched
    final = quiet(nnana.get_nn_stats, ma, mn, pixel_size=px, nn_number=k)
    check(final.equals(stats), f"{tag}: last call differs from the first")
    check(ma.df.equals(before_a) and list(ma.df.columns) == list(before_a.columns), f"{tag}: first list modified")
    check(mn.df.equals(before_n) and list(mn.df.columns) == list(before_n.columns), f"{tag}: second list modified")
    check(ma.df.index.equals(before_a.index) and mn.df.index.equals(before_n.index), f"{tag}: index modified")
    return stats.shape[0]


def returned_arrays_are_private(rng):
    """what get_feature_nn_indices hands out belongs to the caller: scribbling on it must not show up later"""
    ma = make_motl(rng, 40, [1])
    mn = make_motl(rng, 50, [1], id_offset=1000)
    for k in (1, 3):
        ref = quiet(ORIG["get_feature_nn_indices"], ma, mn, k)
        r1 = quiet(nnana.get_feature_nn_indices, ma, mn, k)
        same_outcome(("ok", r1), ("ok", ref), f"private arrays k={k}: first call")
        r1[0][:] = -7
        r1[1][:] = -5
        r1[2][:] = -1.0
        r2 = quiet(nnana.get_feature_nn_indices, ma, mn, k)
        same_outcome(("ok", r2), ("ok", ref), f"private arrays k={k}: call after the caller overwrote the result")
        check(not np.shares_memory(r1[1], r2[1]) and not np.shares_memory(r1[2], r2[2]), "results share memory")
        check(r2[1].flags.writeable and r2[2].flags.writeable and r2[0].flags.writeable, "result not writeable")


def same_object_new_contents(rng):
    """the same Motl objects with edited contents: the answer follows the contents"""
    ma = make_motl(rng, 60, [1, 2])
    mn = make_motl(rng, 70, [1, 2], id_offset=1000)
    for step in range(6):
        s_new = quiet(nnana.get_nn_stats, ma, mn, pixel_size=1.7, nn_number=2)
        s_old = quiet(ORIG["get_nn_stats"], ma, mn, pixel_size=1.7, nn_number=2)
        same_outcome(("ok", s_new), ("ok", s_old), f"edited contents step {step}")
        check_against_brute_force(s_new, ma.df.copy(), mn.df.copy(), 2, 1.7, f"edited contents step {step}")
        if step % 3 == 0:
            mn.df.loc[:, "x"] = mn.df["x"].values[::-1].copy()  # positions permuted among the particles
        elif step % 3 == 1:
            ma.df.loc[:, "shift_z"] = ma.df["shift_z"] + 0.25
        else:
            mn.df.loc[:, ["phi", "theta"]] = mn.df[["phi", "theta"]].values * 0.5  # only the orientations


def swapped_roles_and_many_inputs(rng):
    """many different inputs in a row, then the first ones again, a / nn swapped, k changed"""
    pairs = [(make_motl(rng, int(rng.integers(3, 30)), [5]), make_motl(rng, int(rng.integers(6, 30)), [5], 1000))
             for _ in range(80)]
    for rnd in range(2):
        for n, (ma, mn) in enumerate(pairs):
            k = 1 + (n + rnd) % 5
            for x, y in ((ma, mn), (mn, ma)):
                same_outcome(
                    outcome(nnana.get_feature_nn_indices, x, y, k),
                    outcome(ORIG["get_feature_nn_indices"], x, y, k),
                    f"many inputs round {rnd} pair {n} k={k}",
                )


def main():
    rng = np.random.default_rng(20240518)
    rows = 0
    case = 0
    pixel_sizes = [1.0, 1, 2, 0.5, 1.35, 7.84, np.float32(2.5), np.float64(3.3), 13.33]
    tomo_sets = [[1], [1, 2], [3, 7, 12], [2, 4, 6, 9]]

    # edge cases first
    edge = [
        dict(na=1, nb=1, tomos_a=[1], tomos_b=[1], k=1, px=1.0),
        dict(na=1, nb=1, tomos_a=[1], tomos_b=[1], k=5, px=2.0),
        dict(na=1, nb=200, tomos_a=[4], tomos_b=[4], k=5, px=1.35),
        dict(na=200, nb=1, tomos_a=[4], tomos_b=[4], k=3, px=0.5),
        dict(na=200, nb=200, tomos_a=[1, 2, 3, 4], tomos_b=[1, 2, 3, 4], k=5, px=3),
        dict(na=3, nb=2, tomos_a=[1, 2], tomos_b=[1, 2], k=5, px=1.0),  # fewer candidates than k
        dict(na=10, nb=10, tomos_a=[1, 2], tomos_b=[3, 4], k=1, px=1.0),  # nothing shared
        dict(na=30, nb=40, tomos_a=[1, 2, 3], tomos_b=[2, 3, 5], k=2, px=2.2),  # partly disjoint
        dict(na=50, nb=0, tomos_a=[1, 2], tomos_b=[], k=1, px=1.0, coincident=True),
        dict(na=50, nb=0, tomos_a=[1, 2, 3, 4], tomos_b=[], k=5, px=4.4, coincident=True),
        dict(na=1, nb=0, tomos_a=[9], tomos_b=[], k=1, px=1.0, coincident=True),
        dict(na=25, nb=25, tomos_a=[1], tomos_b=[1], k=4, px=1.0, shifts=False),
        dict(na=25, nb=35, tomos_a=[1, 2], tomos_b=[1, 2], k=4, px=np.float32(2.5), int_positions=False),
    ]
    for e in edge:
        case += 1
        rows += one_case(rng, case, **e)

    for _ in range(70):
        case += 1
        ta = tomo_sets[int(rng.integers(len(tomo_sets)))]
        coincident = rng.random() < 0.2
        if coincident:
            tb = ta
        else:
            r = rng.random()
            if r < 0.6:
                tb = ta
            elif r < 0.9:
                tb = sorted(set(ta[: max(1, len(ta) - 1)]) | {int(rng.integers(20, 25))})[:4]
            else:
                tb = [int(rng.integers(30, 35))]
        na = int(rng.integers(1, 201))
        nb = int(rng.integers(1, 201))
        k = int(rng.integers(1, 6))
        px = pixel_sizes[int(rng.integers(len(pixel_sizes)))]
        if rng.random() < 0.3:
            px = float(rng.random() * 10 + 0.01)
        rows += one_case(rng, case, na, nb, ta, tb, k, px, coincident=coincident, shifts=rng.random() < 0.8,
                         int_positions=rng.random() < 0.7)

    returned_arrays_are_private(rng)
    same_object_new_contents(rng)
    swapped_roles_and_many_inputs(rng)

    if failures:
        print(f"{len(failures)} check(s) failed")
        print("FAIL")
        return 1
    print(f"{case} cases, {rows} neighbour rows checked against brute force, rigid motion and the original functions")
    print("PASS")
    return 0


if __name__ == "__main__":
    sys.exit(main())
