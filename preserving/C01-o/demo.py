"""C01 demo: EM particle-list files round-trip losslessly for any table column order.

Run as:  cd /tmp/wt7/C01 && /venv/bin/python /tmp/seedsT/C01/<v>/demo.py   (v = a, b, c; same harness, own extras)

Part 1 tests the property against an independent computation: the written file is parsed with `struct`
(no emfile, no cryocat), the expected bytes are packed value by value from the source table *by field name*,
and the loaded table is compared bit for bit with the single-precision rounding of the source.
Part 2 compares the current (possibly patched) functions with a verbatim copy of the original ones.
"""
import sys, os

sys.path.insert(0, os.getcwd())

import itertools, struct, tempfile, textwrap, copy, math
from pathlib import Path
import numpy as np
import pandas as pd

import cryocat.cryomotl as cm
from cryocat.cryomotl import Motl, EmMotl
from cryocat.exceptions import UserInputError

# ------------------------------------------------------------------------------------------------------------------
# independent statement of the format
FIELDS = ["score", "geom1", "geom2", "subtomo_id", "tomo_id", "object_id", "subtomo_mean", "x", "y", "z",
          "shift_x", "shift_y", "shift_z", "geom3", "geom4", "geom5", "phi", "psi", "theta", "class"]
assert len(FIELDS) == 20 and len(set(FIELDS)) == 20
HEADER = 512
F32_MAX = 3.4028234663852886e38
F32_TINY = 1.1754943508222875e-38

n_checks = 0


def ok(cond, msg):
    global n_checks
    n_checks += 1
    if not cond:
        print("FAIL:", msg)
        sys.exit(1)


def parse_em(path):
    """Independent EM parser: returns (zdim, ydim, xdim), raw payload bytes."""
    raw = Path(path).read_bytes()
    ok(len(raw) >= HEADER, "file shorter than an EM header")
    machine, version, unused, dtype = struct.unpack("<4b", raw[:4])
    xdim, ydim, zdim = struct.unpack("<3i", raw[4:16])
    ok(machine == 6, f"machine code {machine}")
    ok(dtype == 5, f"EM dtype code {dtype}, expected 5 (float32)")
    ok(len(raw) == HEADER + 4 * xdim * ydim * zdim, "payload size does not match the header dimensions")
    return (zdim, ydim, xdim), raw[HEADER:]


def expected_payload(table):
    """Pack the table row by row, field by field (looked up BY NAME), NaN -> 0, as little-endian float32."""
    out = []
    cols = {f: table[f].tolist() for f in FIELDS}
    for r in range(len(table)):
        for f in FIELDS:
            v = cols[f][r]
            v = 0.0 if (isinstance(v, float) and math.isnan(v)) else float(v)
            out.append(struct.pack("<f", v))
    return b"".join(out)


def expected_loaded(table):
    pay = expected_payload(table)
    n = len(table)
    vals = np.array(struct.unpack(f"<{n * 20}f", pay), dtype=np.float64).reshape(n, 20)
    return vals


def check_loaded(df, table, what):
    ok(isinstance(df, pd.DataFrame), what + ": not a DataFrame")
    ok(list(df.columns) == FIELDS, what + f": columns {list(df.columns)}")
    ok(df.shape == (len(table), 20), what + f": shape {df.shape}")
    ok(isinstance(df.index, pd.RangeIndex) and df.index.start == 0 and df.index.step == 1, what + ": index")
    ok(all(dt == np.float64 for dt in df.dtypes), what + ": dtypes")
    got = df.to_numpy()
    exp = expected_loaded(table)
    ok(got.dtype == np.float64 and np.array_equal(got.view(np.int64), exp.view(np.int64)),
       what + ": loaded values differ from the single-precision rounding")


def check_file(path, table, what):
    shape, pay = parse_em(path)
    ok(shape == (1, len(table), 20), what + f": EM shape {shape}, expected (1, {len(table)}, 20)")
    ok(pay == expected_payload(table), what + ": payload bytes differ from the independent packing")


# ------------------------------------------------------------------------------------------------------------------
# inputs
rng = np.random.default_rng(int(os.environ.get("VERIF_SEED", "20260928")))


def value_block(n, kind):
    if kind == "normal":
        a = rng.normal(0, 1000, (n, 20))
    elif kind == "intlike":
        a = rng.integers(-500, 5000, (n, 20)).astype(float)
    elif kind == "zeros":
        a = np.zeros((n, 20))
        a[::2, ::3] = -0.0
    elif kind == "rounding":
        pool = np.array([0.1, 1 / 3, 16777217.0, -16777217.0, 1e-45, -1e-45, 7e-46, F32_MAX, -F32_MAX, F32_TINY,
                         F32_TINY / 2, 1 + 2.0**-24, 1 + 2.0**-24 + 2.0**-40, 359.99999999, -180.0, 180.0, 1e30, 2.5])
        a = rng.choice(pool, (n, 20))
    elif kind == "distinct":
        a = (np.arange(n)[:, None] * 100 + np.arange(20)[None, :] + 0.5).astype(float)
    else:
        raise ValueError(kind)
    return a


def nan_holes(a, kind):
    a = a.copy()
    n = a.shape[0]
    if kind == "none":
        pass
    elif kind == "random":
        a[rng.random(a.shape) < 0.2] = np.nan
    elif kind == "corners":
        a[0, 0] = np.nan; a[-1, -1] = np.nan; a[0, -1] = np.nan; a[-1, 0] = np.nan
    elif kind == "column":
        a[:, rng.integers(0, 20)] = np.nan
    elif kind == "row":
        a[rng.integers(0, n), :] = np.nan
    elif kind == "all":
        a[:] = np.nan
    return a


def permutations():
    yield "canonical", list(FIELDS)
    yield "reversed", list(reversed(FIELDS))
    yield "sorted", sorted(FIELDS)
    yield "rot1", FIELDS[1:] + FIELDS[:1]
    yield "swap_angles", [{"psi": "theta", "theta": "psi"}.get(f, f) for f in FIELDS]
    for k in range(4):
        yield f"random{k}", [FIELDS[i] for i in rng.permutation(20)]


def make_index(n, kind):
    if kind == "default":
        return None
    if kind == "shuffled":
        return rng.permutation(n)
    if kind == "gaps":
        return np.arange(n) * 10 + 7
    if kind == "strings":
        return [f"p{i}" for i in range(n)]
    if kind == "float":
        return np.arange(n) + 0.5
    if kind == "duplicate":
        return np.zeros(n, dtype=int)
    if kind == "reversed":
        return np.arange(n)[::-1]
    raise ValueError(kind)


def build_table(values, perm, how, index_kind, int_cols=()):
    """A table with the 20 fields in the order `perm`; values[:, j] belongs to FIELDS[j]."""
    n = values.shape[0]
    by_name = {f: values[:, j] for j, f in enumerate(FIELDS)}
    idx = make_index(n, index_kind)
    if how == "dict":
        df = pd.DataFrame({f: by_name[f].copy() for f in perm}, index=idx)
    elif how == "reorder":
        df = pd.DataFrame(values.copy(), columns=FIELDS, index=idx)[perm]
    elif how == "array":
        df = pd.DataFrame(np.column_stack([by_name[f] for f in perm]), columns=perm, index=idx)
    else:
        raise ValueError(how)
    for c in int_cols:
        if not df[c].isna().any():
            df[c] = df[c].round().astype(np.int64)
    ok(list(df.columns) == list(perm), "test construction")
    return df


def cases():
    sizes = [1, 2, 3, 5, 20, 21, 64, 257]
    vkinds = ["normal", "intlike", "zeros", "rounding", "distinct"]
    nkinds = ["none", "random", "corners", "column", "row", "all"]
    ikinds = ["default", "shuffled", "gaps", "strings", "float", "duplicate", "reversed"]
    hows = ["dict", "reorder", "array"]
    perms = list(permutations())
    k = 0
    # every permutation x every size at least once, the other axes cycled
    for (pname, perm), n in itertools.product(perms, sizes):
        vk = vkinds[k % len(vkinds)]; nk = nkinds[(k // 2) % len(nkinds)]; ik = ikinds[k % len(ikinds)]
        how = hows[k % len(hows)]
        ints = ("tomo_id", "class", "subtomo_id") if (k % 4 == 1 and vk in ("intlike", "normal")) else ()
        k += 1
        vals = nan_holes(value_block(n, vk), nk)
        yield f"{pname}/N={n}/{vk}/{nk}/{ik}/{how}/ints={bool(ints)}", build_table(vals, perm, how, ik, ints)
    # every axis value with a random permutation
    for vk, nk, ik, how in itertools.product(vkinds, nkinds, ikinds, hows):
        n = int(rng.choice(sizes[:6]))
        perm = [FIELDS[i] for i in rng.permutation(20)]
        vals = nan_holes(value_block(n, vk), nk)
        yield f"rand/N={n}/{vk}/{nk}/{ik}/{how}", build_table(vals, perm, how, ik)


# ------------------------------------------------------------------------------------------------------------------
# verbatim copy of the original functions (tree 6462733)
ORIG_MOTL = '''
    @staticmethod
    def check_df_correct_format(input_df):
        if sorted(Motl.motl_columns) == sorted(input_df.columns):
            return True
        else:
            return False

    def check_df_type(self, input_motl):
        if Motl.check_df_correct_format(input_motl):
            self.df = input_motl.copy()
            self.df.reset_index(inplace=True, drop=True)
            self.df = self.df.fillna(0.0)
        else:
            self.convert_to_motl(input_motl)
'''

ORIG_EMMOTL = '''
    def __init__(self, input_motl=None, header=None):
        if input_motl is not None:
            if isinstance(input_motl, EmMotl):
                self.df = input_motl.df.copy()
                self.header = copy.deepcopy(input_motl.header)
            elif isinstance(input_motl, pd.DataFrame):
                self.check_df_type(input_motl)
            elif isinstance(input_motl, (str, Path)):
                self.df, self.header = self.read_in(input_motl)
            else:
                raise UserInputError(
                    f"Provided input_motl is neither DataFrame nor path to the motl file: {input_motl}."
                )
        else:
            self.df = Motl.create_empty_motl_df()

        self.header = header if header else {}

    def convert_to_motl(self, input_df):
        raise ValueError("Provided motl does not have the correct format.")

    @staticmethod
    def read_in(emfile_path):
        if not os.path.isfile(emfile_path):
            raise UserInputError(f"Provided file {emfile_path} does not exist.")

        header, parsed_emfile = emfile.read(emfile_path)
        if not len(parsed_emfile[0][0]) == 20:
            raise UserInputError(
                f"Provided file contains {len(parsed_emfile[0][0])} columns, while 20 columns are expected."
            )

        motl_df = pd.DataFrame(data=parsed_emfile[0], dtype=float, columns=Motl.motl_columns)

        return motl_df, header

    def write_out(self, output_path):
        filled_df = self.df[Motl.motl_columns].fillna(0.0)
        motl_array = filled_df.to_numpy()
        motl_array = motl_array.reshape((1, motl_array.shape[0], motl_array.shape[1])).astype(np.single)
        self.header = {}  # FIXME fails on writing back the header
        emfile.write(output_path, motl_array, self.header, overwrite=True)
'''


def build_originals():
    ns = dict(vars(cm))
    ns["_CurMotl"], ns["_CurEmMotl"], ns["_FIELDS"] = cm.Motl, cm.EmMotl, list(FIELDS)
    src = ("class Motl(_CurMotl):\n    motl_columns = _FIELDS\n" + ORIG_MOTL + "\n\n"
           "class EmMotl(Motl):\n" + ORIG_MOTL + ORIG_EMMOTL + "\n")
    exec(compile(src, "<original functions>", "exec"), ns)
    return ns["Motl"], ns["EmMotl"]


OrigMotl, OrigEmMotl = build_originals()


def same_frame(a, b, what):
    try:
        pd.testing.assert_frame_equal(a, b, check_exact=True, check_column_type=True, check_index_type=True)
    except AssertionError as e:
        ok(False, what + ": frames differ\n" + str(e))
    ok(list(a.columns) == list(b.columns), what + ": column order")
    av, bv = a.to_numpy(dtype=float), b.to_numpy(dtype=float)
    ok(np.array_equal(np.signbit(av), np.signbit(bv)), what + ": sign of zero")


def outcome(fn):
    try:
        return ("ok", fn())
    except Exception as e:  # noqa
        return ("raise", type(e).__name__, str(e))


# ------------------------------------------------------------------------------------------------------------------
def run(extra=None):
    tmp = Path(tempfile.mkdtemp(prefix="c01demo_"))
    n_cases = 0
    for name, table in cases():
        n_cases += 1
        keep = table.copy(deep=True)
        p1, p2, p3, p4 = (tmp / f"w{i}.em" for i in range(4))

        # ---- path 1: Motl.write_out(..., 'emmotl') -------------------------------------------------------------
        m = Motl(table)
        m.write_out(str(p1), "emmotl")
        check_file(p1, keep, name + " [Motl.write_out]")
        m.write_out(str(p1), "emmotl")  # repeated call on the same object, same file
        check_file(p1, keep, name + " [Motl.write_out again]")
        m.write_out(p2)  # default type, Path object
        ok(p1.read_bytes() == p2.read_bytes(), name + ": default motl_type / Path output differs")
        m.write_out(str(p2), "EmMotl")
        ok(p1.read_bytes() == p2.read_bytes(), name + ": motl_type spelling")
        same_frame(table, keep, name + ": source table changed by Motl.write_out")
        ok(m.df is table, name + ": Motl keeps the table it was given")

        # ---- path 2: EmMotl.write_out ------------------------------------------------------------------------
        e = EmMotl(table)
        ok(list(e.df.columns) == list(keep.columns), name + ": EmMotl keeps the column order of its input")
        before = e.df.copy(deep=True)
        e.write_out(str(p3))
        check_file(p3, keep, name + " [EmMotl.write_out]")
        e.write_out(str(p3))
        check_file(p3, keep, name + " [EmMotl.write_out again]")
        same_frame(e.df, before, name + ": EmMotl.df changed by write_out")
        same_frame(table, keep, name + ": source table changed by EmMotl")
        # NaN holes arriving after construction (EmMotl filled them at construction)
        e2 = EmMotl(table)
        e2.df = table.copy()
        e2.write_out(str(p4))
        check_file(p4, keep, name + " [EmMotl.write_out, df assigned]")
        ok(p4.read_bytes() == p1.read_bytes() == p3.read_bytes(), name + ": the two paths write different files")

        # ---- load back -----------------------------------------------------------------------------------------
        for what, loaded in (("Motl.load", Motl.load(str(p1))), ("Motl.load emmotl", Motl.load(str(p3), "emmotl")),
                             ("Motl.load Path", Motl.load(p1)), ("EmMotl(path)", EmMotl(str(p3)))):
            ok(isinstance(loaded, EmMotl), name + f" [{what}]: type")
            check_loaded(loaded.df, keep, name + f" [{what}]")
        # second generation: load, write, load -- identical file
        g = Motl.load(str(p1)); g.write_out(str(p2)); g.write_out(str(p2))
        ok(p1.read_bytes() == p2.read_bytes(), name + ": second-generation file differs")
        df_r, hdr = EmMotl.read_in(str(p1))
        check_loaded(df_r, keep, name + " [EmMotl.read_in]")

        # ---- current against the original functions -------------------------------------------------------------
        o = OrigEmMotl(table)
        same_frame(o.df, EmMotl(table).df, name + ": constructor result, original vs current")
        ok(o.header == EmMotl(table).header == {}, name + ": header")
        o.write_out(str(p2))
        ok(p2.read_bytes() == p3.read_bytes(), name + ": file bytes, original vs current writer")
        o2 = OrigEmMotl(table); o2.df = table.copy(); o2.write_out(str(p2))
        ok(p2.read_bytes() == p4.read_bytes(), name + ": file bytes (df assigned), original vs current writer")
        odf, ohdr = OrigEmMotl.read_in(str(p1))
        same_frame(odf, df_r, name + ": read_in frame, original vs current")
        ok(ohdr == hdr, name + ": read_in header, original vs current")
        oo, cc = OrigEmMotl(str(p1)), EmMotl(str(p1))
        same_frame(oo.df, cc.df, name + ": EmMotl(path), original vs current")
        ok(oo.header == cc.header, name + ": EmMotl(path).header")
        same_frame(OrigEmMotl(o).df, EmMotl(e).df, name + ": copy constructor")
        ok(OrigMotl.check_df_correct_format(table) is Motl.check_df_correct_format(table) is True, name + ": format")
        if extra is not None:
            extra(name, table, keep, tmp)

    # ---- inputs that are refused: same outcome before and after ----------------------------------------------------
    good = build_table(value_block(3, "distinct"), list(FIELDS), "dict", "default")
    bad_tables = {
        "19 columns": good.drop(columns=["class"]),
        "21 columns": good.assign(extra=1.0),
        "renamed": good.rename(columns={"phi": "Phi"}),
        "duplicated": pd.concat([good.drop(columns=["class"]), good[["x"]]], axis=1),
        "integer labels": pd.DataFrame(np.zeros((2, 20))),
    }
    for what, t in bad_tables.items():
        a, b = outcome(lambda: OrigMotl.check_df_correct_format(t)), outcome(lambda: Motl.check_df_correct_format(t))
        ok(a == b, f"check_df_correct_format({what}): {a} vs {b}")
        a, b = outcome(lambda: OrigEmMotl(t).df), outcome(lambda: EmMotl(t).df)
        ok(a[0] == b[0] == "raise" and a == b, f"EmMotl({what}): {a} vs {b}")
        a = outcome(lambda: Motl(t))
        ok(a[0] == "raise" and a[1] == "ValueError", f"Motl({what}): {a}")
    missing = str(tmp / "does_not_exist.em")
    for arg in (missing, Path(missing), str(tmp), ""):
        a, b = outcome(lambda: OrigEmMotl.read_in(arg)), outcome(lambda: EmMotl.read_in(arg))
        ok(a == b and a[1] == "UserInputError", f"read_in({arg!r}): {a} vs {b}")
        a, b = outcome(lambda: OrigEmMotl(arg)), outcome(lambda: EmMotl(arg))
        ok(a == b and a[1] == "UserInputError", f"EmMotl({arg!r}): {a} vs {b}")
    for ncol in (19, 21, 1):
        p = tmp / f"cols{ncol}.em"
        hdr = struct.pack("<4b3i", 6, 0, 0, 5, ncol, 4, 1) + b"\0" * (HEADER - 16)
        p.write_bytes(hdr + np.arange(4 * ncol, dtype="<f4").tobytes())
        a, b = outcome(lambda: OrigEmMotl.read_in(str(p))), outcome(lambda: EmMotl.read_in(str(p)))
        ok(a == b and a[1] == "UserInputError", f"read_in of a {ncol}-column file: {a} vs {b}")
    # a hand-made file (not written by the library) is read field by field
    p = tmp / "hand.em"
    vals = value_block(7, "normal").astype("<f4")
    p.write_bytes(struct.pack("<4b3i", 6, 0, 0, 5, 20, 7, 1) + b"\0" * (HEADER - 16) + vals.tobytes())
    hand = pd.DataFrame(vals.astype(float), columns=FIELDS)
    check_loaded(Motl.load(str(p)).df, hand, "hand-made file")
    same_frame(OrigEmMotl(str(p)).df, EmMotl(str(p)).df, "hand-made file, original vs current")
    for arg in (123, 1.5, ["a"], {"x": 1}):
        a, b = outcome(lambda: OrigEmMotl(arg)), outcome(lambda: EmMotl(arg))
        ok(a == b and a[1] == "UserInputError", f"EmMotl({arg!r}): {a} vs {b}")
    ok(len(EmMotl().df) == 0 and list(EmMotl().df.columns) == FIELDS and EmMotl().header == {}, "EmMotl()")
    same_frame(OrigEmMotl().df, EmMotl().df, "EmMotl(), original vs current")
    ok(Motl.motl_columns == FIELDS, "Motl.motl_columns")
    return n_cases


def extra_b(name, table, keep, tmp):
    """Change b puts the on-disk field order into one table used by reader and writer: check both against it and
    check that reader and writer stay inverse to each other on a hand-packed file of the same particles."""
    table_of_names = getattr(EmMotl, "em_fields", None)
    if table_of_names is not None:  # patched tree
        ok(list(table_of_names) == FIELDS == list(Motl.motl_columns), name + ": em_fields is not the EM field order")
    p = tmp / "hand_case.em"
    n = len(keep)
    p.write_bytes(struct.pack("<4b3i", 6, 0, 0, 5, 20, n, 1) + b"\0" * (HEADER - 16) + expected_payload(keep))
    cur, old = EmMotl(str(p)), OrigEmMotl(str(p))
    check_loaded(cur.df, keep, name + " [hand-packed file]")
    same_frame(cur.df, old.df, name + ": hand-packed file, original vs current reader")
    # reader -> writer gives the hand-packed payload back, with the loaded table put into ANOTHER column order first
    q = tmp / "hand_case_back.em"
    shuffled = cur.df[[FIELDS[i] for i in rng.permutation(20)]]
    EmMotl(shuffled).write_out(str(q))
    ok(parse_em(q)[1] == expected_payload(keep), name + ": reader -> permute -> writer changes the payload")
    Motl(shuffled).write_out(str(q), "emmotl")
    ok(parse_em(q)[1] == expected_payload(keep), name + ": reader -> permute -> Motl.write_out changes the payload")


if __name__ == "__main__":
    n = run(extra_b)
    print(f"{n} tables, {n_checks} checks")
    print("PASS")
