"""C15 demo: tilt-stack operations are lossless selections / permutations of tilt images.

Run as:  cd /tmp/wt6/C15 && /venv/bin/python /tmp/seedsQ/C15/a/demo.py

Three layers of checking, for every operation in the property (sort_tilts_by_angle, remove_tilts,
split_stack_even_odd, flip_along_axes, crop, bin):
  1. against an INDEPENDENT numpy computation written from the property statement (fancy indexing / slicing / block
     means on an (n, y, x) array, MRC files written and re-read with mrcfile directly),
  2. against a verbatim copy of the ORIGINAL cryocat/tiltstack.py (ORIG_SRC below) executed on the same inputs,
  3. on repeated calls: the same array / the same file path edited in place between the 1st, 2nd and 3rd call, and
     calls issued in shuffled order.
All of it over input_order x output_order in {xyz, zyx}^2, array vs. file input, output file on / off, dtypes
float32 / int16, 2..25 tilts, non-square images 4..40.
Focus of this copy: TiltStack.__init__ loading / axis-order block extracted into a staticmethod (code moved).
"""
import sys, os

sys.path.insert(0, os.getcwd())

import contextlib
import inspect
import io
import itertools
import shutil
import tempfile
import types

import mrcfile
import numpy as np

from cryocat import tiltstack as T

FOCUS = "a"

ORIG_SRC = r'''
import os
import re
import numpy as np
from cryocat import cryomap
from cryocat import ioutils
from skimage.transform import downscale_local_mean
from skimage import exposure


class TiltStack:

    def __init__(self, tilt_stack, input_order="xyz", output_order="xyz"):

        if not isinstance(tilt_stack, np.ndarray):  # if loading necessary, load in zyx
            self.data = cryomap.read(tilt_stack, transpose=False)
            if self.data.shape == 2:
                self.data = np.expand_dims(
                    self.data, axis=0
                )  # ensure that it will always have three dimensions, for z=1 mrc returns 2d array
        else:
            self.data = tilt_stack.copy()
            if self.data.shape == 2:
                if input_order == "xyz":
                    self.data = np.expand_dims(self.data, axis=2)  # ensure that it will always have three dimensions
                else:
                    self.data = np.expand_dims(self.data, axis=0)  # ensure that it will always have three dimensions

            if input_order == "xyz":
                self.data = self.data.transpose(2, 1, 0)

        self.data_type = self.data.dtype

        self.input_order = input_order
        self.current_order = "zyx"
        self.output_order = output_order

        self.n_tilts, self.height, self.width = self.data.shape

    def write_out(self, output_file, new_data=None):
        """Writes data to a specified output file.

        Parameters
        ----------
        output_file : str
            The path to the output file where data will be written.
        new_data : optional
            The data to write to the output file. If not provided, the method will use the instance's data. Default is None.

        Returns
        -------
        None

        Notes
        -----
        This method uses the `cryomap.write` function to perform the actual writing of data.
        """

        if output_file:
            data_to_write = new_data if new_data is not None else self.data
            cryomap.write(data_to_write, output_file, data_type=self.data_type, transpose=False)

    def correct_order(self, new_data=None):
        """Corrects the order of the data and ensures it is of the correct type.

        Parameters
        ----------
        new_data : array-like, optional
            The new data to be corrected. If None, the method will use the instance's data. Default is None.

        Returns
        -------
        array
            The corrected data, which is either the new data with the correct type and order,
            or the instance's data if no new data is provided.

        Notes
        -----
        The method checks if the data type of the provided or instance data matches the expected
        data type. If not, it converts the data to the expected type. Additionally, if the current
        order of the data does not match the desired output order, the data is transposed to
        the correct order.
        """

        return_data = new_data if new_data is not None else self.data

        if return_data.dtype != self.data_type:
            return_data = return_data.astype(self.data_type)

        if self.current_order != self.output_order:
            return return_data.transpose(2, 1, 0)
        else:
            return return_data


def crop(tilt_stack, new_width=None, new_height=None, output_file=None, input_order="xyz", output_order="xyz"):
    """Crop a tilt stack to a specified width and height, and optionally save the result to a file.

    Parameters
    ----------
    tilt_stack : str or array-like
        The input tilt stack data to be cropped specified either as a path or array-like data.
    new_width : int, optional
        The desired width of the cropped output. If None, the original width is used. Defaults to None.
    new_height : int, optional
        The desired height of the cropped output. If None, the original height is used. Defaults to None.
    output_file : str, optional
        The file path where the cropped tilt stack will be saved. If None, the output is not saved. Defaults to None.
    input_order : str, default='xyz'
        The order of the input data dimensions. Relevant only if tilt_stack in numpy.ndarray. Defaults to 'xyz'.
    output_order : str, default='xyz'
        The order of the output data dimensions. It does not influence order for writing the stack out, just of the
        returned array. Defaults to 'xyz'.

    Returns
    -------
    numpy.ndarray
        Numpy 3D array with tilt stack data in the desired order.

    Notes
    -----
    The cropping is performed around the center of the original tilt stack. The function modifies the tilt stack in
    place and saves the cropped data if an output file is specified.
    """

    print(f"Cropping of the tilt stack started...")

    ts = TiltStack(tilt_stack=tilt_stack, input_order=input_order, output_order=output_order)

    if new_width is not None:
        new_width = int(new_width)
        if new_width > ts.width:
            raise ValueError(f"new_width cannot be greater than ts.width ({ts.width})")
    else:
        new_width = ts.width
    if new_height is not None:
        new_height = int(new_height)
        if new_height > ts.height:
            raise ValueError(f"new_height cannot be greater than ts.height ({ts.height})")
    else:
        new_height = ts.height

    # Calculate the center of the original array
    center_w, center_h = ts.width // 2, ts.height // 2

    # Calculate the cropping indices
    start_w = int(center_w - int(new_width) // 2)
    end_w = int(start_w + int(new_width))

    start_h = int(center_h - int(new_height) // 2)
    end_h = int(start_h + int(new_height))

    # crop the actual images
    ts.data = ts.data[:, start_h:end_h, start_w:end_w]

    ts.write_out(output_file)

    print(f"...cropping of the tilt stack successfully finished. New dimensions are {end_w-start_w}, {end_h-start_h}\n")

    return ts.correct_order()


def sort_tilts_by_angle(tilt_stack, input_tilts, output_file=None, input_order="xyz", output_order="xyz"):
    """Sorts a stack of tilts by their angles and optionally writes the sorted data to a file.

    Parameters
    ----------
    tilt_stack : str or array-like
        The input tilt stack data to be sorted specified either as a path or array-like data.
    input_tilts : str or array-like
        The file path to the input tilt angles. See `ioutils.tlt_load` function for more info.
    output_file : str, optional
        The file path where the sorted tilt data will be saved. If None, the data will not be saved. Defaults to None.
    input_order : str, default='xyz'
        The order of the input data dimensions. Relevant only if tilt_stack in numpy.ndarray. Defaults to 'xyz'.
    output_order : str, default='xyz'
        The order of the output data dimensions. It does not influence order for writing the stack out, just of the
        returned array. Defaults to 'xyz'.

    Returns
    -------
    numpy.ndarray
        Numpy 3D array with tilt stack data in the desired order.

    Notes
    -----
    The function loads tilt angles from the specified input file, sorts the tilt stack based on these angles,
    and writes the sorted data to the specified output file if provided. The input and output orders can be
    specified to accommodate different needs.
    """

    print(f"Reordering of the tilt stack started...")

    ts = TiltStack(tilt_stack=tilt_stack, input_order=input_order, output_order=output_order)

    tilt_angles = ioutils.tlt_load(input_tilts, sort_angles=False)
    sorted_indices = np.argsort(tilt_angles)

    ts.data = ts.data[sorted_indices, :, :]
    ts.write_out(output_file)

    print("...reordering of the tilt stack successfully finished.\n")

    return ts.correct_order()


def remove_tilts(
    tilt_stack,
    idx_to_remove,
    numbered_from_1=True,
    output_file=None,
    input_order="xyz",
    output_order="xyz",
):
    """Remove specified tilts from a tilt stack and optionally save the result to a file.

    Parameters
    ----------
    tilt_stack : str or array-like
        The input tilt stack data from which tilts will be removed.
    idx_to_remove : array-like
        Indices of the tilts to remove. If `numbered_from_1` is True, the indices are 1-based.
    numbered_from_1 : bool, defaults=True
        If True, the indices in `idx_to_remove` are considered to be 1-based. Defaults to True.
    output_file : str, optional
        The file path where the modified tilt stack will be saved. If None, the result is not saved.  Defaults to None.
    input_order : str, default='xyz'
        The order of the input data dimensions. Relevant only if tilt_stack in numpy.ndarray. Defaults to 'xyz'.
    output_order : str, default='xyz'
        The order of the output data dimensions. It does not influence order for writing the stack out, just of the
        returned array. Defaults to 'xyz'.

    Returns
    -------
    numpy.ndarray
        Numpy 3D array with tilt stack data with the specified tilts removed.

    Notes
    -----
    This function modifies the tilt stack in place and can save the result to a specified output file.
    """

    print(f"Removing of specified tilts started...")

    ts = TiltStack(tilt_stack=tilt_stack, input_order=input_order, output_order=output_order)

    idx_to_remove_final = ioutils.indices_load(idx_to_remove, numbered_from_1=numbered_from_1)
    # Check bounds
    max_index = ts.data.shape[0]
    if any(idx < 0 or idx >= max_index for idx in idx_to_remove_final):
        raise IndexError(
            f"One or more indices in idx_to_remove exceed bounds. " f"Valid range: 0 to {max_index - 1} (0-based)."
        )
    ts.data = np.delete(ts.data, idx_to_remove_final, axis=0)
    ts.write_out(output_file)

    print(f"...removing of {idx_to_remove_final.shape[0]} tilts successfully finished.\n")

    return ts.correct_order()


def bin(tilt_stack, binning_factor, output_file=None, input_order="xyz", output_order="xyz"):
    """Binning of a tilt stack using local mean downscaling.

    Parameters
    ----------
    tilt_stack : str or array-like
        The input tilt stack data to be binned.
    binning_factor : int
        The factor by which to downscale the tilt stack.
    output_file : str, optional
        The file path to save the binned tilt stack. If None, the output will not be saved. Defaults to None.
    input_order : str, default='xyz'
        The order of the input data dimensions. Relevant only if tilt_stack in numpy.ndarray. Defaults to 'xyz'.
    output_order : str, default='xyz'
        The order of the output data dimensions. It does not influence order for writing the stack out, just of the
        returned array. Defaults to 'xyz'.

    Returns
    -------
    numpy.ndarray
        Numpy 3D array with tilt stack binned data in the specified output order.

    Notes
    -----
    This function utilizes local mean downscaling to reduce the size of the tilt stack
    by the specified binning factor. The output can be saved to a file if an output
    file path is provided.
    """

    print(f"Binning tilt stack with binning factor of {str(binning_factor)} started...")

    # cast in case of string
    binning_factor = int(binning_factor)

    ts = TiltStack(tilt_stack=tilt_stack, input_order=input_order, output_order=output_order)
    ts.data = downscale_local_mean(ts.data, (1, binning_factor, binning_factor))
    ts.write_out(output_file)

    print("...binning finished successfully.\n")
    return ts.correct_order()


def split_stack_even_odd(tilt_stack, output_file_prefix=None, input_order="xyz", output_order="xyz"):
    """Splits a given tilt stack into even and odd stacks.

    Parameters
    ----------
    tilt_stack : str or array-like
        The input tilt stack data specified by its filename (including the path) or as 3d numpy array.
    output_file_prefix : str, optional
        The prefix for the output filenames. If provided, the function will save the even and odd stacks as files with
        this prefix followed by '_even.mrc' and '_odd.mrc', respectively. Defaults to None.
    input_order : str, default='xyz'
        The order of the input data dimensions. Relevant only if tilt_stack in numpy.ndarray. Defaults to 'xyz'.
    output_order : str, default='xyz'
        The order of the output data dimensions. It does not influence order for writing the stack out, just of the
        returned array. Defaults to 'xyz'.

    Returns
    -------
    tuple of numpy.ndarray
        A tuple containing two arrays: the first array contains the even indexed tilts, and the second array contains
        the odd indexed tilts, both reordered according to `output_order`.

    """

    ts = TiltStack(tilt_stack=tilt_stack, input_order=input_order, output_order=output_order)

    even_stack = []
    odd_stack = []

    if not ts.n_tilts == 1:
        # For each tilt image in the stack
        for i in range(ts.n_tilts):

            # Split to even and odd by using modulo 2
            if i % 2 == 0:
                even_stack.append(ts.data[i, :, :])
            else:
                odd_stack.append(ts.data[i, :, :])

        even_stack = np.stack(even_stack, axis=0)
        odd_stack = np.stack(odd_stack, axis=0)

        if output_file_prefix:
            ts.write_out(output_file_prefix + "_even.mrc", new_data=even_stack)
            ts.write_out(output_file_prefix + "_odd.mrc", new_data=odd_stack)

        return ts.correct_order(even_stack), ts.correct_order(odd_stack)
    else:
        raise ValueError(f"Stack contains only 1 tilt.")


def merge(file_path_pattern, output_file=None, output_order="xyz"):
    """Merge multiple files matching a given pattern into a single stack.

    Parameters
    ----------
    file_path_pattern : str
        A pattern for file paths to match files that will be merged. This can include wildcards, i.e. tilt.mrc* will
        load all files from given folder that start with tilt.mrc followed by numbering such as tilt.mrc001, tilt.mrc2
        etc.
    output_file : str, optional
        The path to the output file where the merged stack will be saved. If None, the stack will not be saved to a file.
        Defaults to None.
    output_order : str, default='xyz'
        The order of the output data dimensions. It does not influence order for writing the stack out, just of the
        returned array. Defaults to 'xyz'.

    Returns
    -------
    TiltStack
        A TiltStack object containing the merged data in the specified output order.

    Notes
    -----
    This function retrieves all files matching the specified pattern, sorts them, and then merges their contents into a
    single stack. The resulting stack is saved to the specified output file if provided. Since the data are always
    loaded first (having always 'zyx' order), the input_order is irrelevant and thus not required.

    Examples
    --------
    >>> merged_stack = merge("data/*.mrc", output_file="merged_output.mrc", output_order="xyz")
    """

    files, wildcards = ioutils.get_all_files_matching_pattern(file_path_pattern)
    sorted_files = ioutils.sort_files_by_idx(files, wildcards, order="ascending")

    all_stacks = []

    for sf in sorted_files:
        ts = TiltStack(sf, input_order="zyx", output_order=output_order)
        all_stacks.append(ts.data)

    final_stack = np.concatenate(all_stacks, axis=0)
    final_ts = TiltStack(final_stack, input_order="zyx", output_order=output_order)

    final_ts.write_out(output_file)

    return final_ts.correct_order()


def flip_along_axes(tilt_stack, axes, output_file=None, input_order="xyz", output_order="xyz"):
    """Flip the tilt stack along specified axes and optionally save the result to a file.

    Parameters
    ----------
    tilt_stack : str or array-like
        The input tilt stack data to be flipped along one or more axes.
    axes : list of str
        The axes along which to flip the tilt stack. Acceptable values are 'x', 'y', and 'z'.
    output_file : str, optional
        The file path to save the flipped tilt stack. If None, the result is not saved. Defaults to None.
    input_order : str, default='xyz'
        The order of the input data dimensions. Relevant only if tilt_stack in numpy.ndarray. Defaults to 'xyz'.
    output_order : str, default='xyz'
        The order of the output data dimensions. It does not influence order for writing the stack out, just of the
        returned array. Defaults to 'xyz'.

    Returns
    -------
    numpy.ndarray
        The flipped tilt stack data in the specified output order.

    Raises
    ------
    ValueError
        If the axes contains different values than 'x','y','z'.

    Notes
    -----
    The flipping correspond to IMOD's 'clip' function with options flipx, flipy, flipz. If multiple axes are specified
    it correspond to concatenation of those IMOD operations. For example, axes=['x','y'] will correspond to calling
    clip flipx input.mrc output_x.mrc and subsequently clip flipy ouput_x.mrc output_y.mrc. This is not equivalent to
    the result of calling clip flipxy input.mrc output.mrc!
    """

    ts = TiltStack(tilt_stack=tilt_stack, input_order=input_order, output_order=output_order)

    if not isinstance(axes, list):
        axes = [axes]

    for a in axes:
        if a == "x":
            ts.data = ts.data[:, ::-1, :]
        elif a == "y":
            ts.data = ts.data[:, :, ::-1]
        elif a == "z":
            ts.data = ts.data[::-1, :, :]
        else:
            raise ValueError(f"The axes can be 'x', 'y', or 'z'. Provided axis {a} not supported.")

    ts.write_out(output_file)

    return ts.correct_order()
'''

O = types.ModuleType("orig_tiltstack")
exec(compile(ORIG_SRC, "orig_tiltstack", "exec"), O.__dict__)

rng = np.random.default_rng(20260928)
TMP = tempfile.mkdtemp(prefix="c15demo_")
FAILS = []
NCHECK = [0]
ORDERS = ("xyz", "zyx")


def fail(msg):
    FAILS.append(msg)
    if len(FAILS) <= 15:
        print("FAIL:", msg)


def quiet(fn, *args, **kwargs):
    with contextlib.redirect_stdout(io.StringIO()):
        return fn(*args, **kwargs)


def same(a, b, exact=True):
    a = np.asarray(a)
    b = np.asarray(b)
    if a.shape != b.shape or a.dtype != b.dtype:
        return False
    if exact:
        return np.array_equal(a, b)
    return np.allclose(a.astype(np.float64), b.astype(np.float64), rtol=1e-5, atol=1e-4)


def mrc_write(path, zyx):
    with mrcfile.new(path, overwrite=True) as m:
        m.set_data(np.ascontiguousarray(zyx))


def mrc_read(path):
    with mrcfile.open(path, permissive=True) as m:
        return np.array(m.data, copy=True)


def random_stack(dtype, n=None, h=None, w=None):
    n = int(rng.integers(2, 26)) if n is None else n
    h = int(rng.integers(4, 41)) if h is None else h
    w = int(rng.integers(4, 41)) if w is None else w
    while w == h:
        w = int(rng.integers(4, 41))
    if dtype == np.int16:
        return rng.integers(-3000, 3000, size=(n, h, w)).astype(np.int16)
    return rng.normal(0, 50, size=(n, h, w)).astype(np.float32)


def to_order(zyx, order):
    return zyx.transpose(2, 1, 0) if order == "xyz" else zyx


# ---------------------------------------------------------------- independent references, all on (n, y, x) arrays
def ref_sort(zyx, angles):
    order = sorted(range(len(angles)), key=lambda i: float(angles[i]))
    return np.stack([zyx[i] for i in order], axis=0)


def ref_remove(zyx, idx0):
    gone = set(int(i) for i in idx0)
    return np.stack([zyx[i] for i in range(zyx.shape[0]) if i not in gone], axis=0)


def ref_split(zyx):
    return zyx[0::2], zyx[1::2]


def ref_flip(zyx, axes):
    out = zyx
    for a in axes:
        out = np.flip(out, axis={"x": 1, "y": 2, "z": 0}[a])  # axis naming as documented (IMOD clip flipx/flipy/flipz)
    return out


def ref_crop(zyx, new_w, new_h):
    n, h, w = zyx.shape
    nw = w if new_w is None else int(new_w)
    nh = h if new_h is None else int(new_h)
    sw = w // 2 - nw // 2
    sh = h // 2 - nh // 2
    return zyx[:, sh : sh + nh, sw : sw + nw]


def ref_bin(zyx, f, dtype):
    n, h, w = zyx.shape
    H = -(-h // f) * f
    W = -(-w // f) * f
    pad = np.zeros((n, H, W), dtype=np.float64)
    pad[:, :h, :w] = zyx
    means = pad.reshape(n, H // f, f, W // f, f).mean(axis=(2, 4))
    return means.astype(dtype)


# ---------------------------------------------------------------- the generic driver
def run_case(label, fname, zyx, kwargs, ref_zyx, exact=True, multi=None, edits=2):
    """Calls T.<fname> and O.<fname> for all order combinations / input kinds / output on-off, then edits the input in
    place and calls again (edits times).  ref_zyx: callable zyx -> expected (n, y, x) result (tuple for split)."""
    dtype = zyx.dtype
    combos = list(itertools.product(ORDERS, ORDERS, ("array", "file"), (False, True)))
    rng.shuffle(combos)
    for io_, oo, kind, out_on in combos:
        cur = zyx.copy()
        tag = f"{label} {fname} in={io_} out={oo} {kind} write={out_on} {dtype} shape={zyx.shape}"
        in_path = os.path.join(TMP, f"in_{NCHECK[0]}.mrc")
        arr = None
        if kind == "array":
            arr = np.array(to_order(cur, io_), copy=True, order=("C" if rng.random() < 0.5 else "F"))
        for rep in range(edits + 1):
            NCHECK[0] += 1
            if rep > 0:  # edit the very same object / file in place
                delta = 7 * rep
                cur = cur.copy()
                cur[rep % cur.shape[0]] = cur[rep % cur.shape[0]][::-1, ::-1] + dtype.type(delta)
                cur[0, 0, 0] = dtype.type(-delta)
            if kind == "array":
                arr[...] = to_order(cur, io_)
                inp = arr
                before = arr.copy()
            else:
                mrc_write(in_path, cur)
                inp = in_path
            expected = ref_zyx(cur)
            results = {}
            for mod_name, mod in (("new", T), ("orig", O)):
                kw = dict(kwargs)
                outs = None
                if out_on:
                    if multi:
                        prefix = os.path.join(TMP, f"out_{mod_name}")
                        kw["output_file_prefix"] = prefix
                        outs = [prefix + s for s in multi]
                    else:
                        outs = [os.path.join(TMP, f"out_{mod_name}.mrc")]
                        kw["output_file"] = outs[0]
                    for o in outs:
                        if os.path.exists(o):
                            os.remove(o)
                try:
                    res = quiet(getattr(mod, fname), inp, input_order=io_, output_order=oo, **kw)
                except Exception as e:  # noqa
                    fail(f"{tag} rep={rep} {mod_name}: raised {type(e).__name__}: {e}")
                    results[mod_name] = None
                    continue
                res_t = res if isinstance(res, tuple) else (res,)
                files = [mrc_read(o) for o in outs] if outs else None
                results[mod_name] = (res_t, files)
            if kind == "array" and not np.array_equal(arr, before):
                fail(f"{tag} rep={rep}: the input array was modified")
            if results.get("new") is None or results.get("orig") is None:
                continue
            exp_t = expected if isinstance(expected, tuple) else (expected,)
            new_res, new_files = results["new"]
            org_res, org_files = results["orig"]
            if len(new_res) != len(exp_t):
                fail(f"{tag} rep={rep}: number of returned arrays {len(new_res)} != {len(exp_t)}")
                continue
            for k, (r, o_, e) in enumerate(zip(new_res, org_res, exp_t)):
                e_out = to_order(e, oo)
                if not same(r, o_, exact=True):
                    fail(f"{tag} rep={rep} part={k}: patched result differs from the original function")
                if not same(r, e_out, exact=exact):
                    fail(f"{tag} rep={rep} part={k}: returned array differs from the independent computation")
            if out_on:
                for k, (f_new, f_org, e) in enumerate(zip(new_files, org_files, exp_t)):
                    if not same(f_new, f_org, exact=True):
                        fail(f"{tag} rep={rep} part={k}: written file differs from the original function's file")
                    if not same(f_new, np.asarray(e), exact=exact):
                        fail(f"{tag} rep={rep} part={k}: written file does not hold the (n,y,x) result")


def distinct_angles(n):
    pool = np.arange(-70.0, 70.0, 0.5)
    return rng.choice(pool, size=n, replace=False)


def one_round(case_no, dtype, zyx=None):
    zyx = random_stack(dtype) if zyx is None else zyx
    n, h, w = zyx.shape
    label = f"case{case_no}"

    # ---- sort by angle: array / list / .tlt file
    ang = distinct_angles(n)
    form = case_no % 3
    if form == 0:
        tilts = ang
    elif form == 1:
        tilts = [float(a) for a in ang]
    else:
        tilts = os.path.join(TMP, f"angles_{case_no}.tlt")
        np.savetxt(tilts, ang, fmt="%.2f")
    run_case(label, "sort_tilts_by_angle", zyx, {"input_tilts": tilts}, lambda z: ref_sort(z, ang))

    # ---- remove tilts: 1-based / 0-based, list / ndarray / text file
    k = int(rng.integers(1, n))
    idx0 = rng.choice(n, size=k, replace=False)
    from1 = bool(rng.integers(0, 2))
    given = idx0 + 1 if from1 else idx0
    form = case_no % 3
    if form == 0:
        idx_in = [int(i) for i in given]
    elif form == 1:
        idx_in = np.asarray(given)
    elif k >= 2:
        idx_in = os.path.join(TMP, f"idx_{case_no}.txt")
        np.savetxt(idx_in, np.asarray(given), fmt="%d")
    else:
        idx_in = [int(i) for i in given]
    run_case(
        label,
        "remove_tilts",
        zyx,
        {"idx_to_remove": idx_in, "numbered_from_1": from1},
        lambda z: ref_remove(z, idx0),
    )
    if case_no % 4 == 0:  # default numbering is 1-based
        run_case(label, "remove_tilts", zyx, {"idx_to_remove": [int(i) + 1 for i in idx0]}, lambda z: ref_remove(z, idx0))

    # ---- even / odd
    run_case(label, "split_stack_even_odd", zyx, {}, lambda z: ref_split(z), multi=("_even.mrc", "_odd.mrc"))

    # ---- flips
    axes_opts = ["x", "y", "z", ["x"], ["y", "x"], ["z", "y"], ["x", "x"], ["x", "y", "z"], ["z", "z"]]
    ax = axes_opts[case_no % len(axes_opts)]
    ax_list = ax if isinstance(ax, list) else [ax]
    run_case(label, "flip_along_axes", zyx, {"axes": ax}, lambda z: ref_flip(z, ax_list), edits=1)

    # ---- crop
    nw = [None, int(rng.integers(1, w + 1)), w, 1, np.int64(rng.integers(1, w + 1))][case_no % 5]
    nh = [int(rng.integers(1, h + 1)), None, h, 1, int(rng.integers(1, h + 1))][(case_no // 2) % 5]
    run_case(label, "crop", zyx, {"new_width": nw, "new_height": nh}, lambda z: ref_crop(z, nw, nh), edits=1)

    # ---- bin
    f = int(rng.integers(1, 5))
    run_case(
        label,
        "bin",
        zyx,
        {"binning_factor": f},
        lambda z: ref_bin(z, f, dtype),
        exact=(dtype == np.int16),
        edits=1,
    )


def involution_and_interleave(case_no, dtype):
    zyx = random_stack(dtype)
    for io_, oo in itertools.product(ORDERS, ORDERS):
        inp = np.ascontiguousarray(to_order(zyx, io_))
        # flip twice == identity (second call takes the first call's output, so its input order is oo)
        for a in ("x", "y", "z", ["x", "y"], ["z", "x", "y"]):
            once = quiet(T.flip_along_axes, inp, a, input_order=io_, output_order=oo)
            rev = list(reversed(a)) if isinstance(a, list) else a
            twice = quiet(T.flip_along_axes, np.array(once), rev, input_order=oo, output_order=io_)
            NCHECK[0] += 1
            if not same(twice, inp):
                fail(f"flip twice along {a} is not the identity (in={io_} out={oo} {dtype} {zyx.shape})")
            if zyx.shape[0] > 1 and same(np.asarray(once), to_order(zyx, oo)) and a != ["x", "x"]:
                pass  # a flip may coincide with the input only for symmetric data; random data never is
        # even/odd interleave back to the input
        even, odd = quiet(T.split_stack_even_odd, inp, input_order=io_, output_order=oo)
        ev = even.transpose(2, 1, 0) if oo == "xyz" else even
        od = odd.transpose(2, 1, 0) if oo == "xyz" else odd
        back = np.empty_like(zyx)
        back[0::2] = ev
        back[1::2] = od
        NCHECK[0] += 1
        if not same(back, zyx):
            fail(f"even/odd do not interleave back (in={io_} out={oo} {dtype} {zyx.shape})")
        # sort then the tilts are ascending: sorting twice with sorted angles is the identity
        ang = distinct_angles(zyx.shape[0])
        s1 = quiet(T.sort_tilts_by_angle, inp, ang, input_order=io_, output_order=oo)
        s2 = quiet(T.sort_tilts_by_angle, np.array(s1), np.sort(ang), input_order=oo, output_order=oo)
        NCHECK[0] += 1
        if not same(s2, np.asarray(s1)):
            fail("sorting an already sorted stack changed it")


def tiltstack_object_checks(dtype):
    """TiltStack itself: internal (n, y, x) copy, attributes, write_out / correct_order with and without new data."""
    zyx = random_stack(dtype)
    n, h, w = zyx.shape
    path = os.path.join(TMP, "obj_in.mrc")
    mrc_write(path, zyx)
    for io_, oo, kind in itertools.product(ORDERS, ORDERS, ("array", "file")):
        inp = np.ascontiguousarray(to_order(zyx, io_)) if kind == "array" else path
        objs = [cls(inp, input_order=io_, output_order=oo) for cls in (T.TiltStack, O.TiltStack)]
        for ts in objs:
            NCHECK[0] += 1
            tag = f"TiltStack in={io_} out={oo} {kind} {dtype}"
            if not same(ts.data, zyx):
                fail(f"{tag}: .data is not the (n,y,x) stack")
            if (ts.n_tilts, ts.height, ts.width) != (n, h, w):
                fail(f"{tag}: n_tilts/height/width = {(ts.n_tilts, ts.height, ts.width)} != {(n, h, w)}")
            if ts.data_type != dtype or ts.input_order != io_ or ts.output_order != oo or ts.current_order != "zyx":
                fail(f"{tag}: attributes wrong")
            if kind == "array":
                if np.shares_memory(ts.data, inp):
                    fail(f"{tag}: .data aliases the caller's array")
            if not same(ts.correct_order(), to_order(zyx, oo)):
                fail(f"{tag}: correct_order() wrong")
            other = (zyx[::-1].astype(np.float64) * 1.0)[: max(1, n - 1)]
            got = ts.correct_order(other)  # positional: name of the second parameter is not part of the property
            if not same(got, to_order(other.astype(dtype), oo)):
                fail(f"{tag}: correct_order(new data) wrong")
            out = os.path.join(TMP, "obj_out.mrc")
            for payload, exp in ((None, zyx), (other, other.astype(dtype))):
                if os.path.exists(out):
                    os.remove(out)
                if payload is None:
                    ts.write_out(out)
                else:
                    ts.write_out(out, payload)
                if not same(mrc_read(out), exp):
                    fail(f"{tag}: write_out file wrong (payload {'given' if payload is not None else 'default'})")
            pname = list(inspect.signature(ts.write_out).parameters)[1]
            os.remove(out)
            ts.write_out(out, **{pname: other})
            if not same(mrc_read(out), other.astype(dtype)):
                fail(f"{tag}: write_out(..., {pname}=...) wrong")
            pname = list(inspect.signature(ts.correct_order).parameters)[0]
            if not same(ts.correct_order(**{pname: other}), to_order(other.astype(dtype), oo)):
                fail(f"{tag}: correct_order({pname}=...) wrong")
            ts.write_out(None)  # output off: nothing happens
            ts.write_out("")
            # in-place edit of the object's data afterwards must show in later calls (nothing may be remembered)
            ts.data = np.array(ts.data, copy=True)
            ts.data[0] = 0
            exp2 = zyx.copy()
            exp2[0] = 0
            if not same(ts.correct_order(), to_order(exp2, oo)):
                fail(f"{tag}: correct_order() after an in-place edit is stale")
            ts.write_out(out)
            if not same(mrc_read(out), exp2):
                fail(f"{tag}: write_out after an in-place edit is stale")


def crop_sequences():
    """Many crops in shuffled order over stacks whose width / height are swapped versions of each other, so that a
    window remembered for (size, new_size) of one axis or one stack would show when reused for another."""
    sizes = [(5, 12, 20), (3, 20, 12), (4, 13, 21), (2, 21, 13), (6, 40, 4), (2, 4, 40), (3, 7, 9), (3, 9, 7)]
    stacks = [random_stack(np.float32 if i % 2 else np.int16, *s) for i, s in enumerate(sizes)]
    jobs = []
    for si, st in enumerate(stacks):
        n, h, w = st.shape
        for _ in range(12):
            nw = [None, int(rng.integers(1, w + 1)), min(w, h), 1, w][int(rng.integers(0, 5))]
            nh = [None, int(rng.integers(1, h + 1)), min(w, h), 1, h][int(rng.integers(0, 5))]
            jobs.append((si, nw, nh, ORDERS[int(rng.integers(0, 2))], ORDERS[int(rng.integers(0, 2))]))
    jobs = jobs + jobs[::3] + jobs[::5]
    rng.shuffle(jobs)
    for si, nw, nh, io_, oo in jobs:
        st = stacks[si]
        NCHECK[0] += 1
        inp = np.ascontiguousarray(to_order(st, io_))
        got = quiet(T.crop, inp, new_width=nw, new_height=nh, input_order=io_, output_order=oo)
        org = quiet(O.crop, inp, new_width=nw, new_height=nh, input_order=io_, output_order=oo)
        exp = to_order(ref_crop(st, nw, nh), oo)
        if not same(got, exp) or not same(got, org):
            fail(f"crop sequence: stack {st.shape} new_width={nw} new_height={nh} in={io_} out={oo}")
        # positional form (tilt_stack, new_width, new_height)
        got = quiet(T.crop, inp, nw, nh, None, io_, oo)
        if not same(got, exp):
            fail(f"crop positional: stack {st.shape} new_width={nw} new_height={nh}")
    # too large windows are refused, before and after valid calls with the same numbers on the other axis
    st = stacks[0]  # (5, 12, 20): height 12, width 20
    inp = np.ascontiguousarray(st)
    quiet(T.crop, inp, new_width=15, new_height=10, input_order="zyx", output_order="zyx")
    for kw in ({"new_height": 15}, {"new_width": 21}, {"new_width": 15, "new_height": 13}):
        NCHECK[0] += 1
        try:
            quiet(T.crop, inp, input_order="zyx", output_order="zyx", **kw)
            fail(f"crop {kw} on {st.shape} did not raise")
        except ValueError:
            pass


def main():
    try:
        n_rounds = 30
        for c in range(n_rounds):
            one_round(c, np.float32 if c % 2 == 0 else np.int16)
        # edge stacks: 2 tilts, 25 tilts, extreme aspect ratios
        edge = [(2, 4, 40), (25, 40, 4), (2, 5, 4), (25, 4, 5), (3, 39, 40)]
        for c, (n, h, w) in enumerate(edge):
            dt = np.int16 if c % 2 == 0 else np.float32
            one_round(100 + c, dt, random_stack(dt, n, h, w))
        for c in range(10):
            involution_and_interleave(c, np.float32 if c % 2 else np.int16)
        for dt in (np.dtype(np.float32), np.dtype(np.int16)):
            tiltstack_object_checks(dt)
        crop_sequences()
    finally:
        shutil.rmtree(TMP, ignore_errors=True)
    print(f"checks run: {NCHECK[0]}, failures: {len(FAILS)}")
    if FAILS:
        print("FAIL")
        sys.exit(1)
    print("PASS")


if __name__ == "__main__":
    main()
