import os
import sys

sys.path.insert(0, os.getcwd())

import contextlib
import io
import inspect
import tempfile
import textwrap
import warnings

import numpy as np
import pandas as pd
import mrcfile
import emfile

warnings.filterwarnings("ignore")

import cryocat
from cryocat import tiltstack, ioutils, cryomap

assert os.path.abspath(cryocat.__file__).startswith(os.getcwd()), cryocat.__file__

FAILS = []


def check(cond, msg):
    if not cond:
        FAILS.append(msg)
        if len(FAILS) < 30:
            print("FAIL:", msg)


def quiet(fn, *args, **kwargs):
    with contextlib.redirect_stdout(io.StringIO()):
        return fn(*args, **kwargs)


# ---------------------------------------------------------------- independent reference
A_, B_, C_ = 0.245, -1.665, 2.81


def q_grid(h, w, ps, dose):
    """Attenuation on the UNSHIFTED DFT grid, computed from fftfreq (independent of the code under test)."""
    fy = np.fft.fftfreq(h, d=ps)  # cycles per Angstrom
    fx = np.fft.fftfreq(w, d=ps)
    f = np.sqrt(fx[None, :] ** 2 + fy[:, None] ** 2)
    q = np.ones((h, w))
    nz = f > 0
    q[nz] = np.exp(-dose / (2.0 * (A_ * f[nz] ** B_ + C_)))
    return q


def ref_filter(stack_zyx, ps, doses):
    out = np.empty(stack_zyx.shape, dtype=float)
    for i in range(stack_zyx.shape[0]):
        h, w = stack_zyx.shape[1:]
        ft = np.fft.fft2(stack_zyx[i].astype(float))
        out[i] = np.fft.ifft2(ft * q_grid(h, w, ps, float(doses[i]))).real
    return out


def run(stack_zyx, ps, doses, order_in="zyx", order_out="zyx", output_file=None):
    """Call dose_filter on an array given in zyx, presenting it in the requested order; returns zyx."""
    arr = stack_zyx if order_in == "zyx" else np.ascontiguousarray(stack_zyx.transpose(2, 1, 0))
    keep = arr.copy()
    res = quiet(
        tiltstack.dose_filter, arr, ps, doses, output_file=output_file, input_order=order_in, output_order=order_out
    )
    check(np.array_equal(arr, keep, equal_nan=True), "input stack was modified")
    if order_out != "zyx":
        res = res.transpose(2, 1, 0)
    return res


def rand_case(rng, n=None):
    n = int(rng.integers(1, 11)) if n is None else n
    h = int(rng.integers(4, 65))
    w = int(rng.integers(4, 65))
    ps = float(rng.uniform(0.5, 10.0))
    doses = rng.uniform(0.0, 300.0, size=n)
    kind = rng.integers(0, 4)
    if kind == 0:
        doses = np.sort(doses)
    elif kind == 1:
        doses = np.sort(doses)[::-1].copy()
    if rng.random() < 0.3:
        doses[int(rng.integers(0, n))] = 0.0
    if rng.random() < 0.2:
        doses[int(rng.integers(0, n))] = 300.0
    stack = rng.normal(loc=rng.uniform(-5, 5), scale=rng.uniform(0.1, 20), size=(n, h, w))
    return stack, ps, doses


def property_suite(seed=12345, n_random=120):
    rng = np.random.default_rng(seed)
    sizes_seen = set()
    for it in range(n_random):
        stack, ps, doses = rand_case(rng)
        n, h, w = stack.shape
        sizes_seen.add((h % 2, w % 2))
        oi = ["zyx", "xyz"][int(rng.integers(0, 2))]
        oo = ["zyx", "xyz"][int(rng.integers(0, 2))]
        dose_arg = doses if rng.random() < 0.5 else [float(d) for d in doses]
        res = run(stack, ps, dose_arg, oi, oo)
        tag = f"case {it} n={n} h={h} w={w} ps={ps:.3f} {oi}->{oo}"
        check(res.shape == stack.shape, tag + " shape")
        check(res.dtype == stack.dtype, tag + " dtype")
        ref = ref_filter(stack, ps, doses)
        scale = np.abs(stack).max()
        check(np.allclose(res, ref, rtol=0, atol=1e-10 * scale), tag + " filtered stack differs from the formula")
        # every frequency component of every image
        for i in range(n):
            fin = np.fft.fft2(stack[i])
            fout = np.fft.fft2(res[i])
            q = q_grid(h, w, ps, doses[i])
            tol = 1e-10 * np.abs(fin).max()
            check(np.allclose(fout, fin * q, rtol=0, atol=tol), tag + f" image {i}: DFT != input DFT * q")
            check(abs(fout[0, 0] - fin[0, 0]) <= tol, tag + f" image {i}: zero frequency changed")
            check(abs(res[i].mean() - stack[i].mean()) <= 1e-10 * scale, tag + f" image {i}: mean changed")
            check(np.all(np.abs(fout) <= np.abs(fin) + tol), tag + f" image {i}: power increased")
        # repeated call on the same objects
        res2 = run(stack, ps, dose_arg, oi, oo)
        check(np.array_equal(res, res2), tag + " repeated call differs")

        if it % 4 == 0:
            # zero dose is the identity
            z = run(stack, ps, np.zeros(n), oi, oo)
            check(np.allclose(z, stack, rtol=0, atol=1e-11 * scale), tag + " zero dose not identity")
            # linearity
            other = rng.normal(size=stack.shape) * 3 + 1
            al, be = rng.uniform(-3, 3, size=2)
            lhs = run(al * stack + be * other, ps, doses, oi, oo)
            rhs = al * res + be * run(other, ps, doses, oi, oo)
            check(np.allclose(lhs, rhs, rtol=0, atol=1e-9 * (scale + 10)), tag + " not linear")
            # more dose attenuates more
            extra = rng.uniform(0, 300 - doses.max(), size=n) if doses.max() < 300 else np.zeros(n)
            more = run(stack, ps, doses + extra, oi, oo)
            for i in range(n):
                fa = np.abs(np.fft.fft2(res[i]))
                fb = np.abs(np.fft.fft2(more[i]))
                check(np.all(fb <= fa + 1e-10 * fa.max()), tag + f" image {i}: more dose attenuates less")
            # composition d1 then d2 == d1 + d2
            d1 = doses * rng.uniform(0, 1, size=n)
            d2 = doses - d1
            two = run(run(stack, ps, d1, oi, oo), ps, d2, oi, oo)
            check(np.allclose(two, res, rtol=0, atol=1e-9 * scale), tag + " d1 then d2 != d1+d2")
    check(len(sizes_seen) == 4, "not all even/odd combinations seen")

    # pure plane waves
    for it in range(60):
        n = int(rng.integers(1, 11))
        h = int(rng.integers(4, 65))
        w = int(rng.integers(4, 65))
        ps = float(rng.uniform(0.5, 10.0))
        doses = rng.uniform(0, 300, size=n)
        yy, xx = np.mgrid[0:h, 0:w]
        stack = np.empty((n, h, w))
        exp = np.empty((n, h, w))
        for i in range(n):
            kx = int(rng.integers(-(w // 2), (w - 1) // 2 + 1))
            ky = int(rng.integers(-(h // 2), (h - 1) // 2 + 1))
            if it == 0:
                kx, ky = 0, 0
            ph = rng.uniform(0, 2 * np.pi)
            amp = rng.uniform(0.5, 5)
            stack[i] = amp * np.cos(2 * np.pi * (kx * xx / w + ky * yy / h) + ph)
            f = np.sqrt((kx / (w * ps)) ** 2 + (ky / (h * ps)) ** 2)
            g = 1.0 if f == 0 else np.exp(-doses[i] / (2 * (0.245 * f**-1.665 + 2.81)))
            exp[i] = g * stack[i]
        oi = ["zyx", "xyz"][it % 2]
        res = run(stack, ps, doses, oi, "xyz")
        check(np.allclose(res, exp, rtol=0, atol=1e-10), f"plane wave case {it} h={h} w={w}")

    # edge sizes, float32 stacks, integer doses, constant images
    for h, w in [(4, 4), (4, 5), (5, 4), (5, 5), (64, 64), (63, 64), (64, 63), (4, 64), (64, 5)]:
        for n in (1, 2, 10):
            stack = rng.normal(size=(n, h, w)) + 2
            doses = rng.integers(0, 301, size=n)
            res = run(stack, 0.5 if n == 1 else 10.0, doses, "xyz", "zyx")
            check(np.allclose(res, ref_filter(stack, 0.5 if n == 1 else 10.0, doses), rtol=0, atol=1e-10), f"edge {h}x{w} n={n}")
            s32 = stack.astype(np.float32)
            res32 = run(s32, 1.7, doses, "zyx", "xyz")
            check(res32.dtype == np.float32, "float32 dtype kept")
            check(np.allclose(res32, ref_filter(s32, 1.7, doses), rtol=0, atol=2e-5), f"edge float32 {h}x{w} n={n}")
            const = np.full((n, h, w), -3.25)
            check(np.allclose(run(const, 2.0, doses), const, rtol=0, atol=1e-12), "constant image changed")


def file_suite(seed=777):
    """Stack and doses given as files; filtered stack written out."""
    rng = np.random.default_rng(seed)
    with tempfile.TemporaryDirectory() as td:
        for it in range(12):
            ext = ["mrc", "em", "st", "ali", "rec"][it % 5]
            stack, ps, doses = rand_case(rng, n=int(rng.integers(2, 11)))
            stack = stack.astype(np.float32)
            n, h, w = stack.shape
            path = os.path.join(td, f"stack_{it}.{ext}")
            if ext == "em":
                emfile.write(path, stack, overwrite=True)
            else:
                with mrcfile.new(path, overwrite=True) as m:
                    m.set_data(stack)
            dose_txt = os.path.join(td, f"dose_{it}.txt")
            np.savetxt(dose_txt, doses, fmt="%.6f")
            d32 = np.loadtxt(dose_txt, dtype=np.float32, ndmin=1)
            dose_csv = os.path.join(td, f"dose_{it}.csv")
            removed = rng.random(n + 3) < 0.0
            removed[[1, n + 1, n + 2]] = True
            full = np.zeros(n + 3)
            full[~removed] = doses
            full[removed] = 999.0
            pd.DataFrame({"CorrectedDose": full, "Removed": removed}).to_csv(dose_csv)
            out_path = os.path.join(td, f"out_{it}." + ("em" if ext == "em" else "mrc"))
            ref = ref_filter(stack, ps, d32)
            for dose_arg in (doses, dose_txt, dose_csv):
                res = quiet(
                    tiltstack.dose_filter, path, ps, dose_arg, output_file=out_path, input_order="xyz", output_order="zyx"
                )
                check(res.shape == stack.shape and res.dtype == np.float32, f"file case {it} shape/dtype")
                check(np.allclose(res, ref, rtol=0, atol=3e-4 * np.abs(stack).max()), f"file case {it} ({ext}) wrong")
                if ext == "em":
                    back = emfile.read(out_path)[1]
                else:
                    with mrcfile.open(out_path) as m:
                        back = np.array(m.data)
                check(np.array_equal(back, res), f"file case {it}: written stack differs from the returned one")
            # the file itself is left untouched
            if ext == "em":
                again = emfile.read(path)[1]
            else:
                with mrcfile.open(path) as m:
                    again = np.array(m.data)
            check(np.array_equal(again, stack), f"file case {it}: input file changed")


def finish():
    if FAILS:
        print(f"{len(FAILS)} check(s) failed")
        print("FAIL")
        sys.exit(1)
    print("PASS")
    sys.exit(0)


# ---------------------------------------------------------------- original reader (copy of the text at HEAD)
ORIG_READ = '''
def read_orig(input_map, transpose=True, data_type=None):
    if isinstance(input_map, str):

        def valid_mrc(filename):
            pattern = r"\\.(mrc|ali|rec|st)(\\.\\d+)?$"
            return bool(re.search(pattern, filename))

        if valid_mrc(input_map):
            data = mrcfile.open(input_map).data
        elif input_map.endswith(".em"):
            data = emfile.read(input_map)[1]
        else:
            raise ValueError("The input map file name", input_map, "is neither em or mrc file!")

        if transpose:
            data = data.transpose(2, 1, 0)
    elif isinstance(input_map, np.ndarray):
        data = np.array(input_map)
    else:
        raise ValueError(f"Input map must be path to valid file or nparray")

    data = np.array(data, copy=True)
    if data_type is not None:
        data = data.astype(data_type)

    return data
'''
exec(ORIG_READ, cryomap.__dict__)
read_orig = cryomap.read_orig
read_cur = cryomap.read


def outcome(fn, *a, **k):
    try:
        return ("ok", fn(*a, **k))
    except Exception as e:  # noqa
        return ("exc", type(e), e.args if isinstance(e, ValueError) else None)


def same_arr(x, y):
    return (
        type(x) is type(y)
        and x.dtype == y.dtype
        and x.shape == y.shape
        and x.strides == y.strides
        and all(x.flags[f] == y.flags[f] for f in ("WRITEABLE", "OWNDATA", "C_CONTIGUOUS", "F_CONTIGUOUS"))
        and np.array_equal(x, y)
    )


def helper_suite():
    rng = np.random.default_rng(4242)
    names = ["a.mrc", "a.em", "a.st", "a.ali", "a.rec", "a.mrc.1", "b.st.23", "weird.mrc.em", "x.em.mrc", "c.rec.007"]
    with tempfile.TemporaryDirectory() as td:
        for it in range(40):
            n, h, w = int(rng.integers(1, 11)), int(rng.integers(4, 65)), int(rng.integers(4, 65))
            if n == 1:
                n = 2  # mrcfile returns 2-D data for a single section; outside what TiltStack can hold
            stack = (rng.normal(size=(n, h, w)) * 9).astype([np.float32, np.int16, np.uint16, np.int8][it % 4])
            nm = names[it % len(names)]
            path = os.path.join(td, f"{it}_{nm}")
            if nm.endswith(".em"):
                emfile.write(path, stack, overwrite=True)
            else:
                with mrcfile.new(path, overwrite=True) as m:
                    m.set_data(stack)
            for tr in (True, False):
                for dt in (None, np.float32, np.float64, int):
                    o, c = outcome(read_orig, path, tr, dt), outcome(read_cur, path, tr, dt)
                    check(o[0] == "ok" and c[0] == "ok" and same_arr(o[1], c[1]), f"read differs: {nm} transpose={tr} {dt}")
                    if o[0] == "ok" and dt is None:
                        want = stack.transpose(2, 1, 0) if tr else stack
                        check(np.array_equal(c[1], want), f"read does not return the file's voxels: {nm}")
                        c[1][...] = 0  # result is an own, writeable array
            # repeated reads of the same file
            r1, r2 = read_cur(path, False), read_cur(path, False)
            check(np.array_equal(r1, r2) and not np.shares_memory(r1, r2), "repeated reads")
            # array inputs
            for arr in (stack, stack.transpose(2, 1, 0), stack[:, ::2, :]):
                for tr in (True, False):
                    o, c = read_orig(arr, tr), read_cur(arr, tr)
                    check(same_arr(o, c) and not np.shares_memory(c, arr), "array input differs")
        # a 2-D mrc (single image) and names that are not accepted
        p2 = os.path.join(td, "single.mrc")
        with mrcfile.new(p2, overwrite=True) as m:
            m.set_data(rng.normal(size=(6, 7)).astype(np.float32))
        for args in ((p2, False), (p2, True)):
            o, c = outcome(read_orig, *args), outcome(read_cur, *args)
            check(o[0] == c[0] and (same_arr(o[1], c[1]) if o[0] == "ok" else o[1:] == c[1:]), f"2-D mrc {args}")
        for bad in ("x.txt", "x.mrcs", "x.MRC", "x.mrc.", "x.mrc.a1", "xmrc", "", os.path.join(td, "missing.mrc"),
                    os.path.join(td, "missing.em"), os.path.join(td, "missing.st.4"), None, 5, [1, 2]):
            o, c = outcome(read_orig, bad), outcome(read_cur, bad)
            check(o[0] == "exc" and c[0] == "exc" and o[1:] == c[1:], f"bad input {bad!r}: {o} vs {c}")
        # a truncated / invalid mrc file
        p3 = os.path.join(td, "broken.mrc")
        with open(p3, "wb") as f:
            f.write(b"\x00" * 100)
        o, c = outcome(read_orig, p3), outcome(read_cur, p3)
        check(o[0] == "exc" and c[0] == "exc" and o[1] is c[1], "broken mrc")

        # dose_filter on files with the original reader substituted: bit-identical output and written stack
        for it in range(15):
            stack, ps, doses = rand_case(rng, n=int(rng.integers(2, 11)))
            stack = stack.astype(np.float32)
            ext = ["mrc", "st", "ali", "rec", "em"][it % 5]
            path = os.path.join(td, f"ts{it}.{ext}")
            if ext == "em":
                emfile.write(path, stack, overwrite=True)
            else:
                with mrcfile.new(path, overwrite=True) as m:
                    m.set_data(stack)
            outs = []
            for reader, nm in ((read_cur, "cur"), (read_orig, "orig")):
                cryomap.read = reader
                try:
                    outp = os.path.join(td, f"o_{nm}_{it}.mrc")
                    res = quiet(tiltstack.dose_filter, path, ps, doses, output_file=outp, output_order="zyx")
                finally:
                    cryomap.read = read_cur
                with mrcfile.open(outp) as m:
                    outs.append((res, np.array(m.data)))
            check(same_arr(outs[0][0], outs[1][0]) and np.array_equal(outs[0][1], outs[1][1]), f"dose_filter on file {it}")
            check(np.allclose(outs[0][0], ref_filter(stack, ps, doses), rtol=0, atol=3e-4 * np.abs(stack).max()), "formula on file")


property_suite()
file_suite()
helper_suite()
finish()
