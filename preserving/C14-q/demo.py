"""C14 / change a: symmetrize_volume clean-up (helper for the in-plane angles, in-place sum)."""
import sys, os

sys.path.insert(0, os.getcwd())
import itertools
import logging
import warnings

import numpy as np
import pandas as pd
from scipy.ndimage import affine_transform
from scipy.spatial.transform import Rotation as srot

from cryocat import cryomap
from cryocat import cryomotl

warnings.filterwarnings("ignore")
RNG = np.random.default_rng(1414)
FAILS = []


def check(cond, msg):
    if not cond:
        FAILS.append(msg)
        if len(FAILS) < 30:
            print("FAIL:", msg)


def same(a, b):
    a = np.asarray(a)
    b = np.asarray(b)
    return a.shape == b.shape and a.dtype == b.dtype and np.array_equal(a, b, equal_nan=True)


# ----------------------------------------------------------------------------------------------------------------
# independent reference computations (written from the statement of the property, not from the code)
# ----------------------------------------------------------------------------------------------------------------
def zxz_matrix(phi, theta, psi):
    """extrinsic z(phi) then x(theta) then z(psi): R = Rz(psi) Rx(theta) Rz(phi), degrees"""

    def rz(a):
        a = np.deg2rad(a)
        return np.array([[np.cos(a), -np.sin(a), 0], [np.sin(a), np.cos(a), 0], [0, 0, 1.0]])

    def rx(a):
        a = np.deg2rad(a)
        return np.array([[1.0, 0, 0], [0, np.cos(a), -np.sin(a)], [0, np.sin(a), np.cos(a)]])

    return rz(psi) @ rx(theta) @ rz(phi)


def ref_rotate(vol, R, order=3):
    """active rotation: density at offset v from floor(N/2) goes to offset R v, i.e. out[c + w] = in[c + R^T w]"""
    vol = np.asarray(vol)
    c = np.asarray(vol.shape) // 2
    out = np.empty(vol.shape)
    affine_transform(vol, R.T, offset=c - R.T @ c, output=out, order=order)
    return out


def inner(a):
    """voxels whose source AND target are at least one voxel away from every face (in an even box the centre
    floor(N/2) is not the middle, so a voxel one away from a face can be carried from / to the opposite face)"""
    return a[2:-2, 2:-2, 2:-2]


def cube_rotations():
    seen = []
    out = []
    for a in itertools.product((0, 90, 180, 270), repeat=3):
        R = np.rint(zxz_matrix(*a)).astype(int)
        key = tuple(R.ravel())
        if key not in seen:
            seen.append(key)
            out.append((a, R))
    assert len(out) == 24
    return out


def gauss_blobs(shape, centres, sigma, weights=None):
    g = np.indices(shape).astype(float)
    vol = np.zeros(shape)
    if weights is None:
        weights = np.ones(len(centres))
    for c, w in zip(centres, weights):
        d2 = sum((g[k] - c[k]) ** 2 for k in range(3))
        vol += w * np.exp(-d2 / (2 * sigma**2))
    return vol


def ref_window(vol, coord, shape):
    """requested window: start floor(coord - shape/2); voxels outside the volume carry the volume mean"""
    vol = np.asarray(vol)
    shape = tuple(int(s) for s in shape)
    start = [int(np.floor(coord[k] - shape[k] / 2.0)) for k in range(3)]
    out = np.empty(shape)
    m = vol.mean()
    for i in range(shape[0]):
        for j in range(shape[1]):
            for k in range(shape[2]):
                p = (start[0] + i, start[1] + j, start[2] + k)
                if all(0 <= p[a] < vol.shape[a] for a in range(3)):
                    out[i, j, k] = vol[p]
                else:
                    out[i, j, k] = m
    return out


def ref_place(templates, df, container, feature):
    """stamp, in row order, the rotated template (> 0.1) at the complete 0-based position of every particle.
    Also returns the mask of container voxels that receive a template FACE voxel whose source coordinate lies on the
    border of the interpolation domain (there rounding decides between the interpolated value and 0 -- the face voxels
    the quantifier excludes); they are left out of the comparison."""
    out = np.array(container, dtype=float)
    amb = np.zeros(out.shape, dtype=bool)
    n = len(df)
    for r in range(n):
        row = df.iloc[r]
        tmpl = templates[r] if isinstance(templates, list) else templates
        R = zxz_matrix(row["phi"], row["theta"], row["psi"])
        stamp = ref_rotate(tmpl, R) > 0.1
        shp = np.asarray(stamp.shape)
        c = shp // 2
        pos = np.array([row["x"] + row["shift_x"], row["y"] + row["shift_y"], row["z"] + row["shift_z"]]) - 1.0
        start = np.floor(pos - shp / 2.0).astype(int)
        for idx in np.argwhere(np.ones(stamp.shape, dtype=bool)):
            p = start + idx
            if not (np.all(p >= 0) and np.all(p < np.asarray(out.shape))):
                continue
            src = c + R.T @ (idx - c)
            if np.any(np.abs(src) < 1e-6) or np.any(np.abs(src - (shp - 1)) < 1e-6):
                amb[tuple(p)] = True
            if stamp[tuple(idx)]:
                out[tuple(p)] = row[feature]
    return out, amb


MOTL_COLUMNS = [
    "score", "geom1", "geom2", "subtomo_id", "tomo_id", "object_id", "subtomo_mean", "x", "y", "z",
    "shift_x", "shift_y", "shift_z", "geom3", "geom4", "geom5", "phi", "psi", "theta", "class",
]  # fmt: skip


def make_motl(n, vol_shape, rng, index="default", poles=False, int_pos=False, colours="int"):
    df = pd.DataFrame(np.zeros((n, 20)), columns=MOTL_COLUMNS)
    lo, hi = -3.0, np.asarray(vol_shape) + 3.0
    pos = rng.uniform(lo, hi, size=(n, 3))
    if int_pos:
        pos = np.rint(pos)
    df[["x", "y", "z"]] = np.rint(pos)
    df[["shift_x", "shift_y", "shift_z"]] = pos - np.rint(pos)
    df["phi"] = rng.uniform(-180, 180, n)
    df["psi"] = rng.uniform(-180, 180, n)
    df["theta"] = rng.uniform(0, 180, n)
    if poles:
        df["theta"] = rng.choice([0.0, 180.0, 90.0], n)
        df["phi"] = rng.choice([0.0, 90.0, -90.0, 180.0, 37.0], n)
        df["psi"] = rng.choice([0.0, 90.0, 270.0, -45.0], n)
    df["tomo_id"] = 1.0
    df["subtomo_id"] = np.arange(1, n + 1, dtype=float)
    if colours == "int":
        df["object_id"] = rng.permutation(n).astype(float) + 1.0
        df["class"] = rng.integers(1, 4, n).astype(float)
    else:  # floats, negative values, zero, a NaN hole
        df["object_id"] = rng.normal(size=n)
        df["class"] = rng.normal(size=n)
        df.loc[0, "object_id"] = 0.0
        if n > 2:
            df.loc[1, "object_id"] = -2.5
            df.loc[2, "class"] = np.nan
    df["geom3"] = rng.uniform(-5, 5, n)
    if index == "shuffled":
        df.index = rng.permutation(n)
    elif index == "offset":
        df.index = np.arange(n) * 3 + 7
    elif index == "reversed":
        df.index = np.arange(n)[::-1]
    return df


def l_template(N, rng, smooth=True):
    """asymmetric template: three arms of different length and width + random smooth bumps"""
    t = np.zeros((N, N, N))
    c = N // 2
    t[c : c + N // 2 - 1, c, c] = 1.0
    t[c, c : c + N // 3, c] = 1.0
    t[c, c, c - 1 : c + 2] = 1.0
    t[c - 1, c - 1, c] = 0.6
    if smooth:
        cen = rng.uniform(c - 2, c + 2, size=(3, 3))
        t = t + 0.5 * gauss_blobs(t.shape, cen, 1.3, rng.uniform(0.2, 1, 3))
    return t


# ----------------------------------------------------------------------------------------------------------------
# the property
# ----------------------------------------------------------------------------------------------------------------
def prop_cube_rotations():
    for N in (5, 6, 7, 8):
        for dt in (np.float64, np.float32, np.int64):
            vol = RNG.normal(size=(N, N, N)) * 10
            vol = vol.astype(dt)
            c = N // 2
            inner = [p for p in itertools.product(range(1, N - 1), repeat=3)]
            for angles, R in cube_rotations():
                out = cryomap.rotate(vol, rotation_angles=list(angles))
                out2 = cryomap.rotate(vol, rotation=srot.from_matrix(R.astype(float)), transpose_rotation=True)
                check(out.shape == vol.shape and out.dtype == np.float64, f"cube rot shape/dtype N={N}")
                worst = 0.0
                for p in inner:
                    q = R @ (np.array(p) - c) + c
                    if np.all(q >= 1) and np.all(q <= N - 2):
                        worst = max(worst, abs(out[tuple(q)] - float(vol[p])), abs(out2[tuple(q)] - float(vol[p])))
                check(worst < 1e-6, f"cube rotation N={N} {dt.__name__} angles={angles}: worst {worst}")


def prop_random_rotations():
    for N in (32, 33):
        c = N // 2
        for trial in range(6):
            offs = RNG.uniform(-5, 5, size=(4, 3))
            w = RNG.uniform(0.5, 1.5, 4)
            sigma = 3.0
            vol = gauss_blobs((N, N, N), c + offs, sigma, w)
            ang = [RNG.uniform(-180, 180), RNG.uniform(0, 180), RNG.uniform(-180, 180)]
            if trial == 0:
                ang = [30.0, 0.0, 50.0]  # pole
            if trial == 1:
                ang = [-70.0, 180.0, 20.0]  # pole
            R = zxz_matrix(*ang)
            expected = gauss_blobs((N, N, N), c + offs @ R.T, sigma, w)  # blobs carried to R*v
            out = cryomap.rotate(vol, rotation_angles=ang)
            err = np.abs(inner(out - expected)).max() / vol.max()
            check(err < 5e-3, f"random rotation {ang} carries blobs to R*v: rel. error {err}")
            # same convention as the particle orientation of a motl row (phi, theta, psi)
            df = make_motl(1, (N, N, N), RNG)
            df[["phi", "theta", "psi"]] = ang
            rots = cryomotl.Motl(df).get_rotations()
            check(np.allclose(rots[0].as_matrix(), R, atol=1e-12), "Motl.get_rotations is zxz(phi,theta,psi)")
            out_r = cryomap.rotate(vol, rotation=rots[0], transpose_rotation=True)
            check(np.abs(inner(out_r - out)).max() < 1e-9, "rotation object (transposed) == rotation angles")
            check(np.abs(inner(out - ref_rotate(vol, R))).max() < 1e-9, "rotate == reference resampling")
            # rotating by the inverse restores the smooth map
            back = cryomap.rotate(out, rotation=rots[0], transpose_rotation=False)
            err = np.abs(inner(back - vol)).max() / vol.max()
            check(err < 1e-2, f"inverse restores: rel. error {err}")
            back2 = cryomap.rotate(out, rotation_angles=[-ang[2], -ang[1], -ang[0]])
            check(np.abs(inner(back2 - vol)).max() < 1e-2 * vol.max(), "inverse by negated reversed angles restores")
            # radians
            out_rad = cryomap.rotate(vol, rotation_angles=np.deg2rad(ang), degrees=False)
            check(np.abs(inner(out_rad - out)).max() < 1e-9, "radians")


def prop_windows():
    for vshape, dt in (((10, 12, 8), np.float64), ((9, 7, 11), np.int32), ((6, 6, 6), np.float32)):
        vol = (RNG.normal(size=vshape) * 20).astype(dt)
        keep = vol.copy()
        coords = [
            (5, 6, 4), (4.5, 5.5, 3.5), (0, 0, 0), (-0.5, 3.2, 8.0), (9.999, 11.0, 7.5), (1, 1, 1),
            (-7, 4, 4), (30, 30, 30), (-20.5, -20.5, -20.5), (2.0, 2.0, 2.0), (3.0, 9.0, 0.0), (12, 3, 3),
            (4.0000001, 3.9999999, 4.5),
        ]  # fmt: skip
        coords += [tuple(RNG.uniform(-6, 16, 3)) for _ in range(12)]
        for box in ((4, 4, 4), (2, 2, 2), (6, 4, 8), (14, 14, 14), (8, 8, 8)):
            for cd in coords:
                for as_array in (False, True):
                    co = np.array(cd, dtype=float) if as_array else cd
                    bx = np.array(box) if as_array else box
                    got = cryomap.extract_subvolume(vol, co, bx)
                    exp = ref_window(vol, cd, box)
                    check(got.shape == tuple(box), f"window shape {cd} {box}")
                    check(np.array_equal(got, exp), f"window {vshape} {cd} {box}")
        check(np.array_equal(vol, keep), "extract_subvolume leaves the volume alone")
        # centre crop and centred pad use the same window arithmetic
        for box in ((4, 4, 4), (2, 6, 4)):
            cr = cryomap.crop(vol, box)
            s = [vshape[k] // 2 - box[k] // 2 for k in range(3)]
            check(np.array_equal(cr, vol[s[0] : s[0] + box[0], s[1] : s[1] + box[1], s[2] : s[2] + box[2]]), "crop")


def prop_place():
    cases = []
    for n in (1, 2, 3, 5, 8, 13, 20):
        for index in ("default", "shuffled", "offset", "reversed"):
            cases.append((n, index))
    for ci, (n, index) in enumerate(cases):
        vshape = [(20, 22, 18), (16, 16, 16), (15, 17, 19)][ci % 3]
        N = (5, 6, 7, 8)[ci % 4]
        df = make_motl(
            n, vshape, RNG, index=index, poles=(ci % 3 == 1), int_pos=(ci % 2 == 0), colours="int" if ci % 4 else "float"
        )
        feature = ("object_id", "class", "geom3")[ci % 3]
        if ci % 5 == 2:
            templates = [l_template(N, RNG) for _ in range(n)]
        else:
            templates = l_template(N, RNG, smooth=(ci % 2 == 1))
        df_keep = df.copy()
        motl = cryomotl.Motl(df)
        if ci % 2:
            background = RNG.integers(0, 3, size=vshape).astype(float) * 100
            got = cryomap.place_object(templates, motl, volume=background, feature_to_color=feature)
            bg_keep = background.copy()
        else:
            background = np.zeros(vshape)
            bg_keep = background.copy()
            got = cryomap.place_object(templates, motl, volume_shape=tuple(vshape), feature_to_color=feature)
        exp, amb = ref_place(templates, df_keep, bg_keep, feature)
        check(got.shape == tuple(vshape), "place shape")
        check(amb.mean() < 0.5, f"few ambiguous voxels {amb.mean()}")
        check(
            np.array_equal(got[~amb], exp[~amb], equal_nan=True),
            f"place_object case {ci} n={n} index={index} feature={feature}",
        )
        check(np.array_equal(background, bg_keep), "place_object leaves the given volume alone")
        check(motl.df.equals(df_keep) and list(motl.df.index) == list(df_keep.index), "place_object leaves the motl")
        # repeated call on the same objects
        if ci % 2:
            again = cryomap.place_object(templates, motl, volume=background, feature_to_color=feature)
        else:
            again = cryomap.place_object(templates, motl, volume_shape=tuple(vshape), feature_to_color=feature)
        check(np.array_equal(got, again, equal_nan=True), "place_object repeated call")
    # default colouring field is object_id
    df = make_motl(4, (16, 16, 16), RNG, index="shuffled")
    t = l_template(6, RNG)
    got = cryomap.place_object(t, cryomotl.Motl(df.copy()), volume_shape=(16, 16, 16))
    exp, amb = ref_place(t, df, np.zeros((16, 16, 16)), "object_id")
    check(np.array_equal(got[~amb], exp[~amb]), "place default feature")


def prop_symmetrize():
    N = 32
    for n in range(2, 13):
        for variant in range(2):
            Nn = N + variant  # even and odd boxes
            offs = RNG.uniform(-5, 5, size=(3, 3))
            w = RNG.uniform(0.5, 1.5, 3)
            vol = gauss_blobs((Nn, Nn, Nn), Nn // 2 + offs, 3.0, w)
            keep = vol.copy()
            sym_arg = n if variant == 0 else ("C%d" % n if n % 2 else "c%d" % n)
            got = cryomap.symmetrize_volume(vol, sym_arg)
            check(np.array_equal(vol, keep), "symmetrize leaves input alone")
            exp = np.zeros(vol.shape)
            for k in range(n):
                exp += ref_rotate(vol, zxz_matrix(0, 0, k * 360.0 / n))
            exp /= n
            check(got.shape == vol.shape and got.dtype == np.float64, "sym shape / dtype")
            err = np.abs(inner(got - exp)).max()
            check(err < 1e-9, f"C{n} mean of n rotated copies: {err}")
            # invariance under 360/n about z and conserved total density
            again = cryomap.rotate(got, rotation_angles=[0, 0, 360.0 / n])
            err = np.abs(inner(again - got)).max() / vol.max()
            check(err < 1e-2, f"C{n} invariance under 360/n: rel. error {err}")
            check(abs(got.sum() - vol.sum()) < 2e-3 * vol.sum(), f"C{n} total density {got.sum()} vs {vol.sum()}")
            # analytic: every blob is replaced by n blobs of weight w/n on its orbit
            cen = []
            ww = []
            for k in range(n):
                Rk = zxz_matrix(0, 0, k * 360.0 / n)
                cen += list(Nn // 2 + offs @ Rk.T)
                ww += list(w / n)
            ana = gauss_blobs(vol.shape, cen, 3.0, ww)
            err = np.abs(inner(got - ana)).max() / vol.max()
            check(err < 5e-3, f"C{n} analytic orbit: rel. error {err}")


def run_property():
    prop_cube_rotations()
    prop_random_rotations()
    prop_windows()
    prop_place()
    prop_symmetrize()


# ----------------------------------------------------------------------------------------------------------------
# change a: patched symmetrize_volume against the original text (same inputs, bit for bit)
# ----------------------------------------------------------------------------------------------------------------
ORIG_SRC = r'''
def symmetrize_volume(vol, symmetry):
    """
    Symmetrize the input volume based on the specified symmetry.

    Parameters:
    -----------
    vol : ndarray
        The input volume to be symmetrized.
    symmetry : str or int or float
        The symmetry of the volume. If a string, it should start with 'C' followed by a number indicating the rotational symmetry. If an integer or float, it directly specifies the rotational symmetry.

    Returns:
    --------
    ndarray: The symmetrized volume.

    Raises:
    -------
    ValueError
        If the symmetry is not specified correctly

    """
    if isinstance(symmetry, str):
        nfold = int(re.findall(r"\d+", symmetry)[-1])
    elif isinstance(symmetry, (int, float)):
        nfold = symmetry
    else:
        raise ValueError("The symmetry has to be specified as a string (starting with C) or as a number (only for C)!")

    inplane_step = 360 / nfold
    rotated_sum = np.zeros(vol.shape)

    for inplane in range(1, nfold + 1):
        # print('inplane',inplane, inplane*inplane_step)
        rotated_volume = rotate(vol, rotation_angles=[0, 0, (inplane * inplane_step) % 360])
        # print('rot vol',rotated_volume[0][0][0:10])
        rotated_sum = np.add(rotated_sum, rotated_volume)
    sym_vol = np.divide(rotated_sum, nfold)

    return sym_vol
'''


def original(name):
    ns = dict(vars(cryomap))
    exec(ORIG_SRC, ns)
    return ns[name]


def outcome(f, *args, **kwargs):
    try:
        return ("ok", f(*args, **kwargs))
    except Exception as e:  # noqa
        return ("raised", type(e).__name__)


def compare_with_original():
    orig = original("symmetrize_volume")
    vols = [
        RNG.normal(size=(9, 9, 9)),
        RNG.normal(size=(10, 10, 10)).astype(np.float32),
        RNG.integers(-5, 6, size=(8, 8, 8)),
        RNG.normal(size=(7, 10, 6)),
        np.zeros((6, 6, 6)),
        gauss_blobs((16, 16, 16), [(8, 9, 7), (5, 5, 10)], 2.0),
    ]
    vols[0][2, 3, 4] = np.nan  # a NaN hole spreads the same way in both
    for vol in vols:
        keep = vol.copy()
        for n in range(1, 13):
            for sym in (n, "C%d" % n, "c%d" % n, "C %d" % n, True if n == 1 else n):
                a = outcome(orig, vol, sym)
                b = outcome(cryomap.symmetrize_volume, vol, sym)
                check(a[0] == b[0] == "ok" and same(a[1], b[1]), f"symmetrize_volume differs from original: {vol.shape} {sym!r}")
                b2 = outcome(cryomap.symmetrize_volume, vol, sym)  # repeated call on the same object
                check(same(b[1], b2[1]), "symmetrize_volume repeated call")
        check(np.array_equal(vol, keep, equal_nan=True), "input volume untouched")
    # outside the quantifier: same kind of outcome
    vol = vols[1]
    for sym in (4.0, np.float64(3.0), 2.5, 0, -3, "C", "Cx", None, [4], np.int64(4), "D4", "C0"):
        a = outcome(orig, vol, sym)
        b = outcome(cryomap.symmetrize_volume, vol, sym)
        if a[0] == "ok":
            check(b[0] == "ok" and same(a[1], b[1]), f"out-of-quantifier result differs for {sym!r}")
        else:
            check(a == b, f"out-of-quantifier outcome differs for {sym!r}: {a} vs {b}")
    if hasattr(cryomap, "_cn_inplane_angles"):
        for n in range(1, 13):
            step = 360 / n
            check(cryomap._cn_inplane_angles(n) == [(k * step) % 360 for k in range(1, n + 1)], "helper angles")


if __name__ == "__main__":
    run_property()
    compare_with_original()
    if FAILS:
        print(f"FAILED ({len(FAILS)} checks)")
        sys.exit(1)
    print("PASS")
