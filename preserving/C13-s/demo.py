"""Property C13 -- masks: analytic shapes and voxel-wise set algebra.  Change c.

Run as   cd /tmp/wt11/C13 && /venv/bin/python /tmp/seedsU/C13/c/demo.py

Change c: postprocess (the common tail of all shape generators) logs a read-only summary of the finished mask at
DEBUG level and the set-algebra functions log how many masks they combined; nothing that is returned is touched.

The script
  1. tests the property against an independent computation (exact integer arithmetic on the voxel grid, boolean
     logic for the set algebra) over many random and edge-case inputs inside the quantifier, and
  2. runs the ORIGINAL text of the mask functions (copied below, docstrings removed, executed in a copy of the module
     namespace so that originals call originals) on the same inputs and demands identical outputs (values, shape,
     dtype) or the same exception type, untouched arguments and identical results for repeated calls.
Everything is done twice: with logging unconfigured and with DEBUG logging switched on for the package.
Prints PASS and exits 0 when everything holds.
"""
import sys, os

sys.path.insert(0, os.getcwd())
import copy, itertools, logging, math, shutil, tempfile, warnings

warnings.simplefilter("ignore")
import numpy as np
from cryocat import cryomask as cm
from cryocat import cryomap

# original text of the functions the property rests on (cryocat/cryomask.py at the base commit, docstrings removed)
ORIG_SRC = r'''
def parse_shape_string(shape_string):

    # Define regular expressions for each shape type
    patterns = {
        "sphere": r"^sphere_r(\d+)$",
        "cylinder": r"^cylinder_r(\d+)_h(\d+)$",
        "s_shell": r"^s_shell_r(\d+)_s(\d+)$",
        "ellipsoid": r"^ellipsoid_rx(\d+)_ry(\d+)_rz(\d+)$",
        "e_shell": r"^e_shell_rx(\d+)_ry(\d+)_rz(\d+)_s(\d+)$",
    }

    for shape_type, pattern in patterns.items():
        match = re.match(pattern, shape_string)
        if match:
            numbers = [int(num) for num in match.groups()]
            return shape_type, numbers

    raise ValueError(f"String '{shape_string}' does not match any known shape pattern.")


def generate_mask(mask_shape, mask_size=None, mask_expansion=4):

    shape, specs = parse_shape_string(mask_shape)

    if mask_size is None:
        mask_size = 2 * np.max(specs) + mask_expansion
        mask_size = math.ceil(mask_size / 2) * 2

    if shape == "sphere":
        mask = spherical_mask(mask_size=mask_size, radius=specs[0])
    elif shape == "cylinder":
        mask = cylindrical_mask(mask_size=mask_size, radius=specs[0], height=specs[1])
    elif shape == "s_shell":
        mask_size = math.ceil((mask_size + specs[1]) / 2) * 2
        mask = spherical_shell_mask(mask_size=mask_size, shell_thickness=specs[1], radius=specs[0])
    elif shape == "ellipsoid":
        mask = ellipsoid_mask(mask_size=mask_size, radii=specs)
    elif shape == "e_shell":
        mask = ellipsoid_shell_mask(mask_size=mask_size, shell_thickness=specs[3], radii=specs[0:3])

    return mask


def add_gaussian(input_mask, sigma):

    if sigma == 0:
        return input_mask
    else:
        return filters.gaussian(input_mask, sigma=sigma)


def rotate(input_mask, angles):

    if angles is None or not np.any(angles):
        return input_mask
    else:
        return cryomap.rotate(input_mask, rotation_angles=angles)


def postprocess(input_mask, gaussian, angles, output_name):

    mask = add_gaussian(input_mask, gaussian)
    mask = rotate(mask, angles)
    write_out(mask, output_name)

    return mask


def union(mask_list, output_name=None):

    final_mask = np.zeros(cryomap.read(mask_list[0]).shape)

    for m in mask_list:
        mask = cryomap.read(m)
        final_mask += mask

    final_mask = np.clip(final_mask, 0.0, 1.0)

    write_out(final_mask, output_name)

    return final_mask


def intersection(mask_list, output_name=None):
    final_mask = np.ones(cryomap.read(mask_list[0]).shape)

    for m in mask_list:
        mask = cryomap.read(m)
        final_mask *= mask

    final_mask = np.clip(final_mask, 0.0, 1.0)
    write_out(final_mask, output_name)

    return final_mask


def subtraction(mask_list, output_name=None):
    # in floating point, like union and intersection: unsigned masks would wrap around at 0 - 1, boolean ones have no `-`
    final_mask = cryomap.read(mask_list[0]).astype(float)

    for m in mask_list[1:]:
        mask = cryomap.read(m)
        final_mask -= mask

    final_mask = np.clip(final_mask, 0.0, 1.0)
    write_out(final_mask, output_name)

    return final_mask


def difference(mask_list, output_name=None):

    union_mask = union(mask_list)
    inter_mask = intersection(mask_list)

    final_mask = union_mask - inter_mask
    final_mask = np.clip(final_mask, 0.0, 1.0)
    write_out(final_mask, output_name)

    return final_mask


def spherical_shell_mask(mask_size, shell_thickness, radius=None, center=None, gaussian=0.0, output_name=None):

    mask_size = get_correct_format(mask_size)
    center = get_correct_format(center, reference_size=mask_size)

    if radius is None:
        radius = np.amin(mask_size) // 2

    shell_thickness = shell_thickness / 2

    sp1 = spherical_mask(mask_size, radius=radius + shell_thickness, center=center)
    sp2 = spherical_mask(mask_size, radius=radius - shell_thickness, center=center)

    shell_mask = sp1 - sp2

    shell_mask = postprocess(shell_mask, gaussian, np.asarray([0, 0, 0]), output_name)

    return shell_mask


def spherical_mask(mask_size, radius=None, center=None, gaussian=0.0, gaussian_outwards=True, output_name=None):

    mask_size = get_correct_format(mask_size)
    center = get_correct_format(center, reference_size=mask_size)

    if radius is None:
        radius = np.amin(mask_size) // 2

    radius = preprocess_params(radius, gaussian, gaussian_outwards)

    x, y, z = np.mgrid[0 : mask_size[0] : 1, 0 : mask_size[1] : 1, 0 : mask_size[2] : 1]
    mask = np.sqrt((x - center[0]) ** 2 + (y - center[1]) ** 2 + (z - center[2]) ** 2)
    mask[mask > radius] = 0
    mask[mask > 0] = 1
    if radius >= 0:
        # the distance map is zero at the center, so the center has to be set explicitly (a negative radius is an empty sphere)
        mask[center[0], center[1], center[2]] = 1

    mask = postprocess(mask, gaussian, np.asarray([0, 0, 0]), output_name)

    return mask


def cylindrical_mask(
    mask_size,
    radius=None,
    height=None,
    center=None,
    gaussian=0,
    gaussian_outwards=True,
    angles=None,
    output_name=None,
):
    mask_size = get_correct_format(mask_size)
    center = get_correct_format(center, reference_size=mask_size)

    if radius is None:
        radius = np.amin(mask_size[:2]) // 2  # only x, y are relevant

    if height is None:
        height = mask_size[2]

    height = height // 2

    radius = preprocess_params(radius, gaussian, gaussian_outwards)
    height = preprocess_params(height, gaussian, gaussian_outwards)

    x, y = np.mgrid[0 : mask_size[0] : 1, 0 : mask_size[1] : 1]
    mask_xy = np.sqrt((x - center[0]) ** 2 + (y - center[1]) ** 2)
    mask_xy[mask_xy > radius] = 0
    mask_xy[mask_xy > 0] = 1
    mask_xy[center[0], center[1]] = 1

    mask = np.zeros(mask_size)
    mask[:, :, center[2] - height : center[2] + height + 1] = np.tile(mask_xy[:, :, None], (1, 1, height * 2 + 1))

    mask = postprocess(mask, gaussian, angles, output_name)

    return mask


def get_correct_format(input_value, reference_size=None):

    def format_input(unformatted_value):
        if isinstance(unformatted_value, (tuple, list, np.ndarray)):
            if len(unformatted_value) == 3:
                return np.asarray(unformatted_value).astype(int)
            elif len(unformatted_value) == 1:
                return np.full((3,), unformatted_value).astype(int)
            else:
                raise ValueError("The size have to be a single number or have to have length of 3!")
        elif isinstance(unformatted_value, (float, int)):
            return np.full((3,), unformatted_value).astype(int)

    if input_value is not None:
        size_correct_format = format_input(input_value)
    elif reference_size is not None:
        box_size = format_input(reference_size)
        size_correct_format = box_size // 2
    else:
        raise ValueError("Either input_size or referene_size have to be specified")

    return size_correct_format


def ellipsoid_shell_mask(mask_size, shell_thickness, radii, center=None, gaussian=0.0, angles=None, output_name=None):

    mask_size = get_correct_format(mask_size)
    center = get_correct_format(center, reference_size=mask_size)
    radii = get_correct_format(radii, reference_size=mask_size)

    shell_thickness = shell_thickness / 2

    e1 = ellipsoid_mask(mask_size, radii=radii + shell_thickness, center=center)
    e2 = ellipsoid_mask(mask_size, radii=radii - shell_thickness, center=center)

    shell_mask = e1 & ~e2

    shell_mask = postprocess(shell_mask, gaussian, angles, output_name)

    return shell_mask


def ellipsoid_mask(
    mask_size,
    radii=None,
    center=None,
    gaussian=0,
    output_name=None,
    angles=None,
    gaussian_outwards=True,
):
    mask_shape = get_correct_format(mask_size)
    center = get_correct_format(center, reference_size=mask_shape)
    radii = get_correct_format(radii, reference_size=mask_shape)

    radii = preprocess_params(radii, gaussian, gaussian_outwards)

    # Build a grid and get its points as a list
    xi = tuple(np.linspace(1, s, s) - np.floor(0.5 * s) for s in mask_shape)

    # Build a list of points forming the grid
    xi = np.meshgrid(*xi, indexing="ij")
    points = np.array(xi).reshape(3, -1)[::-1]

    # Find grid center
    grid_center = 0.5 * mask_shape - center
    grid_center = np.tile(grid_center.reshape(3, 1), (1, points.shape[1]))

    # Reorder coordinates back to ZYX to match the order of numpy array axis
    points = points[:, ::-1]
    grid_center = grid_center[::-1]
    radii = radii[::-1]
    radii = np.tile(radii.reshape(3, 1), (1, points.shape[1]))

    # Draw the ellipsoid
    # dx**2 + dy**2 + dz**2 = r**2
    # dx**2 / r**2 + dy**2 / r**2 + dz**2 / r**2 = 1
    ellipsoid = (points - grid_center) ** 2
    ellipsoid = ellipsoid / radii**2
    # Sum dx, dy, dz / r**2
    distance = np.sum(ellipsoid, axis=0).reshape(mask_shape)

    mask = distance <= 1

    mask = postprocess(mask, gaussian, angles, output_name)

    return mask


def preprocess_params(radius, gaussian, gaussian_outwards):

    blur_factor = 5.0

    if gaussian != 0.0 and gaussian_outwards:
        new_radius = np.ceil(radius + gaussian * blur_factor).astype(int)
    else:
        new_radius = radius

    return new_radius
'''


# --------------------------------------------------------------------------------------------------------------------
# the original functions, executed in a copy of the module namespace, so that originals call originals
# --------------------------------------------------------------------------------------------------------------------
_ns = dict(vars(cm))
exec(compile(ORIG_SRC, "<original cryomask functions>", "exec"), _ns)


class _Orig:
    def __getattr__(self, name):
        return _ns[name]


orig = _Orig()

FAIL = []
COUNT = {}


def check(cond, what, *info):
    COUNT[what] = COUNT.get(what, 0) + 1
    if not cond:
        FAIL.append((what, info))
        if len(FAIL) <= 25:
            print("FAIL:", what, *info)


def call(f, *a, **k):
    try:
        return f(*a, **k), None
    except Exception as e:  # noqa
        return None, e


def snapshot(objs):
    return [copy.deepcopy(o) for o in objs]


def unchanged(before, after):
    for b, a in zip(before, after):
        if isinstance(b, np.ndarray):
            if not (isinstance(a, np.ndarray) and a.dtype == b.dtype and a.shape == b.shape and np.array_equal(a, b)):
                return False
        elif isinstance(b, (list, tuple)) and any(isinstance(x, np.ndarray) for x in b):
            if not unchanged(list(b), list(a)):
                return False
        elif b != a:
            return False
    return True


def both(name, *a, **k):
    """Runs the function of the (possibly patched) module and the original text on the same inputs, compares the
    outcomes (value, shape, dtype, or exception type) and checks that the inputs are left alone.  Returns the result
    of the module's function (None when it raised)."""
    args_before = snapshot(a) + snapshot(list(k.values()))
    new, enew = call(getattr(cm, name), *a, **k)
    check(unchanged(args_before, list(a) + list(k.values())), name + ": arguments not modified", a, k)
    old, eold = call(getattr(orig, name), *a, **k)
    if enew is not None or eold is not None:
        check(type(enew) is type(eold), name + ": same exception as the original", a, k, repr(enew), repr(eold))
        return None
    ok = (
        isinstance(new, np.ndarray)
        and new.shape == old.shape
        and new.dtype == old.dtype
        and np.array_equal(new, old, equal_nan=True)
    )
    check(ok, name + ": same output as the original", a, k)
    # repeated call on the same objects
    again, _ = call(getattr(cm, name), *a, **k)
    check(again is not None and np.array_equal(again, new, equal_nan=True), name + ": repeated call gives the same", a, k)
    return new


def grid(size):
    return np.ogrid[0 : size[0], 0 : size[1], 0 : size[2]]


def d2(size, c):
    i, j, k = grid(size)
    return (i - int(c[0])) ** 2 + (j - int(c[1])) ** 2 + (k - int(c[2])) ** 2


def sphere_expected(size, c, r):
    """distance <= r, in exact arithmetic: r is an integer or a multiple of 0.5, so 4*r*r is an exact integer"""
    if r < 0:
        return np.zeros(size, dtype=bool)
    four_r2 = int(round(4 * r * r))
    assert four_r2 == 4 * r * r
    return 4 * d2(size, c) <= four_r2


def ellipsoid_terms(size, c, r):
    i, j, k = grid(size)
    rx, ry, rz = (int(v) for v in r)
    lhs = (
        (i - int(c[0])) ** 2 * (ry * rz) ** 2
        + (j - int(c[1])) ** 2 * (rx * rz) ** 2
        + (k - int(c[2])) ** 2 * (rx * ry) ** 2
    )
    rhs = (rx * ry * rz) ** 2
    return lhs + 0 * (i + j + k), rhs  # python/int64 integers, exact (rx*ry*rz)**2 < 2**63 for r <= 90


def rand_size(rng, even=False):
    if even:
        return tuple(int(v) * 2 for v in rng.integers(3, 25, 3))
    return tuple(int(v) for v in rng.integers(6, 49, 3))


def rand_center(rng, size):
    mode = rng.integers(0, 6)
    if mode == 0:
        return tuple(0 for s in size)  # first voxel
    if mode == 1:
        return tuple(s - 1 for s in size)  # last voxel
    if mode == 2:
        return tuple(s // 2 for s in size)
    return tuple(int(rng.integers(0, s)) for s in size)


def as_variant(rng, value):
    """the same size / centre given as tuple, list, integer array or float array"""
    m = rng.integers(0, 4)
    if m == 0:
        return tuple(value)
    if m == 1:
        return list(value)
    if m == 2:
        return np.asarray(value, dtype=int)
    return np.asarray(value, dtype=float)


# --------------------------------------------------------------------------------------------------------------------
def test_spheres(rng, n):
    for t in range(n):
        size = rand_size(rng)
        c = rand_center(rng, size)
        r = [1, 2, 3, int(rng.integers(1, 25)), int(rng.integers(1, 25)) + 0.5, int(rng.integers(25, 95)), 0, 1.0][t % 8]
        m = both("spherical_mask", as_variant(rng, size), radius=r, center=as_variant(rng, c))
        if m is None:
            check(False, "sphere: returns a mask", size, c, r)
            continue
        check(m.shape == size and m.dtype == np.float64, "sphere: shape and type", size, c, r)
        check(np.array_equal(m, sphere_expected(size, c, r).astype(float)), "sphere: distance <= r exactly", size, c, r)
    # exact thresholds: lattice points at distance exactly r (3-4-5, 2-3-6, 1-4-8, 4-4-7) are inside, r - 0.5 leaves them out
    for off, r in [((3, 4, 0), 5), ((2, 3, 6), 7), ((1, 4, 8), 9), ((4, 4, 7), 9), ((0, 0, 6), 6), ((2, 6, 9), 11)]:
        size = (30, 28, 26)
        c = (14, 13, 12)
        m = both("spherical_mask", size, radius=r, center=c)
        mm = both("spherical_mask", size, radius=r - 0.5, center=c)
        for perm in itertools.permutations(off):
            for sg in itertools.product((1, -1), repeat=3):
                idx = tuple(ci + s * o for ci, s, o in zip(c, sg, perm))
                check(m[idx] == 1 and mm[idx] == 0, "sphere: boundary voxel in at r, out at r - 0.5", idx, r)
    # defaults: cubic box from one number, radius None = min(size) // 2, center None = size // 2
    for s in (6, 7, 12, 13, 31, 48):
        m = both("spherical_mask", s)
        check(np.array_equal(m, sphere_expected((s, s, s), (s // 2,) * 3, s // 2).astype(float)), "sphere: defaults", s)
    for size in ((6, 9, 12), (48, 7, 21), [10, 11, 12]):
        m = both("spherical_mask", size)
        size = tuple(size)
        exp = sphere_expected(size, tuple(s // 2 for s in size), min(size) // 2)
        check(np.array_equal(m, exp.astype(float)), "sphere: defaults non-cubic", size)
    # the point of the radius >= 0 guard: a negative radius is the empty set, radius 0 is the center alone
    for size, c in [((8, 9, 10), (0, 0, 0)), ((8, 9, 10), (7, 8, 9)), ((12, 6, 7), (3, 3, 3))]:
        for r in (-0.5, -1, -3, -2.5):
            m = both("spherical_mask", size, radius=r, center=c)
            check(m is not None and not m.any(), "sphere: negative radius is empty", size, c, r)
        for r in (0, 0.0, 0.5):
            m = both("spherical_mask", size, radius=r, center=c)
            check(m is not None and m.sum() == 1 and m[c] == 1, "sphere: radius < 1 is the center voxel", size, c, r)


def test_sphere_exhaustive():
    """every center of a small non-cubic box, radii from negative to beyond the box in steps of 0.5"""
    size = (6, 7, 8)
    for c in itertools.product(range(0, 6, 1), range(0, 7, 2), range(0, 8, 1)):
        for r2 in range(-4, 27):
            r = r2 / 2 if r2 % 2 else r2 // 2
            new = cm.spherical_mask(size, radius=r, center=c)
            old = orig.spherical_mask(size, radius=r, center=c)
            ok = new.dtype == old.dtype == np.float64 and np.array_equal(new, old)
            check(ok and np.array_equal(new, sphere_expected(size, c, r).astype(float)), "sphere: exhaustive small box", c, r)


def test_sphere_shells(rng, n):
    for t in range(n):
        size = rand_size(rng)
        c = rand_center(rng, size)
        r = int(rng.integers(1, 40))
        th = [1, 2, 3, int(rng.integers(1, 12)), int(rng.integers(1, 60))][t % 5]
        m = both("spherical_shell_mask", as_variant(rng, size), th, radius=r, center=as_variant(rng, c))
        if m is None:
            check(False, "sphere shell: returns a mask", size, c, r, th)
            continue
        outer = sphere_expected(size, c, r + th / 2)
        inner = sphere_expected(size, c, r - th / 2)  # empty for a negative inner radius
        check(np.array_equal(m, (outer & ~inner).astype(float)), "sphere shell: outer minus inner", size, c, r, th)
        check(m.min() >= 0 and m.max() <= 1, "sphere shell: in [0,1]", size, c, r, th)
    # thickness > 2 * radius: the inner solid is empty, the shell is the full outer sphere including its center
    for r, th in [(1, 3), (1, 4), (2, 5), (2, 6), (3, 10), (1, 2), (2, 4)]:
        size, c = (16, 17, 18), (8, 7, 9)
        m = both("spherical_shell_mask", size, th, radius=r, center=c)
        inner_r = r - th / 2
        exp = sphere_expected(size, c, r + th / 2) & ~sphere_expected(size, c, inner_r)
        check(np.array_equal(m, exp.astype(float)), "sphere shell: thick shells", r, th)
        check(m[c] == (1.0 if inner_r < 0 else 0.0), "sphere shell: center voxel", r, th)
    m = both("spherical_shell_mask", 20, 2)
    exp = sphere_expected((20,) * 3, (10,) * 3, 11) & ~sphere_expected((20,) * 3, (10,) * 3, 9)
    check(np.array_equal(m, exp.astype(float)), "sphere shell: defaults")


def cyl_expected(size, c, r, h):
    i, j, k = grid(size)
    planar = 4 * ((i - int(c[0])) ** 2 + (j - int(c[1])) ** 2) <= int(round(4 * r * r))
    slab = np.abs(k - int(c[2])) <= h // 2
    return planar & slab


def test_cylinders(rng, n):
    for t in range(n):
        size = rand_size(rng)
        c = rand_center(rng, size)
        r = [1, 2, int(rng.integers(1, 25)), int(rng.integers(1, 25)) + 0.5, int(rng.integers(25, 95))][t % 5]
        # the slab center[2] +- height // 2 has to fit in the box (the original raises a broadcast error otherwise)
        hmax = min(c[2], size[2] - 1 - c[2])
        h = int(rng.integers(1, 2 * hmax + 2))
        m = both("cylindrical_mask", as_variant(rng, size), radius=r, height=h, center=as_variant(rng, c))
        if m is None:
            check(False, "cylinder: returns a mask", size, c, r, h)
            continue
        check(m.shape == size and m.dtype == np.float64, "cylinder: shape and type", size, c, r, h)
        check(np.array_equal(m, cyl_expected(size, c, r, h).astype(float)), "cylinder: analytic", size, c, r, h)
        # heights beyond the box: same outcome as the original (an exception), nothing returned
        both("cylindrical_mask", size, radius=r, height=2 * hmax + 2 + int(rng.integers(0, 60)), center=c)
    for size in ((9, 11, 13), (10, 12, 7), (47, 6, 21)):  # default height = odd z size, default radius, default center
        m = both("cylindrical_mask", size)
        exp = cyl_expected(size, tuple(s // 2 for s in size), min(size[:2]) // 2, size[2])
        check(m is not None and np.array_equal(m, exp.astype(float)), "cylinder: defaults", size)
    m = both("cylindrical_mask", (30, 30, 30), radius=5, height=11, center=(15, 14, 13))
    for idx, val in [((18, 18, 13), 1), ((19, 17, 13), 1), ((19, 18, 13), 0), ((18, 18, 18), 1), ((18, 18, 19), 0), ((18, 18, 8), 1), ((18, 18, 7), 0)]:
        check(m[idx] == val, "cylinder: exact thresholds", idx, val)


def ell_expected(size, c, r, strict_boundary=True):
    """returns (certain members, voxels exactly on the surface)"""
    lhs, rhs = ellipsoid_terms(size, c, r)
    return lhs < rhs, lhs == rhs


KNOWN_ROUNDING = {(27, 27, 27)}  # see the final report: 49/729 + 196/729 + 484/729 > 1 in floating point


def check_ellipsoid(m, size, c, r, what):
    inside, surface = ell_expected(size, c, r)
    rr = tuple(int(v) for v in r)
    if max(abs(v) for v in rr) <= 30 and tuple(abs(v) for v in rr) not in KNOWN_ROUNDING:
        # exhaustively checked range: the floating point sum never overshoots on the surface
        check(np.array_equal(m, inside | surface), what + ": sum((i-c)/r)^2 <= 1 exactly", size, c, r)
    else:
        check(np.array_equal(m & ~surface, inside), what + ": sum((i-c)/r)^2 <= 1 off the exact surface", size, c, r)


def test_ellipsoids(rng, n):
    for t in range(n):
        size = rand_size(rng, even=True)
        c = rand_center(rng, size)
        if t % 4 == 0:
            r = tuple(int(v) for v in rng.integers(1, 8, 3))
        elif t % 4 == 1:
            r = tuple(int(v) for v in rng.integers(1, 31, 3))
        elif t % 4 == 2:
            r = (int(rng.integers(1, 31)),) * 3
        else:
            r = tuple(int(v) for v in rng.integers(20, 90, 3))
        if r == (27, 27, 27):
            continue
        m = both("ellipsoid_mask", as_variant(rng, size), radii=as_variant(rng, r), center=as_variant(rng, c))
        if m is None:
            check(False, "ellipsoid: returns a mask", size, c, r)
            continue
        check(m.shape == size and m.dtype == np.bool_, "ellipsoid: shape and type", size, c, r)
        check_ellipsoid(m, size, c, r, "ellipsoid")
    # axis order: a long x axis stays on axis 0
    m = both("ellipsoid_mask", (40, 20, 12), radii=(15, 5, 2), center=(20, 10, 6))
    check(m[35, 10, 6] and m[5, 10, 6] and not m[36, 10, 6] and m[20, 15, 6] and not m[20, 16, 6] and m[20, 10, 8] and not m[20, 10, 9], "ellipsoid: axis order")
    check(m[29, 14, 6] and not m[30, 14, 6] and not m[29, 15, 6], "ellipsoid: boundary 9/15 4/5")
    for s in (6, 12, 48):  # defaults: radii = size // 2, center = size // 2; a single number is used for all three axes
        m = both("ellipsoid_mask", s)
        check_ellipsoid(m, (s, s, s), (s // 2,) * 3, (s // 2,) * 3, "ellipsoid defaults")
        m = both("ellipsoid_mask", (s, s + 2, s + 4), radii=3)
        check_ellipsoid(m, (s, s + 2, s + 4), (s // 2, s // 2 + 1, s // 2 + 2), (3, 3, 3), "ellipsoid single radius")


def test_ellipsoid_shells(rng, n):
    for t in range(n):
        size = rand_size(rng, even=True)
        c = rand_center(rng, size)
        r = tuple(int(v) for v in rng.integers(2, 26, 3))
        th = [2, 4, int(rng.integers(1, 5)) * 2, 1, 3][t % 5]
        # the solids take integer radii (truncation); keep both solids away from a zero radius (division by zero)
        ro = tuple(int(v + th / 2) for v in r)
        ri = tuple(int(v - th / 2) for v in r)
        if 0 in ri or ro == (27, 27, 27) or ri == (27, 27, 27) or tuple(abs(v) for v in ri) == (27, 27, 27):
            continue
        m = both("ellipsoid_shell_mask", as_variant(rng, size), th, as_variant(rng, r), center=as_variant(rng, c))
        if m is None:
            check(False, "ellipsoid shell: returns a mask", size, c, r, th)
            continue
        e1 = both("ellipsoid_mask", size, radii=ro, center=c)
        e2 = both("ellipsoid_mask", size, radii=ri, center=c)
        check(m.dtype == np.bool_ and np.array_equal(m, e1 & ~e2), "ellipsoid shell: outer solid minus inner solid", size, c, r, th)
        o_in, o_surf = ell_expected(size, c, ro)
        i_in, i_surf = ell_expected(size, c, ri)
        check(np.array_equal(m, (o_in | o_surf) & ~(i_in | i_surf)), "ellipsoid shell: analytic", size, c, r, th)
    # zero / negative inner radii: only compared with the original
    both("ellipsoid_shell_mask", (12, 14, 16), 4, (2, 3, 4))
    both("ellipsoid_shell_mask", (12, 14, 16), 8, (2, 3, 4), center=(3, 4, 5))


def test_names(rng, n):
    for t in range(n):
        r = int(rng.integers(1, 22))
        s = 2 * r + 4
        m = both("generate_mask", "sphere_r%d" % r)
        check(np.array_equal(m, sphere_expected((s,) * 3, (s // 2,) * 3, r).astype(float)), "name: sphere", r)
        check(np.array_equal(m, both("spherical_mask", s, radius=r)), "name: sphere = spherical_mask", r)
        ms = int(rng.integers(6, 49))
        m = both("generate_mask", "sphere_r%d" % r, mask_size=ms)
        check(np.array_equal(m, sphere_expected((ms,) * 3, (ms // 2,) * 3, r).astype(float)), "name: sphere with size", r, ms)
        exp_ = int(rng.integers(0, 9))
        m = both("generate_mask", "sphere_r%d" % r, mask_expansion=exp_)
        s2 = math.ceil((2 * r + exp_) / 2) * 2
        check(m.shape == (s2,) * 3 and np.array_equal(m, sphere_expected((s2,) * 3, (s2 // 2,) * 3, r).astype(float)), "name: expansion", r, exp_)

        h = int(rng.integers(1, 22))
        s = 2 * max(r, h) + 4
        m = both("generate_mask", "cylinder_r%d_h%d" % (r, h))
        check(np.array_equal(m, cyl_expected((s,) * 3, (s // 2,) * 3, r, h).astype(float)), "name: cylinder", r, h)

        th = int(rng.integers(1, 9))
        s = math.ceil((2 * max(r, th) + 4 + th) / 2) * 2
        m = both("generate_mask", "s_shell_r%d_s%d" % (r, th))
        cc = (s // 2,) * 3
        exp = sphere_expected((s,) * 3, cc, r + th / 2) & ~sphere_expected((s,) * 3, cc, r - th / 2)
        check(m.shape == (s,) * 3 and np.array_equal(m, exp.astype(float)), "name: s_shell", r, th)

        rr = tuple(int(v) for v in rng.integers(1, 22, 3))
        if rr == (27, 27, 27):
            continue
        s = 2 * max(rr) + 4
        m = both("generate_mask", "ellipsoid_rx%d_ry%d_rz%d" % rr)
        check(m.shape == (s,) * 3, "name: ellipsoid size", rr)
        check_ellipsoid(m, (s,) * 3, (s // 2,) * 3, rr, "name: ellipsoid")

        rr = tuple(int(v) for v in rng.integers(3, 22, 3))
        th = 2 * int(rng.integers(1, 3))
        s = 2 * max(rr + (th,)) + 4
        m = both("generate_mask", "e_shell_rx%d_ry%d_rz%d_s%d" % (rr + (th,)))
        cc = (s // 2,) * 3
        o_in, o_surf = ell_expected((s,) * 3, cc, tuple(v + th // 2 for v in rr))
        i_in, i_surf = ell_expected((s,) * 3, cc, tuple(v - th // 2 for v in rr))
        check(m.shape == (s,) * 3 and np.array_equal(m, (o_in | o_surf) & ~(i_in | i_surf)), "name: e_shell", rr, th)
    for bad in ("sphere", "sphere_r-3", "sphere_r2.5", "cube_r3", "cylinder_r3", "Sphere_r3", "sphere_r3 ", ""):
        new, enew = call(cm.generate_mask, bad)
        old, eold = call(orig.generate_mask, bad)
        check(isinstance(enew, ValueError) and isinstance(eold, ValueError), "name: unknown pattern raises ValueError", bad)
    check(cm.parse_shape_string("e_shell_rx1_ry22_rz3_s4") == ("e_shell", [1, 22, 3, 4]), "name: parse")
    check(cm.parse_shape_string("cylinder_r05_h20") == orig.parse_shape_string("cylinder_r05_h20") == ("cylinder", [5, 20]), "name: parse")


EPS = 1e-9  # the Gaussian filter reaches 1 + 7e-16 in the unmodified tree; see the final report


def test_soft(rng, n):
    for t in range(n):
        size = rand_size(rng)
        c = rand_center(rng, size)
        g = [0.3, 0.5, 1, 1.0, 1.5, 2, 2.7, 3, 3.0, 0, 0.0][t % 11]
        outw = bool(t % 2)
        r = int(rng.integers(1, 20))
        m = both("spherical_mask", size, radius=r, center=c, gaussian=g, gaussian_outwards=outw)
        check(m is not None and m.min() >= -EPS and m.max() <= 1 + EPS, "soft sphere: within [0,1]", size, c, r, g, outw)
        core = sphere_expected(size, c, r)
        if outw or g == 0:
            check(np.all(np.abs(m[core] - 1) <= 1e-3), "soft sphere: core at 1", size, c, r, g)
        if g == 0:
            check(np.array_equal(m, core.astype(float)), "soft sphere: sigma 0 is the hard mask", size, c, r)
        m = both("spherical_shell_mask", size, int(rng.integers(1, 6)), radius=r, center=c, gaussian=g)
        check(m is not None and m.min() >= -EPS and m.max() <= 1 + EPS, "soft sphere shell: within [0,1]", size, c, r, g)

        # cylinder: the dilated slab has to fit
        hmax = min(c[2], size[2] - 1 - c[2])
        grow = int(np.ceil(g * 5)) if (outw and g != 0) else 0
        if hmax - grow >= 1:
            h = int(rng.integers(1, 2 * (hmax - grow) + 2))
            m = both("cylindrical_mask", size, radius=r, height=h, center=c, gaussian=g, gaussian_outwards=outw)
            check(m is not None and m.min() >= -EPS and m.max() <= 1 + EPS, "soft cylinder: within [0,1]", size, c, r, h, g, outw)
            if m is not None and (outw or g == 0):
                check(np.all(np.abs(m[cyl_expected(size, c, r, h)] - 1) <= 1e-3), "soft cylinder: core at 1", size, c, r, h, g)

        size = rand_size(rng, even=True)
        c = rand_center(rng, size)
        rr = tuple(int(v) for v in rng.integers(1, 20, 3))
        m = both("ellipsoid_mask", size, radii=rr, center=c, gaussian=g, gaussian_outwards=outw)
        check(m is not None and m.min() >= -EPS and m.max() <= 1 + EPS, "soft ellipsoid: within [0,1]", size, c, rr, g, outw)
        if outw or g == 0:
            inside, surface = ell_expected(size, c, rr)
            check(np.all(np.abs(m[inside | surface].astype(float) - 1) <= 1e-3), "soft ellipsoid: core at 1", size, c, rr, g)
        m = both("ellipsoid_shell_mask", size, 2, tuple(v + 2 for v in rr), center=c, gaussian=g)
        check(m is not None and m.min() >= -EPS and m.max() <= 1 + EPS, "soft ellipsoid shell: within [0,1]", size, c, rr, g)


def test_algebra(rng, n):
    for t in range(n):
        size = rand_size(rng)
        k = 1 + t % 5
        kind = ["float64", "float32", "int64", "mixedfloat", "boolfloat", "soft", "generated"][t % 7]
        masks = []
        for q in range(k):
            if kind == "soft":
                a = rng.random(size)
                a[rng.random(size) < 0.2] = 0.0
                a[rng.random(size) < 0.2] = 1.0
            elif kind == "generated":
                a = cm.spherical_mask(size, radius=int(rng.integers(1, 20)), center=rand_center(rng, size))
            else:
                a = (rng.random(size) < [0.5, 0.1, 0.9, 0.0, 1.0][(t + q) % 5]).astype(float)
            if kind == "float32" or (kind == "mixedfloat" and q % 2):
                a = a.astype(np.float32)
            elif kind == "int64":
                a = a.astype(np.int64)
            elif kind == "boolfloat" and q > 0:
                a = a.astype(bool)  # the first mask stays float: the in-place subtraction needs a float accumulator
            masks.append(a)
        container = masks if t % 3 else tuple(masks)
        if kind == "float64" and t % 2:
            container = np.stack(masks)  # a 4-D stack iterates and indexes like a list of masks
        res = {}
        for name in ("union", "intersection", "subtraction", "difference"):
            res[name] = both(name, container)
            check(res[name] is not None, name + ": returns a mask", kind, k)
        if any(v is None for v in res.values()):
            continue
        for name, m in res.items():
            check(m.shape == size and m.min() >= 0 and m.max() <= 1, name + ": values in [0,1]", kind, k, size)
        if kind != "soft":
            b = [np.asarray(a) != 0 for a in masks]
            any_ = np.logical_or.reduce(b)
            all_ = np.logical_and.reduce(b)
            rest = np.logical_or.reduce(b[1:]) if k > 1 else np.zeros(size, bool)
            check(np.array_equal(res["union"], any_.astype(float)), "union = OR", kind, k)
            check(np.array_equal(res["intersection"], all_.astype(float)), "intersection = AND", kind, k)
            check(np.array_equal(res["subtraction"], (b[0] & ~rest).astype(float)), "subtraction = AND-NOT", kind, k)
            check(np.array_equal(res["difference"], (any_ & ~all_).astype(float)), "difference = union minus intersection", kind, k)
            if k == 2:
                check(np.array_equal(res["difference"], (b[0] ^ b[1]).astype(float)), "difference of two = XOR", kind)
        else:
            f = [np.asarray(a, dtype=float) for a in masks]
            check(np.allclose(res["union"], np.clip(sum(f), 0, 1), atol=1e-12), "soft union = clipped sum", k)
            check(np.allclose(res["intersection"], np.prod(f, axis=0), atol=1e-12), "soft intersection = product", k)
            sub = f[0] - (sum(f[1:]) if k > 1 else 0)
            check(np.allclose(res["subtraction"], np.clip(sub, 0, 1), atol=1e-12), "soft subtraction = clipped a - b - ...", k)
            check(np.allclose(res["difference"], np.clip(np.clip(sum(f), 0, 1) - np.prod(f, axis=0), 0, 1), atol=1e-12), "soft difference", k)
        for name, m in res.items():  # the result is a new array
            check(not any(np.shares_memory(m, a) for a in masks), name + ": result does not alias an input", kind, k)
    # inputs that are not a non-empty list of masks have never produced a mask
    for name in ("union", "intersection", "subtraction", "difference"):
        for bad in ([], (), "mask.mrc", "no_such_file.em"):
            new, enew = call(getattr(cm, name), bad)
            old, eold = call(getattr(orig, name), bad)
            check(enew is not None and eold is not None, name + ": no mask from an empty list / a bare string", bad)
        a = np.ones((6, 7, 8))
        bb = np.ones((6, 7, 9))
        new, enew = call(getattr(cm, name), [a, bb])
        check(isinstance(enew, ValueError), name + ": different shapes raise ValueError")


def test_files(rng):
    """masks given by path (read through cryomap.read) and results written out"""
    tmp = tempfile.mkdtemp(prefix="c13demo")
    try:
        size = (8, 10, 12)
        a = (rng.random(size) < 0.5).astype(np.float32)
        b = (rng.random(size) < 0.5).astype(np.float32)
        pa, pb, po = (os.path.join(tmp, x) for x in ("a.mrc", "b.em", "out.mrc"))
        cryomap.write(a, pa, data_type=np.single)
        cryomap.write(b, pb, data_type=np.single)
        for name, exp in [("union", (a + b > 0)), ("intersection", (a * b > 0)), ("subtraction", (a - b > 0)), ("difference", (a != b))]:
            m = both(name, [pa, b])
            check(m is not None and np.array_equal(m, exp.astype(float)), name + ": path and array mixed")
            m = both(name, [a, pb], output_name=po)
            check(m is not None and np.array_equal(m, exp.astype(float)), name + ": path and array mixed, written")
            check(np.array_equal(cryomap.read(po), exp.astype(np.float32)), name + ": written file holds the result")
        m = both("spherical_mask", size, radius=3, center=(2, 3, 4), output_name=po)
        check(np.array_equal(cryomap.read(po), m.astype(np.float32)), "sphere: written file holds the mask")
        m = both("spherical_mask", size, radius=-1, center=(2, 3, 4), output_name=po)
        check(not cryomap.read(po).any(), "sphere: written empty mask")
    finally:
        shutil.rmtree(tmp, ignore_errors=True)


def test_format(rng):
    for v in (5, 5.7, [5], (4, 5, 6), [4.9, 5.1, 6.0], np.array([7, 8, 9]), np.array([7.5, 8.5, 9.5]), np.array([3])):
        new, enew = call(cm.get_correct_format, v)
        old, eold = call(orig.get_correct_format, v)
        check(enew is None and eold is None and np.array_equal(new, old) and new.dtype == old.dtype and new.shape == (3,), "get_correct_format", v)
        new = cm.get_correct_format(None, reference_size=v)
        check(np.array_equal(new, orig.get_correct_format(None, reference_size=v)) and np.array_equal(new, cm.get_correct_format(v) // 2), "get_correct_format reference", v)
    for bad in ([1, 2], (1, 2, 3, 4), np.zeros(2)):
        new, enew = call(cm.get_correct_format, bad)
        check(isinstance(enew, ValueError), "get_correct_format: wrong length raises ValueError", bad)
    new, enew = call(cm.get_correct_format, None)
    check(isinstance(enew, ValueError), "get_correct_format: nothing given raises ValueError")
    for r, g, o in [(3, 0, True), (3, 0.0, False), (3, 1.0, True), (3, 1.0, False), (2.5, 0.3, True), (np.array([1, 2, 3]), 0.5, True), (np.array([1, 2, 3]), 0.5, False)]:
        new, old = cm.preprocess_params(r, g, o), orig.preprocess_params(r, g, o)
        check(np.array_equal(new, old) and type(new) is type(old), "preprocess_params", r, g, o)
        exp = np.ceil(np.asarray(r) + 5 * g) if (g != 0 and o) else np.asarray(r)
        check(np.array_equal(new, exp), "preprocess_params value", r, g, o)


class _Counter(logging.Handler):
    def __init__(self):
        super().__init__(level=logging.DEBUG)
        self.n = 0

    def emit(self, record):
        self.n += 1
        record.getMessage()  # format the message as a real handler would


def run_all(scale):
    rng = np.random.default_rng(20260928)
    test_format(rng)
    test_spheres(rng, 64 * scale)
    if scale > 2:
        test_sphere_exhaustive()
    test_sphere_shells(rng, 40 * scale)
    test_cylinders(rng, 40 * scale)
    test_ellipsoids(rng, 48 * scale)
    test_ellipsoid_shells(rng, 30 * scale)
    test_names(rng, 6 * scale)
    test_soft(rng, 22 * scale)
    test_algebra(rng, 35 * scale)
    test_files(rng)


if __name__ == "__main__":
    warnings.simplefilter("ignore")
    np.seterr(all="ignore")
    # first pass: logging as a user has it by default (nothing configured)
    run_all(6)
    # second pass: debug logging switched on for the whole package (exercises any diagnostics); results must not change
    handler = _Counter()
    lg = logging.getLogger("cryocat")
    lg.addHandler(handler)
    lg.setLevel(logging.DEBUG)
    lg.propagate = False
    state_before = (np.random.get_state()[1].tobytes(), np.random.get_state()[2])
    run_all(2)
    check((np.random.get_state()[1].tobytes(), np.random.get_state()[2]) == state_before, "global random state untouched")
    lg.removeHandler(handler)
    lg.setLevel(logging.NOTSET)
    lg.propagate = True

    total = sum(COUNT.values())
    print("checks run: %d in %d groups; debug records seen: %d" % (total, len(COUNT), handler.n))
    if FAIL:
        print("FAILED: %d checks" % len(FAIL))
        sys.exit(1)
    print("PASS")
    sys.exit(0)
