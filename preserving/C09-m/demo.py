"""C09 / change c -- Motl.adapt_to_trimming: position columns and the first-voxel number taken from class-level constants.

Property part checked here: trimming adaptation re-expresses the extraction positions x, y, z relative to the
trimmed volume (x - (start - 1)) and keeps exactly those inside it (1 <= new <= end - start + 1 on every axis);
survivors are not altered apart from that offset (all other columns, the row labels and the order stay).

1. oracle: one particle at a time in plain Python floats -- compared with the tree's function
2. the tree's function is compared with a verbatim copy of the original function (literal column lists, literal
   1 / 1.0) on the same inputs: trimming coordinates given as int lists, tuples, int64 / int32 arrays, float
   arrays (whole and fractional), positions exactly on the first / last voxel of the trimmed volume, negative and
   zero coordinates, empty and single-row lists, non-default row labels, NaN holes, integer position columns,
   repeated calls on the same object; the shared tables must be unchanged after all calls.
"""
import sys, os

sys.path.insert(0, os.getcwd())

import numpy as np
import pandas as pd

from cryocat import cryomotl
from cryocat.cryomotl import Motl

ORIGINAL = '''
def adapt_to_trimming_orig(self, trim_coord_start, trim_coord_end):
    trimvol_coord = np.asarray(trim_coord_start) - 1
    tdim = np.asarray(trim_coord_end) - trimvol_coord
    self.df.loc[:, ["x", "y", "z"]] = self.df.loc[:, ["x", "y", "z"]] - np.tile(
        trimvol_coord, (self.df.shape[0], 1)
    )
    self.df = self.df.loc[~((self.df["x"] < 1.0) | (self.df["y"] < 1.0) | (self.df["z"] < 1.0)), :]
    self.df = self.df.loc[
        ~((self.df["x"] > tdim[0]) | (self.df["y"] > tdim[1]) | (self.df["z"] > tdim[2])),
        :,
    ]
'''
_ns = vars(cryomotl)
exec(ORIGINAL, _ns)
adapt_orig = _ns["adapt_to_trimming_orig"]

rng = np.random.default_rng(int(os.environ.get("DEMO_SEED", "9093")))
failures = []
n_checked = 0


def make_motl(n, tomos, integer=False, index=None, lo=-20.0, hi=140.0):
    data = {c: rng.normal(size=n) for c in Motl.motl_columns}
    if integer:
        xyz = rng.integers(int(lo), int(hi), size=(n, 3)).astype(float)
    else:
        xyz = rng.uniform(lo, hi, size=(n, 3))
    data["x"], data["y"], data["z"] = xyz[:, 0], xyz[:, 1], xyz[:, 2]
    for c in ["shift_x", "shift_y", "shift_z"]:
        data[c] = rng.uniform(-30.0, 30.0, size=n)  # shifts are not part of the extraction position
    data["tomo_id"] = rng.choice(np.asarray(tomos, dtype=float), size=n) if n else np.zeros(0)
    data["subtomo_id"] = rng.permutation(np.arange(1, n + 1)).astype(float)
    df = pd.DataFrame(data, columns=Motl.motl_columns).astype(float)
    if index is not None:
        df.index = index(n)
    return df


def oracle(df, start, end):
    start = [float(v) for v in start]
    end = [float(v) for v in end]
    keep, newpos = [], []
    for i in range(len(df)):
        r = df.iloc[i]
        new = [float(r[c]) - (start[k] - 1.0) for k, c in enumerate("xyz")]
        dim = [end[k] - (start[k] - 1.0) for k in range(3)]
        if any(np.isnan(v) for v in new):
            return None  # positions with holes are outside the property; compared with the original only
        if all(1.0 <= new[k] <= dim[k] for k in range(3)):
            keep.append(i)
            newpos.append(new)
    exp = df.iloc[keep].copy()
    if keep:
        exp[["x", "y", "z"]] = np.asarray(newpos, dtype=float)
    return exp


def same_frame(a, b):
    if list(a.columns) != list(b.columns) or a.shape != b.shape or not a.index.equals(b.index):
        return False
    if list(a.dtypes) != list(b.dtypes):
        return False
    if a.shape[0] == 0:
        return True
    return bool(np.array_equal(a.to_numpy(dtype=float), b.to_numpy(dtype=float), equal_nan=True))


def run(fn, df, start, end, bound):
    m = Motl(df.copy(deep=True))
    try:
        ret = fn(start, end) if bound else fn(m, start, end)
        return ("ok", m, ret)
    except Exception as e:  # noqa
        return ("err", type(e).__name__, str(e))


def run_case(tag, df, start, end, check_oracle=True, again=None):
    global n_checked
    n_checked += 1
    before = df.copy(deep=True)
    start_copy = np.array(start, dtype=object).copy() if not isinstance(start, np.ndarray) else start.copy()
    m_new = Motl(df.copy(deep=True))
    m_old = Motl(df.copy(deep=True))
    out = {}
    for name, m in (("new", m_new), ("old", m_old)):
        try:
            ret = m.adapt_to_trimming(start, end) if name == "new" else adapt_orig(m, start, end)
            out[name] = ("ok", ret)
        except Exception as e:  # noqa
            out[name] = ("err", type(e).__name__)
    if out["new"] != out["old"]:
        failures.append(f"{tag}: outcome differs: {out['new']} vs {out['old']}")
        return
    if out["new"][0] == "err":
        return
    if out["new"][1] is not None:
        failures.append(f"{tag}: unexpected return value")
    if not same_frame(m_new.df, m_old.df):
        failures.append(f"{tag}: result differs from the original function")
    # the arguments are not modified
    if isinstance(start, np.ndarray) and not np.array_equal(start, start_copy):
        failures.append(f"{tag}: trim_coord_start was modified")
    if check_oracle:
        exp = oracle(before, start, end)
        if exp is not None and not same_frame(m_new.df, exp):
            failures.append(f"{tag}: differs from the oracle (got {len(m_new.df)} rows, expected {len(exp)})")
    # repeated call on the same objects (a second trimming of the already trimmed volume)
    if again is not None:
        s2, e2 = again
        b2 = m_new.df.copy(deep=True)
        m_new.adapt_to_trimming(s2, e2)
        adapt_orig(m_old, s2, e2)
        if not same_frame(m_new.df, m_old.df):
            failures.append(f"{tag}: second call differs from the original function")
        if check_oracle:
            exp2 = oracle(b2, s2, e2)
            if exp2 is not None and not same_frame(m_new.df, exp2):
                failures.append(f"{tag}: second call differs from the oracle")


def as_variant(v, kind):
    v = [int(a) for a in v]
    if kind == 0:
        return list(v)
    if kind == 1:
        return tuple(v)
    if kind == 2:
        return np.asarray(v, dtype=np.int64)
    if kind == 3:
        return np.asarray(v, dtype=np.int32)
    if kind == 4:
        return np.asarray(v, dtype=np.float64)
    if kind == 5:
        return np.asarray(v, dtype=np.float32)
    if kind == 6:
        return [float(a) for a in v]
    return [v[0], float(v[1]), v[2]]  # mixed list


# ---- random sweeps ---------------------------------------------------------------------------------------
indexers = [None, lambda n: np.arange(n)[::-1] * 2 + 50, lambda n: rng.permutation(n) + 7]
for rep in range(200):
    n = int(rng.choice([0, 1, 2, 5, 30, 80]))
    integer = rep % 2 == 0
    df = make_motl(n, [1, 2, 3][: 1 + rep % 3], integer=integer, index=indexers[rep % 3])
    s = rng.integers(1, 60, size=3)
    e = s + rng.integers(0, 70, size=3)  # end == start gives a one-voxel volume
    kind = rep % 8
    start, end = as_variant(s, kind), as_variant(e, (kind + rep // 8) % 8)
    again = None
    if rep % 4 == 0:
        again = (as_variant([2, 1, 3], kind), as_variant([40, 40, 40], kind))
    run_case(f"random#{rep}", df, start, end, again=again)

# fractional trimming coordinates (float arrays / lists)
for rep in range(40):
    df = make_motl(40, [1, 2], integer=rep % 2 == 0)
    s = np.round(rng.uniform(1, 50, size=3) * 4) / 4  # quarters: exact in binary
    e = s + np.round(rng.uniform(0, 60, size=3) * 4) / 4
    if rep % 3 == 0:
        s, e = list(s), list(e)
    run_case(f"fractional#{rep}", df, s, e)

# ---- boundary inputs ---------------------------------------------------------------------------------------
base = make_motl(10, [4], integer=True)
S, E = [11, 21, 31], [20, 40, 45]  # trimmed volume 10 x 20 x 15
base[["x", "y", "z"]] = np.array(
    [
        [11, 21, 31],  # first voxel of the trimmed volume -> (1, 1, 1), kept
        [20, 40, 45],  # last voxel -> (10, 20, 15), kept
        [10, 21, 31],  # one below on x -> 0, removed
        [21, 40, 45],  # one above on x -> 11, removed
        [11, 20, 31],  # one below on y
        [20, 41, 45],  # one above on y
        [11, 21, 30],  # one below on z
        [20, 40, 46],  # one above on z
        [0, 0, 0],  # zero position
        [-5, 25, 35],  # negative position
    ],
    dtype=float,
)
for kind in range(8):
    run_case(f"faces-kind{kind}", base, as_variant(S, kind), as_variant(E, kind))
half = base.copy()
half[["x", "y", "z"]] += np.array([0.5, 0.0, 0.0])  # 20.5 -> 10.5 > 10 removed, 10.5 -> 0.5 < 1 removed
run_case("faces-half-voxel", half, S, E)
eps = base.copy()
eps.loc[0, "x"] = np.nextafter(11.0, 0.0)  # just below the first voxel
eps.loc[1, "x"] = np.nextafter(20.0, 100.0)  # just above the last voxel
run_case("faces-epsilon", eps, S, E)
run_case("faces-epsilon-arrays", eps, np.asarray(S), np.asarray(E, dtype=float))
# start = 1: no offset at all, only the upper bound acts; start = 0 and negative start
run_case("start-1", base, [1, 1, 1], [20, 40, 45])
run_case("start-1-int-array", base, np.array([1, 1, 1]), np.array([20, 40, 45]))
run_case("start-0", base, [0, 0, 0], [20, 40, 45])
run_case("start-negative", base, [-10, -10, -10], [20, 40, 45])
# one-voxel volume, empty volume (end < start)
run_case("one-voxel", base, [11, 21, 31], [11, 21, 31])
run_case("end-before-start", base, [11, 21, 31], [10, 40, 45])
# everything kept / everything removed
run_case("all-kept", base, [-100, -100, -100], [1000, 1000, 1000])
run_case("all-removed", base, [500, 500, 500], [600, 600, 600])
# empty and single-row lists, non-default labels
run_case("empty-list", Motl.create_empty_motl_df(), S, E)
run_case("empty-list-arrays", Motl.create_empty_motl_df(), np.asarray(S), np.asarray(E))
run_case("single-kept", base.iloc[[0]], S, E)
run_case("single-removed", base.iloc[[2]], S, E)
lab = base.copy()
lab.index = [100, 7, 55, 3, 2, 1, 0, 99, 98, 97]
run_case("labels", lab, S, E, again=([1, 1, 1], [5, 20, 15]))
run_case("labels-arrays", lab, np.asarray(S), np.asarray(E), again=(np.array([1, 1, 1]), np.array([5, 20, 15])))
# large whole numbers (still exact in float64 and float32-free)
big = base.copy()
big[["x", "y", "z"]] += 1.0e6
run_case("large", big, [1000011, 1000021, 1000031], [1000020, 1000040, 1000045])
run_case("large-int-arrays", big, np.array([1000011, 1000021, 1000031]), np.array([1000020, 1000040, 1000045]))
# outside the quantifier: the two versions must agree (result or error); no oracle
nan = base.copy()
nan.loc[3, "y"] = np.nan
run_case("nan-hole", nan, S, E, check_oracle=False)
run_case("nan-hole-arrays", nan, np.asarray(S), np.asarray(E), check_oracle=False)
ints = base.copy()
ints[["x", "y", "z"]] = ints[["x", "y", "z"]].astype(int)  # integer position columns
run_case("int-columns", ints, S, E, check_oracle=False)
run_case("int-columns-float-trim", ints, np.asarray(S, dtype=float), np.asarray(E, dtype=float), check_oracle=False)
run_case("two-values-only", base, [11, 21], [20, 40], check_oracle=False)
run_case("four-values", base, [11, 21, 31, 1], [20, 40, 45, 2], check_oracle=False)

# the shared tables (present only in the patched tree) are what the literals were, also after all the calls
if hasattr(Motl, "position_columns") and (
    Motl.position_columns != ["x", "y", "z"] or not isinstance(Motl.position_columns, list)
):
    failures.append(f"position_columns is {Motl.position_columns!r}")
if hasattr(Motl, "first_voxel") and not (Motl.first_voxel == 1 and Motl.first_voxel == 1.0):
    failures.append(f"first_voxel is {Motl.first_voxel!r}")
for sub in (cryomotl.EmMotl, cryomotl.RelionMotl, cryomotl.StopgapMotl, cryomotl.DynamoMotl):
    if getattr(sub, "position_columns", None) is not getattr(Motl, "position_columns", None):
        failures.append(f"{sub.__name__} overrides position_columns")

if failures:
    print(f"FAIL ({len(failures)} findings in {n_checked} cases)")
    for f in failures[:20]:
        print("  ", f)
    sys.exit(1)
print(f"PASS ({n_checked} cases: per-particle oracle, original-vs-current, repeated call, argument types)")
