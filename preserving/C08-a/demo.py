import sys, os

sys.path.insert(0, os.getcwd())

import contextlib
import copy
import io
import warnings

import numpy as np
import pandas as pd

warnings.filterwarnings("ignore")

from cryocat import cryomotl
from cryocat.cryomotl import Motl, EmMotl
from cryocat.exceptions import UserInputError

COLS = list(Motl.motl_columns)
CI = {c: i for i, c in enumerate(COLS)}
assert len(COLS) == 20


class Failure(Exception):
    pass


def check(cond, msg):
    if not cond:
        raise Failure(msg)


# ----------------------------------------------------------------------------------------------------------------------
# random particle lists
# ----------------------------------------------------------------------------------------------------------------------
def rand_df(rng, n=None, index_kind=None, int_ids=None, nan_cols=()):
    """0..200 particles, repeated values in every key column, unsorted (and possibly repeated) ids, negative values,
    score ties, optional integer dtype of the id columns, optional non-default index."""
    if n is None:
        n = int(rng.choice([0, 1, 2, 3, 5, 8, 13, 40, 100, 200]))
    d = {}
    for c in COLS:
        d[c] = np.round(rng.normal(0, 50, n), 1)
    d["score"] = rng.choice(np.array([-0.5, 0.0, 0.1, 0.25, 0.25, 0.7, 0.9, 1.5]), n) if rng.random() < 0.6 else rng.random(n) - 0.3
    d["tomo_id"] = rng.choice(np.array([1.0, 2.0, 5.0, 17.0, 120.0]), n)
    d["object_id"] = rng.integers(-2, 9, n).astype(float) if rng.random() < 0.5 else rng.integers(1, 4, n).astype(float)
    d["class"] = rng.integers(1, 5, n).astype(float)
    d["geom1"] = rng.integers(0, 3, n).astype(float)
    mode = rng.integers(0, 3)
    if mode == 0:  # unique unsorted ids
        d["subtomo_id"] = rng.permutation(np.arange(1, n + 1)).astype(float) + int(rng.integers(0, 50))
    elif mode == 1:  # many repeated ids
        d["subtomo_id"] = rng.integers(1, max(2, n // 2 + 1), n).astype(float)
    else:  # few repeated ids, unsorted
        d["subtomo_id"] = rng.integers(1, 3 * n + 2, n).astype(float)
    df = pd.DataFrame(d, columns=COLS)
    if int_ids is None:
        int_ids = rng.random() < 0.25
    if int_ids:
        for c in ("subtomo_id", "tomo_id", "object_id", "class"):
            df[c] = df[c].astype(np.int64)
    for c in nan_cols:
        if n:
            df.loc[rng.random(n) < 0.2, c] = np.nan
    if index_kind is None:
        index_kind = rng.choice(["default", "shuffled", "offset", "repeated", "float"])
    if index_kind == "shuffled":
        df.index = rng.permutation(n)
    elif index_kind == "offset":
        df.index = np.arange(n) * 3 + 100
    elif index_kind == "repeated":
        df.index = rng.integers(0, max(1, n // 2), n)
    elif index_kind == "float":
        df.index = np.arange(n) / 2.0 - 3
    return df


def rows_of(df):
    """The table as a list of 20-tuples in the canonical field order; fails when the fields are not exactly the 20."""
    check(isinstance(df, pd.DataFrame), "not a DataFrame")
    check(len(df.columns) == 20 and sorted(df.columns) == sorted(COLS), f"fields are not the 20 motl fields: {list(df.columns)}")
    a = df[COLS].to_numpy(dtype=float)
    return [tuple(r) for r in a.tolist()]


def same_rows(a, b):
    if len(a) != len(b):
        return False
    if len(a) == 0:
        return True
    return np.array_equal(np.array(a, dtype=float), np.array(b, dtype=float), equal_nan=True)


def check_rows(df, expected, what):
    got = rows_of(df)
    if not same_rows(got, expected):
        raise Failure(f"{what}: table differs from the row-set model ({len(got)} rows vs {len(expected)} expected)")


# ----------------------------------------------------------------------------------------------------------------------
# pure-Python row-set model
# ----------------------------------------------------------------------------------------------------------------------
def m_subset(rows, values, f):
    k = CI[f]
    return [r for v in values for r in rows if r[k] == v]


def m_remove(rows, f, values):
    k = CI[f]
    return [r for r in rows if all(r[k] != v for v in values)]


def m_split(rows, f):
    k = CI[f]
    order, parts = [], {}
    for r in rows:
        if r[k] not in parts:
            parts[r[k]] = []
            order.append(r[k])
        parts[r[k]].append(r)
    return [parts[v] for v in order]


def m_intersection(rows1, rows2, f):
    k = CI[f]
    present = {r[k] for r in rows2}
    return [r for r in rows1 if r[k] in present]


def m_dropdup(rows, dup="subtomo_id", dec="score", asc=False):
    kd, ks = CI[dup], CI[dec]
    best = {}
    for r in rows:
        key = r[kd]
        if key not in best:
            best[key] = r
        else:
            cur = best[key]
            if (r[ks] < cur[ks]) if asc else (r[ks] > cur[ks]):
                best[key] = r
    return [best[key] for key in sorted(best)]


def _set(r, f, v):
    r = list(r)
    r[CI[f]] = float(v)
    return tuple(r)


def m_merge(row_lists):
    ko = CI["object_id"]
    merged, add = [], 0
    for rows in row_lists:
        if not rows:
            continue
        lo = min(r[ko] for r in rows)
        if lo <= add:
            rows = [_set(r, "object_id", r[ko] + (add - lo + 1)) for r in rows]
        merged.extend(rows)
        add = max(r[ko] for r in rows)
    return merged


def m_renumber_particles(rows):
    return [_set(r, "subtomo_id", i + 1) for i, r in enumerate(rows)]


def m_merge_renumber(row_lists):
    return m_renumber_particles(m_merge(row_lists))


def m_merge_dropdup(row_lists):
    return m_dropdup(m_merge(row_lists))


def m_renumber_objects(rows, start=1):
    kt, ko = CI["tomo_id"], CI["object_id"]
    new = {}
    nxt = start
    for t in sorted({r[kt] for r in rows}):
        seen = {}
        for i, r in enumerate(rows):
            if r[kt] != t:
                continue
            if r[ko] not in seen:
                seen[r[ko]] = nxt + len(seen)
            new[i] = seen[r[ko]]
        nxt = nxt + len(seen)
    return [_set(r, "object_id", new[i]) for i, r in enumerate(rows)]


# ----------------------------------------------------------------------------------------------------------------------
# direct statements of the property (independent of the model's algorithms)
# ----------------------------------------------------------------------------------------------------------------------
def others_unchanged(before, after, changed_fields):
    """every row of `after` equals some row of `before` in all fields but `changed_fields` (multiset inclusion)"""
    keep = [i for c, i in CI.items() if c not in changed_fields]
    pool = {}
    for r in before:
        key = tuple(r[i] for i in keep)
        pool[key] = pool.get(key, 0) + 1
    for r in after:
        key = tuple(r[i] for i in keep)
        if pool.get(key, 0) <= 0:
            return False
        pool[key] -= 1
    return True


def multiset(rows):
    d = {}
    for r in rows:
        d[r] = d.get(r, 0) + 1
    return d


def quiet(fn, *a, **k):
    buf = io.StringIO()
    with contextlib.redirect_stdout(buf):
        return fn(*a, **k)


def pick_values(rng, rows, f, allow_repeat=True):
    """values to request: present ones, absent ones, possibly repeated, possibly none"""
    k = CI[f]
    present = sorted({r[k] for r in rows})
    vals = []
    if present:
        cnt = int(rng.integers(0, min(4, len(present)) + 1))
        vals = [float(v) for v in rng.choice(present, cnt, replace=False)]
    if rng.random() < 0.4:
        vals.append(float(rng.choice([-77.0, 9999.0, 0.5])))  # a value that does not occur
    if allow_repeat and vals and rng.random() < 0.2:
        vals.append(vals[0])
    rng.shuffle(vals)
    return vals


def second_list(rng, rows):
    """another particle list sharing some rows / ids with `rows`"""
    other = rand_df(rng, index_kind=str(rng.choice(["default", "shuffled", "offset"])), int_ids=False)
    if rows and rng.random() < 0.8:
        take = [rows[i] for i in rng.integers(0, len(rows), int(rng.integers(1, len(rows) + 1)))]
        extra = pd.DataFrame(take, columns=COLS)
        if rng.random() < 0.5:
            extra["score"] = extra["score"] + rng.choice([-1.0, 0.0, 1.0], len(extra))
        other = pd.concat([other, extra]).sample(frac=1.0, random_state=int(rng.integers(0, 2**31)))
        if rng.random() < 0.5:
            other = other.reset_index(drop=True)
    return other


OPS = ["subset", "remove", "split", "intersection", "dropdup", "merge_renumber", "merge_dropdup", "renumber_particles", "renumber_objects"]
KEYS = ["tomo_id", "object_id", "class", "subtomo_id", "geom1", "score"]


def run_history(rng, n_ops=10):
    df0 = rand_df(rng)
    m = Motl(df0.copy()) if rng.random() < 0.7 else EmMotl(df0.copy())
    rows = rows_of(df0)
    check_rows(m.df, rows, "construction")
    for step in range(int(rng.integers(1, n_ops + 1))):
        op = str(rng.choice(OPS))
        what = f"step {step} {op}"
        before = list(rows)
        if op == "subset":
            f = str(rng.choice(KEYS))
            vals = pick_values(rng, rows, f)
            arg = vals if (len(vals) != 1 or rng.random() < 0.5) else vals[0]
            ri = bool(rng.random() < 0.5)
            saved = m.df.copy()
            if rng.random() < 0.3:
                out = m.get_motl_subset(arg, feature_id=f, return_df=True, reset_index=ri)
                check(isinstance(out, pd.DataFrame), what + ": return_df did not return a DataFrame")
                new = Motl(out)
            else:
                new = m.get_motl_subset(arg, feature_id=f, reset_index=ri)
                check(isinstance(new, Motl), what + ": did not return a Motl")
            pd.testing.assert_frame_equal(m.df, saved, check_exact=True)  # the source list is untouched
            rows = m_subset(rows, vals, f)
            check_rows(new.df, rows, what)
            # direct: exactly the matching rows, grouped by requested value, original order inside each
            k = CI[f]
            got = rows_of(new.df)
            check([r[k] for r in got] == [v for v in vals for r in before if r[k] == v], what + ": grouping/order")
            if ri:
                check(list(new.df.index) == list(range(len(rows))), what + ": index not reset")
            # complementary to removal
            if len(set(vals)) == len(vals):
                rem = copy.deepcopy(m)
                rem.remove_feature(f, list(vals))
                ms = multiset(got)
                for r in rows_of(rem.df):
                    ms[r] = ms.get(r, 0) + 1
                check(ms == multiset(before), what + ": subset and removal are not complementary")
            m = new
        elif op == "remove":
            f = str(rng.choice(KEYS))
            vals = pick_values(rng, rows, f)
            kind = rng.integers(0, 3)
            if kind == 0 and len(vals) == 1:
                arg = vals[0]
            elif kind == 1:
                arg = np.array(vals, dtype=float)
            else:
                arg = list(vals)
            m.remove_feature(f, arg)
            rows = m_remove(rows, f, vals)
            check_rows(m.df, rows, what)
            k = CI[f]
            check(all(r[k] not in vals for r in rows_of(m.df)), what + ": removed value survived")
        elif op == "split":
            f = str(rng.choice(KEYS[:5]))
            saved = m.df.copy()
            parts = m.split_by_feature(f)
            pd.testing.assert_frame_equal(m.df, saved, check_exact=True)
            exp = m_split(rows, f)
            check(len(parts) == len(exp), what + ": number of parts")
            tot = {}
            for p, e in zip(parts, exp):
                check(type(p) is Motl, what + ": part is not a Motl")
                check_rows(p.df, e, what)
                check(len({r[CI[f]] for r in e}) == 1, what + ": part holds several values")
                for r in e:
                    tot[r] = tot.get(r, 0) + 1
            check(tot == multiset(rows), what + ": parts do not partition the list")
            if parts and rng.random() < 0.6:
                i = int(rng.integers(0, len(parts)))
                m, rows = parts[i], exp[i]
        elif op == "intersection":
            f = str(rng.choice(["subtomo_id", "subtomo_id", "tomo_id", "object_id"]))
            other = second_list(rng, rows)
            o = Motl(other.copy())
            saved, saved_o = m.df.copy(), o.df.copy()
            new = Motl.get_motl_intersection(m, o, feature_id=f)
            pd.testing.assert_frame_equal(m.df, saved, check_exact=True)
            pd.testing.assert_frame_equal(o.df, saved_o, check_exact=True)
            rows = m_intersection(rows, rows_of(other), f)
            check_rows(new.df, rows, what)
            m = new
        elif op == "dropdup":
            r_ = rng.random()
            if r_ < 0.5:
                kw = {}
            elif r_ < 0.7:
                kw = dict(decision_sort_ascending=True)
            elif r_ < 0.85:
                kw = dict(decision_column="geom2", decision_sort_ascending=bool(rng.random() < 0.5))
            else:
                kw = dict(duplicates_column=str(rng.choice(["object_id", "tomo_id", "class"])), decision_column=str(rng.choice(["geom1", "score", "x"])), decision_sort_ascending=bool(rng.random() < 0.5))
            m.drop_duplicates(**kw)
            rows = m_dropdup(rows, kw.get("duplicates_column", "subtomo_id"), kw.get("decision_column", "score"), kw.get("decision_sort_ascending", False))
            check_rows(m.df, rows, what)
            kd = CI[kw.get("duplicates_column", "subtomo_id")]
            ks = CI[kw.get("decision_column", "score")]
            ids = [r[kd] for r in rows_of(m.df)]
            check(len(ids) == len(set(ids)) and set(ids) == {r[kd] for r in before}, what + ": not exactly one row per id")
            for r in rows_of(m.df):
                sc = [b[ks] for b in before if b[kd] == r[kd]]
                check(r[ks] == (min(sc) if kw.get("decision_sort_ascending", False) else max(sc)), what + ": kept row is not the best")
            check(all(r in before for r in rows_of(m.df)), what + ": kept row is not an original row")
            check(list(m.df.index) == list(range(len(rows))), what + ": index not reset")
        elif op in ("merge_renumber", "merge_dropdup"):
            extra = [second_list(rng, rows) for _ in range(int(rng.integers(0, 3)))]
            if rng.random() < 0.3:
                extra.insert(int(rng.integers(0, len(extra) + 1)), rand_df(rng, n=0))
            inputs, in_rows = [], []
            pos = int(rng.integers(0, len(extra) + 1))
            for i, e in enumerate(extra):
                if i == pos:
                    inputs.append(m)
                    in_rows.append(rows)
                inputs.append(Motl(e.copy()) if rng.random() < 0.6 else e.copy())
                in_rows.append(rows_of(e))
            if pos == len(extra):
                inputs.append(m)
                in_rows.append(rows)
            saved = [x.df.copy() if isinstance(x, Motl) else x.copy() for x in inputs]
            cls = Motl if rng.random() < 0.7 else EmMotl
            if op == "merge_renumber":
                new = quiet(cls.merge_and_renumber, inputs)
                rows = m_merge_renumber(in_rows)
            else:
                new = quiet(cls.merge_and_drop_duplicates, inputs)
                rows = m_merge_dropdup(in_rows)
            for x, s in zip(inputs, saved):
                pd.testing.assert_frame_equal(x.df if isinstance(x, Motl) else x, s, check_exact=True)
            check(type(new) is cls, what + ": wrong class")
            check_rows(new.df, rows, what)
            check(list(new.df.index) == list(range(len(rows))), what + ": index not reset")
            got = rows_of(new.df)
            if op == "merge_renumber":
                check([r[CI["subtomo_id"]] for r in got] == [float(i) for i in range(1, len(got) + 1)], what + ": subtomo ids are not 1..N")
                # objects never collide across inputs, grouping inside each input kept
                ko = CI["object_id"]
                p0, seen_sets = 0, []
                for rws in in_rows:
                    seg = got[p0 : p0 + len(rws)]
                    p0 += len(rws)
                    check(others_unchanged(rws, seg, {"object_id", "subtomo_id"}), what + ": other fields changed")
                    pairs = {(a[ko], b[ko]) for a, b in zip(rws, seg)}
                    check(len({a for a, _ in pairs}) == len(pairs) == len({b for _, b in pairs}), what + ": grouping of an input changed")
                    seen_sets.append({b[ko] for b in seg})
                for i in range(len(seen_sets)):
                    for j in range(i + 1, len(seen_sets)):
                        check(not (seen_sets[i] & seen_sets[j]), what + ": object numbers collide across inputs")
            m = new
        elif op == "renumber_particles":
            m.renumber_particles()
            rows = m_renumber_particles(rows)
            check_rows(m.df, rows, what)
            check(others_unchanged(before, rows_of(m.df), {"subtomo_id"}), what + ": other fields changed")
        elif op == "renumber_objects":
            start = int(rng.choice([1, 1, 1, 0, 7, -3]))
            if start == 1 and rng.random() < 0.5:
                m.renumber_objects_sequentially()
            else:
                m.renumber_objects_sequentially(starting_number=start)
            rows = m_renumber_objects(rows, start)
            check_rows(m.df, rows, what)
            got = rows_of(m.df)
            kt, ko = CI["tomo_id"], CI["object_id"]
            pairs = {((a[kt], a[ko]), b[ko]) for a, b in zip(before, got)}
            check(len({a for a, _ in pairs}) == len(pairs) == len({b for _, b in pairs}), what + ": (tomogram, object) grouping changed")
            newids = sorted({b for _, b in pairs})
            check(newids == [float(start + i) for i in range(len(newids))], what + ": numbers are not consecutive")
            check(others_unchanged(before, got, {"object_id"}), what + ": other fields changed")
        # after every operation: exactly the 20 fields, and every surviving row stems from an earlier row
        check(Motl.check_df_correct_format(m.df) and len(m.df.columns) == 20, what + ": fields")
        if op in ("subset", "remove", "split", "intersection", "dropdup"):
            check(others_unchanged(before, rows_of(m.df), set()) or op == "subset", what + ": a surviving row changed")


def run_histories(seed, count):
    rng = np.random.default_rng(seed)
    for h in range(count):
        try:
            run_history(rng)
        except Failure as e:
            print(f"FAIL history {h} (seed {seed}): {e}")
            return False
        except AssertionError as e:
            print(f"FAIL history {h} (seed {seed}): {str(e)[:300]}")
            return False
    return True


def frames_identical(a, b, what):
    """bit-for-bit comparison of two tables: values, dtypes, column order, index"""
    try:
        pd.testing.assert_frame_equal(a, b, check_exact=True, check_dtype=True, check_index_type=True, check_column_type=True)
    except AssertionError as e:
        raise Failure(f"{what}: original and current implementation differ: {str(e)[:300]}")


def swap_method(name, fn):
    """context manager installing `fn` as Motl.<name> (used to run the ORIGINAL text of a function)"""

    @contextlib.contextmanager
    def cm():
        old = Motl.__dict__[name]
        setattr(Motl, name, fn)
        try:
            yield
        finally:
            setattr(Motl, name, old)

    return cm()


# ======================================================================================================================
# change (a): get_motl_subset / remove_feature / split_by_feature -- ORIGINAL text of the three functions
# ======================================================================================================================
def orig_get_motl_subset(self, feature_values, feature_id="tomo_id", return_df=False, reset_index=True):
    if isinstance(feature_values, (list, np.ndarray)):
        feature_values = np.atleast_1d(np.array(feature_values))  # a 0-d array is one value
    else:
        feature_values = np.array([feature_values])

    new_df = Motl.create_empty_motl_df()
    for i in feature_values:
        df_i = self.df.loc[self.df[feature_id] == i].copy()
        new_df = pd.concat([new_df, df_i])

    if reset_index:
        new_df = new_df.reset_index(drop=True)

    if return_df:
        return new_df
    else:
        return Motl(motl_df=new_df)


def orig_remove_feature(self, feature_id, feature_values):
    if not isinstance(feature_values, (list, np.ndarray)):
        feature_values = [feature_values]
    for value in feature_values:
        self.df = self.df.loc[self.df[feature_id] != value]


def orig_split_by_feature(self, feature_id, write_out=False, output_prefix=""):
    uniq_values = self.get_unique_values(feature_id)
    motls = list()

    for value in uniq_values:
        submotl = Motl(self.df.loc[self.df[feature_id] == value])
        motls.append(submotl)

        if write_out:
            out_name = f"{output_prefix}{str(int(value))}.em"
            submotl.write_out(out_name)

    return motls


def compare_with_original(seed, count):
    import tempfile, glob

    rng = np.random.default_rng(seed)
    for it in range(count):
        nan_cols = ("geom3", "score", "object_id") if rng.random() < 0.3 else ()
        df = rand_df(rng, nan_cols=nan_cols)
        f = str(rng.choice(KEYS + ["geom3"]))
        rows = [tuple(0.0 if np.isnan(v) else v for v in r) for r in rows_of(df)]
        vals = pick_values(rng, rows, f)
        if nan_cols and rng.random() < 0.3:
            vals.append(float("nan"))
        args = [list(vals), np.array(vals, dtype=float)]
        if len(vals) == 1:
            args += [vals[0], int(vals[0]) if vals[0] == int(vals[0]) else vals[0], np.float64(vals[0])]
        if vals and all(v == int(v) for v in vals if not np.isnan(v)) and not any(np.isnan(v) for v in vals):
            args.append([int(v) for v in vals])
        for arg in args:
            for ri in (True, False):
                for rd in (True, False):
                    if isinstance(arg, np.ndarray):
                        continue  # an ndarray argument is wrapped into a 2-D array by the function: not supported
                    m1, m2 = Motl(df.copy()), Motl(df.copy())
                    cur = m1.get_motl_subset(arg, feature_id=f, return_df=rd, reset_index=ri)
                    ori = orig_get_motl_subset(m2, arg, feature_id=f, return_df=rd, reset_index=ri)
                    check(type(cur) is type(ori), "get_motl_subset: return type")
                    frames_identical(cur if rd else cur.df, ori if rd else ori.df, f"get_motl_subset({arg!r}, {f}, reset_index={ri})")
                    frames_identical(m1.df, m2.df, "get_motl_subset: source table")
            m1, m2 = Motl(df.copy()), Motl(df.copy())
            keep1 = m1.df
            m1.remove_feature(f, arg)
            orig_remove_feature(m2, f, arg)
            frames_identical(m1.df, m2.df, f"remove_feature({f}, {arg!r})")
            frames_identical(keep1, df, "remove_feature: the previous table object was modified")
            # repeated calls on the same object
            m1.remove_feature(f, arg)
            orig_remove_feature(m2, f, arg)
            frames_identical(m1.df, m2.df, f"remove_feature twice ({f}, {arg!r})")
            other = str(rng.choice(KEYS))
            ov = pick_values(rng, rows_of(m1.df.fillna(0.0)), other)
            m1.remove_feature(other, ov)
            orig_remove_feature(m2, other, ov)
            frames_identical(m1.df, m2.df, "remove_feature chained")
        # split
        for sf in ("tomo_id", "object_id", "class", "geom1", "subtomo_id"):
            m1, m2 = Motl(df.copy()), Motl(df.copy())
            p1 = m1.split_by_feature(sf)
            p2 = orig_split_by_feature(m2, sf)
            check(len(p1) == len(p2), "split_by_feature: number of parts")
            for a, b in zip(p1, p2):
                check(type(a) is type(b) is Motl, "split_by_feature: type")
                frames_identical(a.df, b.df, f"split_by_feature({sf})")
            frames_identical(m1.df, m2.df, "split_by_feature: source table")
        if it % 10 == 0 and len(df) and not nan_cols:
            with tempfile.TemporaryDirectory() as d1, tempfile.TemporaryDirectory() as d2:
                m1, m2 = Motl(df.copy()), Motl(df.copy())
                p1 = m1.split_by_feature("tomo_id", write_out=True, output_prefix=os.path.join(d1, "part_"))
                p2 = orig_split_by_feature(m2, "tomo_id", write_out=True, output_prefix=os.path.join(d2, "part_"))
                n1, n2 = sorted(os.listdir(d1)), sorted(os.listdir(d2))
                check(n1 == n2 and len(n1) == len(p1) == len(p2), f"split_by_feature(write_out): files {n1} vs {n2}")
                for n in n1:
                    check(open(os.path.join(d1, n), "rb").read() == open(os.path.join(d2, n), "rb").read(), "split_by_feature(write_out): file content")
                for a, b in zip(p1, p2):
                    frames_identical(a.df, b.df, "split_by_feature(write_out)")
    # empty value list: the table object itself stays
    m = Motl(rand_df(rng, n=7))
    t = m.df
    m.remove_feature("tomo_id", [])
    check(m.df is t, "remove_feature([]) replaced the table")
    m.remove_feature("tomo_id", np.array([]))
    check(m.df is t, "remove_feature(empty array) replaced the table")
    frames_identical(m.get_motl_subset([], return_df=True), orig_get_motl_subset(m, [], return_df=True), "get_motl_subset([])")


def main():
    ok = True
    for seed, count in ((1, 150), (2, 150), (3, 100)):
        ok = run_histories(seed, count) and ok
    try:
        compare_with_original(11, 60)
    except Failure as e:
        print("FAIL", e)
        ok = False
    if ok:
        print("PASS")
        return 0
    print("FAIL")
    return 1


if __name__ == "__main__":
    sys.exit(main())
