"""Demo for property C10 (cyclic symmetry expansion places subunits on the symmetry orbit), change a.

Run as:  cd /tmp/wt11/C10 && /venv/bin/python /tmp/seedsU/C10/a/demo.py

1. checks the property against an independent computation (explicit rotation matrices, no scipy) for
   every n in 1..64 given as 'Cn', 'cn' and as a number, random and edge-case particle lists and offsets;
2. compares the tree's split_in_asymmetric_subunits with the ORIGINAL function text (kept below) on the same inputs,
   bit for bit (values, dtypes, index, column order), and checks that the input list and numpy's random state
   are left alone and that a repeated call returns the same table.
Prints PASS and exits 0 when everything holds.
"""
import sys, os

sys.path.insert(0, os.getcwd())
import copy
import io
import logging
import warnings

warnings.simplefilter("ignore")
import numpy as np
import pandas as pd

from cryocat import cryomotl
from cryocat.cryomotl import Motl

VARIANT = "a"

# ----------------------------------------------------------------------------------------------------------------
# the original functions (text of the unmodified tree), compiled in the namespace of cryocat.cryomotl
# ----------------------------------------------------------------------------------------------------------------
ORIG_SRC = r'''
def _orig_update_coordinates(self):
    # Python 0.5 rounding: round(1.5) = 2, BUT round(2.5) = 2, while in Matlab round(2.5) = 3
    def round_and_recenter(row):
        new_row = row.copy()
        shifted_x = row["x"] + row["shift_x"]
        shifted_y = row["y"] + row["shift_y"]
        shifted_z = row["z"] + row["shift_z"]
        new_row["x"] = float(decimal.Decimal(shifted_x).to_integral_value(rounding=decimal.ROUND_HALF_UP))
        new_row["y"] = float(decimal.Decimal(shifted_y).to_integral_value(rounding=decimal.ROUND_HALF_UP))
        new_row["z"] = float(decimal.Decimal(shifted_z).to_integral_value(rounding=decimal.ROUND_HALF_UP))
        new_row["shift_x"] = shifted_x - new_row["x"]
        new_row["shift_y"] = shifted_y - new_row["y"]
        new_row["shift_z"] = shifted_z - new_row["z"]
        return new_row

    self.df = self.df.apply(round_and_recenter, axis=1)
    warnings.warn("The coordinates for subtomogram extraction were changed, new extraction is necessary!")


def _orig_split_in_asymmetric_subunits(self, symmetry, xyz_shift):
    if isinstance(symmetry, str):
        nfold = int(re.findall(r"\d+", symmetry)[-1])
        if symmetry.lower().startswith("c"):
            s_type = 1  # c symmetry
        elif symmetry.lower().startswith("d"):
            s_type = 2  # d symmetry
        else:
            ValueError("Unknown symmetry - currently only c and are supported!")
    elif isinstance(symmetry, (int, float)):
        s_type = 1  # c symmetry
        nfold = symmetry
    else:
        ValueError(
            "The symmetry has to be specified as a string (starting with c or d) or as a number (float, int)!"
        )

    inplane_step = 360 / nfold

    if s_type == 1:
        n_subunits = nfold
        phi_angles = np.arange(n_subunits) * inplane_step
        new_angles = np.zeros((n_subunits, 3))
        new_angles[:, 0] = phi_angles
    elif s_type == 2:
        n_subunits = nfold * 2
        in_plane_offset = int(inplane_step / 2)
        new_angles = np.zeros((n_subunits, 3))
        new_angles[0::2, 0] = np.arange(0, 360, int(inplane_step))
        new_angles[1::2, 0] = np.arange(0 + in_plane_offset, 360 + in_plane_offset, int(inplane_step))
        new_angles[1::2, 1] = 180

        phi_angles = new_angles[:, 0].copy()

    phi_angles = phi_angles.reshape(
        n_subunits,
    )

    # make up vectors
    starting_vector = np.array(xyz_shift)
    rho = np.sqrt(starting_vector[0] ** 2 + starting_vector[1] ** 2)
    the = np.arctan2(starting_vector[1], starting_vector[0])

    rot_rho = np.full((n_subunits,), rho)
    rep_the = np.full((n_subunits,), the) + np.deg2rad(phi_angles)
    rep_z = np.full((n_subunits,), starting_vector[2])

    if s_type == 2:
        rep_z[1::2] *= -1

    center_shift = np.zeros([rot_rho.shape[0], 3])
    center_shift[:, 0] = rot_rho * np.cos(rep_the)
    center_shift[:, 1] = rot_rho * np.sin(rep_the)
    center_shift[:, 2] = rep_z

    new_motl_df = pd.concat([self.df] * n_subunits)

    new_motl_df["geom5"] = new_motl_df["subtomo_id"]
    new_motl_df = new_motl_df.sort_values(by="subtomo_id")
    new_motl_df["geom2"] = np.tile(np.arange(1, n_subunits + 1).reshape(n_subunits, 1), (len(self.df), 1))

    euler_angles = new_motl_df[["phi", "theta", "psi"]]
    rotations = rot.from_euler(seq="zxz", angles=euler_angles, degrees=True)
    center_shift = np.tile(center_shift, (len(self.df), 1))
    new_angles = np.tile(new_angles, (len(self.df), 1))
    new_motl_df.loc[:, ["shift_x", "shift_y", "shift_z"]] = new_motl_df.loc[
        :, ["shift_x", "shift_y", "shift_z"]
    ] + rotations.apply(center_shift)

    new_rotations = rotations * rot.from_euler(seq="zxz", angles=new_angles, degrees=True)
    new_motl_df.loc[:, ["phi", "theta", "psi"]] = new_rotations.as_euler(seq="zxz", degrees=True)

    new_motl_df["subtomo_id"] = np.arange(1, len(new_motl_df) + 1)
    new_motl = Motl(new_motl_df)
    _orig_update_coordinates(new_motl)
    new_motl.df.reset_index(inplace=True, drop=True)
    return new_motl
'''
_ns = dict(vars(cryomotl))
exec(compile(ORIG_SRC, "<original>", "exec"), _ns)
orig_split = _ns["_orig_split_in_asymmetric_subunits"]


# ----------------------------------------------------------------------------------------------------------------
# independent reference: explicit matrices. Orientation of a particle: extrinsic zxz(phi, theta, psi), i.e.
# first phi about z, then theta about x, then psi about z (fixed axes)  ->  R = Rz(psi) Rx(theta) Rz(phi)
# ----------------------------------------------------------------------------------------------------------------
def Rz(deg):
    a = np.deg2rad(deg)
    c, s = np.cos(a), np.sin(a)
    return np.array([[c, -s, 0.0], [s, c, 0.0], [0.0, 0.0, 1.0]])


def Rx(deg):
    a = np.deg2rad(deg)
    c, s = np.cos(a), np.sin(a)
    return np.array([[1.0, 0.0, 0.0], [0.0, c, -s], [0.0, s, c]])


def Rmat(phi, theta, psi):
    return Rz(psi) @ Rx(theta) @ Rz(phi)


PASSIVE = ["score", "geom1", "tomo_id", "object_id", "subtomo_mean", "geom3", "geom4", "class"]
n_checked = 0


def check_property(in_df, n, s, out):
    """in_df: the parent table (as given), n: order, s: offset (3 numbers), out: Motl returned by the split."""
    global n_checked
    s = np.asarray(s, dtype=float)
    assert type(out) is Motl
    o = out.df
    N = len(in_df)
    assert sorted(o.columns) == sorted(Motl.motl_columns)
    assert len(o) == n * N, f"{len(o)} rows instead of {n}*{N}"
    assert list(o.index) == list(range(n * N))
    parents = in_df.sort_values("subtomo_id", kind="stable").reset_index(drop=True)
    # unique subtomogram numbers
    assert o["subtomo_id"].nunique() == len(o)
    for i in range(N):
        p = parents.iloc[i]
        centre = np.array([p["x"] + p["shift_x"], p["y"] + p["shift_y"], p["z"] + p["shift_z"]], dtype=float)
        R = Rmat(float(p["phi"]), float(p["theta"]), float(p["psi"]))
        for k in range(n):
            r = o.iloc[i * n + k]
            assert r["geom5"] == p["subtomo_id"], "parent not recorded in geom5"
            assert r["geom2"] == k + 1, "subunit index not recorded in geom2"
            for c in PASSIVE:
                a, b = r[c], p[c]
                assert (a == b) or (pd.isna(a) and pd.isna(b)), f"field {c} not carried over"
            Rk = R @ Rz(360.0 * k / n)
            Rout = Rmat(float(r["phi"]), float(r["theta"]), float(r["psi"]))
            assert np.allclose(Rout, Rk, atol=1e-9, rtol=0), f"orientation of subunit {k} of {n} wrong"
            # the subunits are related by rotations about the parent's own z axis
            rel = R.T @ Rout
            assert np.allclose(rel[2], [0, 0, 1], atol=1e-9) and np.allclose(rel[:, 2], [0, 0, 1], atol=1e-9)
            pos = np.array([r["x"] + r["shift_x"], r["y"] + r["shift_y"], r["z"] + r["shift_z"]], dtype=float)
            expect = centre + Rk @ s
            tol = 1e-9 * (1.0 + np.abs(expect).max() + np.abs(centre).max() + np.abs(s).max())
            assert np.allclose(pos, expect, atol=tol, rtol=0), f"position of subunit {k} of {n}: {pos} != {expect}"
            # maps back to the parent's centre
            assert np.allclose(pos - Rout @ s, centre, atol=10 * tol, rtol=0)
            for c in ("x", "y", "z"):
                assert float(r[c]) == np.floor(float(r[c])), f"{c} not integer"
            for c in ("shift_x", "shift_y", "shift_z"):
                assert abs(float(r[c])) <= 0.5, f"|{c}| > 0.5"
            n_checked += 1


def same_frames(a, b, what):
    assert list(a.columns) == list(b.columns), f"{what}: column order differs"
    assert a.index.equals(b.index) and a.index.dtype == b.index.dtype, f"{what}: index differs"
    assert (a.dtypes == b.dtypes).all(), f"{what}: dtypes differ"
    pd.testing.assert_frame_equal(a, b, check_exact=True, obj=what)
    av, bv = a.to_numpy(dtype=float), b.to_numpy(dtype=float)
    assert np.array_equal(av, bv, equal_nan=True), f"{what}: values differ"
    # also the sign of zeros
    assert np.array_equal(np.signbit(av), np.signbit(bv)), f"{what}: signed zeros differ"


def random_state_fingerprint():
    st = np.random.get_state()
    return (st[0], st[1].tobytes(), st[2], st[3], st[4])


def run_case(df, sym, n, s, check=True):
    """Runs the tree's function and the original on equal copies; checks the property on both and that they agree."""
    m_new = Motl(df.copy())
    m_old = Motl(df.copy())
    before = df.copy()
    s_before = copy.deepcopy(s)
    rs = random_state_fingerprint()
    out_new = m_new.split_in_asymmetric_subunits(sym, s)
    assert random_state_fingerprint() == rs, "numpy random state touched"
    out_old = orig_split(m_old, sym, s)
    # inputs untouched
    same_frames(m_new.df, before, "input list after the call")
    same_frames(m_old.df, before, "input list after the original call")
    assert np.array_equal(np.asarray(s, dtype=float), np.asarray(s_before, dtype=float), equal_nan=True)
    assert type(s) is type(s_before)
    same_frames(out_new.df, out_old.df, f"tree vs original, sym={sym!r}, s={s!r}")
    if check:
        check_property(df, n, s, out_new)
        check_property(df, n, s, out_old)
    # repeated call on the same object
    again = m_new.split_in_asymmetric_subunits(sym, s)
    same_frames(again.df, out_new.df, "second call on the same object")
    assert again.df is not out_new.df and out_new.df is not m_new.df
    return out_new


# ----------------------------------------------------------------------------------------------------------------
# inputs
# ----------------------------------------------------------------------------------------------------------------
def make_list(rng, N, mode="random"):
    df = pd.DataFrame(np.zeros((N, 20)), columns=Motl.motl_columns)
    df["subtomo_id"] = np.arange(1, N + 1, dtype=float)
    df["tomo_id"] = rng.integers(1, 5, N).astype(float)
    df["object_id"] = rng.integers(1, 9, N).astype(float)
    df["score"] = rng.uniform(-1, 1, N)
    df["geom1"] = rng.integers(0, 3, N).astype(float)
    df["geom2"] = rng.integers(0, 50, N).astype(float)  # overwritten by the split
    df["geom3"] = rng.normal(size=N)
    df["geom4"] = rng.integers(-3, 3, N).astype(float)
    df["geom5"] = rng.integers(0, 50, N).astype(float)  # overwritten by the split
    df["subtomo_mean"] = rng.normal(size=N)
    df["class"] = rng.integers(1, 4, N).astype(float)
    df[["x", "y", "z"]] = rng.integers(-300, 1000, (N, 3)).astype(float)
    df[["shift_x", "shift_y", "shift_z"]] = rng.uniform(-3, 3, (N, 3))
    df["phi"] = rng.uniform(-180, 180, N)
    df["theta"] = rng.uniform(0, 180, N)
    df["psi"] = rng.uniform(-180, 180, N)
    if mode == "poles":
        df["theta"] = rng.choice([0.0, 180.0, 90.0, 1e-4, 180.0 - 1e-4], N)  # exact poles and just off them
        df["phi"] = rng.choice([0.0, 90.0, -180.0, 180.0, 360.0, -90.0, 37.5], N)
        df["psi"] = rng.choice([0.0, 90.0, -180.0, 180.0, 360.0, -45.0], N)
    elif mode == "identity":
        df[["phi", "theta", "psi"]] = 0.0
    elif mode == "thresholds":
        # identity orientation, centre exactly on half-integers / integers / zeros, negative too
        df[["phi", "theta", "psi"]] = 0.0
        df[["x", "y", "z"]] = rng.integers(-5, 6, (N, 3)).astype(float)
        df[["shift_x", "shift_y", "shift_z"]] = rng.choice([0.0, 0.5, -0.5, 1.5, -1.5, 2.5, -2.5, 0.25, -0.0], (N, 3))
    elif mode == "zeros":
        df[["x", "y", "z", "shift_x", "shift_y", "shift_z", "phi", "theta", "psi"]] = 0.0
    elif mode == "nan_holes":
        for c in ["score", "geom1", "geom3", "geom4", "subtomo_mean", "class", "object_id"]:
            df.loc[rng.random(N) < 0.4, c] = np.nan
    elif mode == "ints":
        # integer element types wherever the values are whole numbers
        for c in ["x", "y", "z", "tomo_id", "object_id", "subtomo_id", "class", "geom1", "geom2", "geom4", "geom5"]:
            df[c] = df[c].astype(np.int64)
    elif mode == "float32":
        df = df.astype({c: np.float32 for c in ["score", "geom3", "subtomo_mean"]})
    elif mode == "unsorted_ids":
        df["subtomo_id"] = rng.permutation(np.arange(1, 4 * N + 1))[:N].astype(float) * 3.0
    elif mode == "shuffled_columns":
        df = df[list(rng.permutation(Motl.motl_columns))]
    return df


def with_index(rng, df, kind):
    df = df.copy()
    N = len(df)
    if kind == "shuffled":
        df.index = rng.permutation(N) + 10
    elif kind == "duplicated":
        df.index = np.full(N, 7)
    elif kind == "strings":
        df.index = [f"p{i}" for i in range(N)]
    elif kind == "filtered":  # what is left after a boolean filter of a longer list
        df.index = np.sort(rng.choice(np.arange(5 * N + 5), N, replace=False))
    elif kind == "float":
        df.index = np.arange(N) * 0.5 - 1.0
    return df


def offsets(rng):
    return [
        np.array([10.0, 0.0, 0.0]),
        np.array([10, 0, 0]),  # integer array (the form the tests use)
        [3.0, 4.0, 5.0],  # list
        (-2.5, 7.25, -11.0),  # tuple, negative
        np.array([0.0, 0.0, 6.0]),  # on the axis
        np.array([0.0, 0.0, -6.0]),
        np.zeros(3),  # no offset at all
        [0, 0, 0],
        np.array([0.0, -8.0, 0.0]),
        np.array([-8.0, 0.0, 1e-3]),
        rng.uniform(-40, 40, 3),
        rng.normal(size=3) * 1e-6,
        rng.integers(-30, 30, 3),
    ]


def main():
    rng = np.random.default_rng(20260928)
    np.random.seed(12345)

    # --- 1. exhaustive over n = 1..64 and the three ways of giving it, small random lists ---------------------
    offs = offsets(rng)
    modes = ["random", "poles", "thresholds", "nan_holes", "ints", "unsorted_ids", "identity", "zeros",
             "shuffled_columns", "float32"]
    idx_kinds = ["default", "shuffled", "duplicated", "strings", "filtered", "float"]
    j = 0
    for n in range(1, 65):
        for sym in (f"C{n}", f"c{n}", n):
            N = int(rng.integers(1, 5)) if n > 8 else int(rng.integers(1, 8))
            df = with_index(rng, make_list(rng, N, modes[j % len(modes)]), idx_kinds[(j // 3) % len(idx_kinds)])
            s = offs[j % len(offs)]
            run_case(df, sym, n, s)
            j += 1

    # --- 2. every mode x every index kind x several offsets for a few orders (divisors of 360 and not) --------
    for mode in modes:
        for kind in idx_kinds:
            n = int(rng.choice([1, 2, 3, 7, 11, 13, 14, 16, 17, 64]))
            N = int(rng.integers(1, 6))
            df = with_index(rng, make_list(rng, N, mode), kind)
            s = offs[int(rng.integers(len(offs)))]
            run_case(df, rng.choice([f"C{n}", f"c{n}"]).item(), n, s)
            run_case(df, n, n, s)

    # --- 3. single-row lists, all offsets, orders 1, 2, 7, 13 -----------------------------------------------
    for s in offsets(rng):
        for n in (1, 2, 7, 13):
            for mode in ("random", "poles", "thresholds"):
                run_case(make_list(rng, 1, mode), n, n, s)

    # --- 4. long lists: 100 particles; n = 64 once, n = 7 and 1 with other index kinds --------------------------
    run_case(make_list(rng, 100, "random"), "C64", 64, rng.uniform(-20, 20, 3))
    run_case(with_index(rng, make_list(rng, 100, "poles"), "shuffled"), 7, 7, [5.0, -5.0, 2.0])
    run_case(with_index(rng, make_list(rng, 100, "unsorted_ids"), "filtered"), "c1", 1, (1.0, 2.0, 3.0))

    # --- 5. other spellings of a cyclic symmetry that the parser accepts (last group of digits = order) ---------
    df = make_list(rng, 3, "random")
    for sym, n in (("C07", 7), ("c 12", 12), ("Cyclic5", 5), ("C3.5", 5)):
        run_case(df, sym, n, [4.0, 1.0, -2.0])

    # --- 6. an empty list stays empty (not in the quantifier; just tree == original) --------------------------
    empty = make_list(rng, 0)
    out = run_case(empty, "C5", 5, [1.0, 2.0, 3.0], check=False)
    assert out.df.shape == (0, 20)

    # --- 7. dihedral symmetry is outside the property, but must not change either: tree == original -----------
    df = make_list(rng, 4, "random")
    for sym in ("D2", "d3", "D4", "d6", "D12"):
        run_case(df, sym, None, np.array([6.0, 2.0, 3.0]), check=False)
    for sym in ("D7", "d11"):  # raises in the original (arange with truncated step); must still raise
        for f in (lambda: Motl(df.copy()).split_in_asymmetric_subunits(sym, [1.0, 2.0, 3.0]),
                  lambda: orig_split(Motl(df.copy()), sym, [1.0, 2.0, 3.0])):
            try:
                f()
            except Exception:
                pass
            else:
                raise AssertionError(f"{sym} did not raise")

    variant_specific(rng)

    print(f"subunits checked against the independent computation: {n_checked}")
    print("PASS")


# ----------------------------------------------------------------------------------------------------------------
# checks that belong to this particular change
# ----------------------------------------------------------------------------------------------------------------
def variant_specific(rng):
    # the helper introduced by the clean-up (present only in the patched tree) returns the very floats of the fix
    helper = getattr(Motl, "_cyclic_inplane_angles", None)
    print("helper Motl._cyclic_inplane_angles present:", helper is not None)
    for n in range(1, 129):
        want = np.arange(n) * (360 / n)  # the expression of fix 50074cf
        assert want.shape == (n,) and want[0] == 0 and (want < 360).all()
        assert np.allclose(want, [360.0 * k / n for k in range(n)], atol=1e-12, rtol=0)
        if helper is not None:
            got = helper(n)
            assert got.dtype == want.dtype and got.shape == want.shape and np.array_equal(got, want)
    # a numeric order that cannot work raised before and raises now (same exception class as the original)
    df = make_list(rng, 2, "random")
    for sym in (3.0, 0, -2, True):
        excs = []
        for f in (lambda: Motl(df.copy()).split_in_asymmetric_subunits(sym, [1.0, 2.0, 3.0]),
                  lambda: orig_split(Motl(df.copy()), sym, [1.0, 2.0, 3.0])):
            try:
                f()
                excs.append(None)
            except Exception as e:
                excs.append(type(e))
        assert excs[0] is excs[1] and excs[0] is not None, (sym, excs)


if __name__ == "__main__":
    main()
