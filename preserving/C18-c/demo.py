import os
import sys

sys.path.insert(0, os.getcwd())

import warnings

warnings.filterwarnings("ignore")

import numpy as np
import pandas as pd
from scipy.spatial.transform import Rotation as srot

import cryocat
from cryocat import cryomotl, nnana, geom

assert os.path.abspath(cryocat.__file__).startswith(os.path.abspath(os.getcwd())), cryocat.__file__

FAILS = []


def check(cond, msg):
    if not cond:
        FAILS.append(msg)
        if len(FAILS) < 15:
            print("FAIL:", msg)


# ----------------------------------------------------------------------------------------------------------------
# independent reference (plain matrices, no KD tree, no scipy Rotation)
# ----------------------------------------------------------------------------------------------------------------
def rz(a):
    c, s = np.cos(np.radians(a)), np.sin(np.radians(a))
    return np.array([[c, -s, 0.0], [s, c, 0.0], [0.0, 0.0, 1.0]])


def rx(a):
    c, s = np.cos(np.radians(a)), np.sin(np.radians(a))
    return np.array([[1.0, 0.0, 0.0], [0.0, c, -s], [0.0, s, c]])


def mat_zxz(phi, theta, psi):
    # extrinsic zxz(phi, theta, psi): first phi about z, then theta about x, then psi about z
    return rz(psi) @ rx(theta) @ rz(phi)


def rot_angle_deg(m):
    # robust rotation angle of a rotation matrix
    s = np.linalg.norm([m[2, 1] - m[1, 2], m[0, 2] - m[2, 0], m[1, 0] - m[0, 1]]) / 2.0
    c = (np.trace(m) - 1.0) / 2.0
    return np.degrees(np.arctan2(s, c))


def brute_force(df_a, df_nn, k, px):
    """Expected table rows: tomogram ascending -> neighbour rank -> query particle (in list order)."""
    rows = []
    tomos = sorted(set(df_a["tomo_id"].unique()) & set(df_nn["tomo_id"].unique()))
    for t in tomos:
        a = df_a[df_a["tomo_id"].values == t]
        b = df_nn[df_nn["tomo_id"].values == t]
        pa = a[["x", "y", "z"]].to_numpy() + a[["shift_x", "shift_y", "shift_z"]].to_numpy()
        pb = b[["x", "y", "z"]].to_numpy() + b[["shift_x", "shift_y", "shift_z"]].to_numpy()
        ra = [mat_zxz(*r) for r in a[["phi", "theta", "psi"]].to_numpy()]
        rb = [mat_zxz(*r) for r in b[["phi", "theta", "psi"]].to_numpy()]
        sa = a["subtomo_id"].to_numpy()
        sb = b["subtomo_id"].to_numpy()
        kk = min(k, len(b))
        per_rank = [[] for _ in range(kk)]
        for i in range(len(a)):
            d = np.sqrt(((pb - pa[i]) ** 2).sum(axis=1))
            order = np.argsort(d, kind="stable")[:kk]
            for rank, j in enumerate(order):
                off = (pb[j] - pa[i]) * px
                rel = ra[i].T @ rb[j]
                per_rank[rank].append(
                    dict(
                        distance=d[j] * px,
                        off=off,
                        off_r=ra[i].T @ off,
                        ang=rot_angle_deg(rel),
                        rel=rel,
                        sa=sa[i],
                        sb=sb[j],
                        gap=(np.diff(np.sort(d)[: kk + 1]).min() if len(d) > 1 else 1.0),
                    )
                )
        for rank in range(kk):
            rows.extend(per_rank[rank])
    return rows


# ----------------------------------------------------------------------------------------------------------------
# input generation
# ----------------------------------------------------------------------------------------------------------------
def make_df(rng, n, tomo_ids, index_kind, box=200.0, negative=False):
    df = cryomotl.Motl.create_empty_motl_df()
    data = {c: np.zeros(n) for c in df.columns}
    lo = -box if negative else 0.0
    for c in ("x", "y", "z"):
        data[c] = np.round(rng.uniform(lo, box, n))  # integer-valued positions ...
    for c in ("shift_x", "shift_y", "shift_z"):
        data[c] = rng.uniform(-3.0, 3.0, n)  # ... plus non-zero real-valued shifts (no ties)
    data["phi"] = rng.uniform(-180, 180, n)
    data["theta"] = rng.uniform(0, 180, n)
    data["psi"] = rng.uniform(-180, 180, n)
    data["tomo_id"] = rng.choice(tomo_ids, n).astype(float)
    data["tomo_id"][: min(n, len(tomo_ids))] = tomo_ids[: min(n, len(tomo_ids))]
    data["subtomo_id"] = rng.permutation(np.arange(1, n + 1) * 3 + 1000).astype(float)
    data["score"] = rng.uniform(0, 1, n)
    data["class"] = rng.integers(1, 4, n).astype(float)
    df = pd.DataFrame(data, columns=df.columns)
    if index_kind == 1:
        df.index = rng.permutation(np.arange(100, 100 + n))
    elif index_kind == 2:
        df.index = np.arange(n)[::-1] * 7
    return df


def move_rigidly(rng, df, motions):
    """Rotate all positions and orientations of every tomogram by its own Q and translate by its own t."""
    out = df.copy()
    for t, (Q, tr) in motions.items():
        sel = out["tomo_id"].values == t
        if not sel.any():
            continue
        p = out.loc[sel, ["x", "y", "z"]].to_numpy() + out.loc[sel, ["shift_x", "shift_y", "shift_z"]].to_numpy()
        p2 = p @ Q.T + tr
        new_shift = rng.uniform(-2.0, 2.0, p2.shape)
        out.loc[sel, ["x", "y", "z"]] = p2 - new_shift
        out.loc[sel, ["shift_x", "shift_y", "shift_z"]] = new_shift
        ang = out.loc[sel, ["phi", "theta", "psi"]].to_numpy()
        new_ang = []
        for r in ang:
            m = Q @ mat_zxz(*r)
            new_ang.append(srot.from_matrix(m).as_euler("zxz", degrees=True))
        out.loc[sel, ["phi", "theta", "psi"]] = np.array(new_ang)
    return out


def random_rotation_matrix(rng):
    q = rng.normal(size=4)
    q /= np.linalg.norm(q)
    w, x, y, z = q
    return np.array(
        [
            [1 - 2 * (y * y + z * z), 2 * (x * y - z * w), 2 * (x * z + y * w)],
            [2 * (x * y + z * w), 1 - 2 * (x * x + z * z), 2 * (y * z - x * w)],
            [2 * (x * z - y * w), 2 * (y * z + x * w), 1 - 2 * (x * x + y * y)],
        ]
    )


COLS = [
    "distance", "coord_x", "coord_y", "coord_z", "coord_rx", "coord_ry", "coord_rz", "angular_distance",
    "rot_x", "rot_y", "rot_z", "phi", "theta", "psi", "subtomo_idx", "subtomo_nn_idx", "type",
]


def check_table(tag, tab, exp, k):
    check(list(tab.columns) == COLS, f"{tag}: columns {list(tab.columns)}")
    check(len(tab) == len(exp), f"{tag}: {len(tab)} rows, expected {len(exp)}")
    if len(tab) != len(exp):
        return
    check((tab["type"] == "nn").all(), f"{tag}: type column")
    scale = 1.0 + max(abs(e["off"]).max() for e in exp)
    tol = 1e-9 * scale
    for r, e in zip(tab.to_dict("records"), exp):
        if e["gap"] < 1e-7:
            continue  # distance tie: excluded by the quantifier
        ok = (
            abs(r["distance"] - e["distance"]) <= tol
            and r["subtomo_idx"] == e["sa"]
            and r["subtomo_nn_idx"] == e["sb"]
            and np.allclose([r["coord_x"], r["coord_y"], r["coord_z"]], e["off"], atol=tol, rtol=0)
            and np.allclose([r["coord_rx"], r["coord_ry"], r["coord_rz"]], e["off_r"], atol=tol, rtol=0)
            and abs(r["angular_distance"] - e["ang"]) <= 1e-4
            and np.allclose([r["rot_x"], r["rot_y"], r["rot_z"]], e["rel"][:, 2], atol=1e-9, rtol=0)
            and np.allclose(mat_zxz(r["phi"], r["theta"], r["psi"]), e["rel"], atol=1e-7, rtol=0)
        )
        check(ok, f"{tag}: row differs from brute force: got {r}, expected {e}")
        if not ok:
            return


def check_invariance(tag, tab, tab2):
    check(len(tab) == len(tab2), f"{tag}: moved table has {len(tab2)} rows, not {len(tab)}")
    if len(tab) != len(tab2):
        return
    scale = 1.0 + float(np.abs(tab[["coord_x", "coord_y", "coord_z"]].to_numpy()).max())
    for c in ("distance", "coord_rx", "coord_ry", "coord_rz"):
        check(np.allclose(tab[c], tab2[c], atol=1e-8 * scale, rtol=0), f"{tag}: {c} changed by rigid motion")
    check(np.allclose(tab["angular_distance"], tab2["angular_distance"], atol=1e-4, rtol=0), f"{tag}: angular distance changed")
    for c in ("rot_x", "rot_y", "rot_z"):
        check(np.allclose(tab[c], tab2[c], atol=1e-8, rtol=0), f"{tag}: {c} changed by rigid motion")
    m1 = np.array([mat_zxz(*r) for r in tab[["phi", "theta", "psi"]].to_numpy()])
    m2 = np.array([mat_zxz(*r) for r in tab2[["phi", "theta", "psi"]].to_numpy()])
    check(np.allclose(m1, m2, atol=1e-7, rtol=0), f"{tag}: relative orientation changed by rigid motion")
    for c in ("subtomo_idx", "subtomo_nn_idx"):
        check((tab[c].to_numpy() == tab2[c].to_numpy()).all(), f"{tag}: {c} changed by rigid motion")


def scenarios(seed=0, n_random=40):
    """Yield (tag, df_a, df_nn, k, pixel_size)."""
    rng = np.random.default_rng(seed)
    for it in range(n_random):
        n_t = int(rng.integers(1, 5))
        tomos_all = np.sort(rng.choice(np.arange(1, 40), n_t + 2, replace=False)).astype(float)
        common = tomos_all[:n_t]
        tomos_a = common if it % 3 else np.append(common, tomos_all[n_t])  # partly disjoint tomogram sets
        tomos_b = common if it % 4 else np.append(common, tomos_all[n_t + 1])
        n_a = int(rng.integers(1, 201)) if it % 5 else int(rng.integers(1, 6))
        n_b = int(rng.integers(1, 201)) if it % 7 else int(rng.integers(1, 6))
        df_a = make_df(rng, n_a, tomos_a, it % 3, negative=bool(it % 2))
        df_b = make_df(rng, n_b, tomos_b, (it + 1) % 3, negative=bool(it % 2))
        k = int(rng.integers(1, 6))
        px = float(rng.choice([1.0, 0.5, 2.17, 13.48, 1e-3]))
        yield f"random{it}", df_a, df_b, k, px
    # coincident lists (the same particles on both sides; the closest neighbour is the particle itself)
    for it in range(6):
        df = make_df(rng, int(rng.integers(2, 120)), np.array([3.0, 5.0, 11.0])[: it % 3 + 1], it % 3)
        yield f"coincident{it}", df, df.copy(), it % 5 + 1, [1.0, 2.5, 0.73][it % 3]
    # single particle lists, k larger than the second list
    df1 = make_df(rng, 1, np.array([2.0]), 0)
    df2 = make_df(rng, 1, np.array([2.0]), 1)
    yield "single", df1, df2, 1, 1.0
    yield "single_k5", df1, df2, 5, 3.3
    df3 = make_df(rng, 50, np.array([2.0, 4.0]), 2)
    yield "one_vs_many", df1, df3, 4, 1.7
    yield "many_vs_one", df3, df2, 3, 0.4


def run_property(get_nn_stats, seed=0, n_random=40):
    rng = np.random.default_rng(1000 + seed)
    n = 0
    for tag, df_a, df_b, k, px in scenarios(seed, n_random):
        a0, b0 = df_a.copy(), df_b.copy()
        m_a, m_b = cryomotl.Motl(motl_df=df_a.copy()), cryomotl.Motl(motl_df=df_b.copy())
        tab = get_nn_stats(m_a, m_b, pixel_size=px, nn_number=k)
        exp = brute_force(m_a.df, m_b.df, k, px)
        check_table(tag, tab, exp, k)
        # neighbours come in ascending order of distance for each particle
        if len(tab) == len(exp) and len(exp):
            d = {}
            for r in tab.to_dict("records"):
                d.setdefault((r["subtomo_idx"]), []).append(r["distance"])
            check(all(np.all(np.diff(v) >= 0) for v in d.values()), f"{tag}: neighbours not in ascending order")
        # repeated call on the same objects gives the same table, inputs untouched
        tab_again = get_nn_stats(m_a, m_b, pixel_size=px, nn_number=k)
        check(tab.equals(tab_again), f"{tag}: repeated call differs")
        check(m_a.df.reset_index(drop=True).equals(cryomotl.Motl(motl_df=a0).df.reset_index(drop=True)), f"{tag}: first list modified")
        check(m_b.df.reset_index(drop=True).equals(cryomotl.Motl(motl_df=b0).df.reset_index(drop=True)), f"{tag}: second list modified")
        # rigid motion, one per tomogram
        tomos = set(df_a["tomo_id"]) | set(df_b["tomo_id"])
        motions = {t: (random_rotation_matrix(rng), rng.uniform(-500, 500, 3)) for t in tomos}
        if tag.startswith("coincident"):
            moved_a = move_rigidly(rng, m_a.df, motions)
            moved_b = moved_a.copy()
        else:
            moved_a = move_rigidly(rng, m_a.df, motions)
            moved_b = move_rigidly(rng, m_b.df, motions)
        tab2 = get_nn_stats(cryomotl.Motl(motl_df=moved_a), cryomotl.Motl(motl_df=moved_b), pixel_size=px, nn_number=k)
        check_invariance(tag, tab, tab2)
        # other rotation measures keep the rest of the table
        if n % 9 == 0:
            for rt in ("cone_distance", "in_plane_distance"):
                tab3 = get_nn_stats(m_a, m_b, pixel_size=px, nn_number=k, rotation_type=rt)
                keep = [c for c in COLS if c != "angular_distance"]
                check(tab3[keep].equals(tab[keep]), f"{tag}: rotation_type={rt} changes other columns")
        n += 1
    return n


def same_tables(t1, t2):
    if list(t1.columns) != list(t2.columns) or len(t1) != len(t2):
        return False
    if not (t1.dtypes == t2.dtypes).all():
        return False
    return t1.equals(t2)


# ----------------------------------------------------------------------------------------------------------------
# original text of the refactored functions (kept for a direct old-vs-current comparison); executed in a copy of the
# namespace of cryocat.geom so that the original compare_rotations calls the original helpers
# ----------------------------------------------------------------------------------------------------------------
ORIGINAL = '''
def compare_rotations(angles1, angles2, c_symmetry=1, rotation_type="all"):
    dist_degrees = angular_distance(angles1, angles2, c_symmetry=c_symmetry)[0]
    dist_degrees_normals, dist_degrees_inplane = cone_inplane_distance(angles1, angles2, c_symmetry=c_symmetry)

    if rotation_type == "all":
        return dist_degrees, dist_degrees_normals, dist_degrees_inplane
    elif rotation_type == "angular_distance":
        return dist_degrees
    elif rotation_type == "cone_distance":
        return dist_degrees_normals
    elif rotation_type == "in_plane_distance":
        return dist_degrees_inplane
    else:
        raise UserInputError(f"The rotation type {rotation_type} is not supported.")


def cone_distance(input_rot1, input_rot2):
    point = [0, 0, 1.0]

    vec1 = np.array(input_rot1.apply(point), ndmin=2)
    vec2 = np.array(input_rot2.apply(point), ndmin=2)

    vec1_n = np.linalg.norm(vec1, axis=1)
    vec1 = vec1 / vec1_n[:, np.newaxis]
    vec2_n = np.linalg.norm(vec2, axis=1)
    vec2 = vec2 / vec2_n[:, np.newaxis]
    cone_angle = np.degrees(np.arccos(np.maximum(np.minimum(np.sum(vec1 * vec2, axis=1), 1.0), -1.0)))

    return cone_angle


def cone_inplane_distance(input_rot1, input_rot2, convention="zxz", degrees=True, c_symmetry=1):
    if isinstance(input_rot1, np.ndarray):
        rot1 = srot.from_euler(convention, input_rot1, degrees=degrees)
    else:
        rot1 = input_rot1

    if isinstance(input_rot2, np.ndarray):
        rot2 = srot.from_euler(convention, input_rot2, degrees=degrees)
    else:
        rot2 = input_rot2

    cone_angle = cone_distance(rot1, rot2)
    inplane_angle = inplane_distance(rot1, rot2, convention, degrees, c_symmetry)

    return cone_angle, inplane_angle


def angular_distance(input_rot1, input_rot2, convention="zxz", degrees=True, c_symmetry=1):
    if isinstance(input_rot1, np.ndarray):
        rot1 = srot.from_euler(convention, input_rot1, degrees=degrees)
    else:
        rot1 = input_rot1

    if isinstance(input_rot2, np.ndarray):
        rot2 = srot.from_euler(convention, input_rot2, degrees=degrees)
    else:
        rot2 = input_rot2

    if c_symmetry > 1:
        angles1 = rot1.as_euler(convention, degrees=degrees)
        angles2 = rot2.as_euler(convention, degrees=degrees)
        sym_div = 360.0 / c_symmetry
        angles1[:, 0] = np.mod(angles1[:, 0], sym_div)
        angles2[:, 0] = np.mod(angles2[:, 0], sym_div)
        rot1 = srot.from_euler(convention, angles1, degrees=degrees)
        rot2 = srot.from_euler(convention, angles2, degrees=degrees)

    q1 = np.array(rot1.as_quat(), ndmin=2)
    q2 = np.array(rot2.as_quat(), ndmin=2)

    if q1.shape != q2.shape:
        print("The size of input rotations differ!!!")
        return

    angle = np.degrees(2 * np.arccos(np.clip(np.abs(np.sum(q1 * q2, axis=1)), 0.0, 1.0)))
    angle = angle.astype(float)

    dist = 1 - np.power(np.sum(q1 * q2, 1), 2)

    dist[dist < 10e-8] = 0

    return angle, dist
'''
ns = dict(vars(geom))
exec(ORIGINAL, ns)
NAMES = ("compare_rotations", "cone_distance", "cone_inplane_distance", "angular_distance")
orig = {name: ns[name] for name in NAMES}
assert all(orig[name] is not getattr(geom, name) for name in NAMES)


def call(fn, *args, **kwargs):
    try:
        return fn(*args, **kwargs)
    except Exception as e:  # compared by type
        return e


def identical(x, y):
    if isinstance(x, Exception) or isinstance(y, Exception):
        return type(x) is type(y)
    if isinstance(x, tuple) or isinstance(y, tuple):
        return isinstance(x, tuple) and isinstance(y, tuple) and len(x) == len(y) and all(identical(a, b) for a, b in zip(x, y))
    if x is None or y is None:
        return x is None and y is None
    x, y = np.asarray(x), np.asarray(y)
    return x.shape == y.shape and x.dtype == y.dtype and np.array_equal(x, y, equal_nan=True)


def rotation_inputs(rng):
    for n in (1, 2, 3, 7, 50, 200):
        a1 = np.column_stack((rng.uniform(-180, 180, n), rng.uniform(0, 180, n), rng.uniform(-180, 180, n)))
        a2 = np.column_stack((rng.uniform(-180, 180, n), rng.uniform(0, 180, n), rng.uniform(-180, 180, n)))
        yield f"random{n}", a1, a2
        yield f"same{n}", a1, a1.copy()
        yield f"close{n}", a1, a1 + rng.uniform(-1e-6, 1e-6, a1.shape)
        flipped = a1.copy()
        flipped[:, 1] = 180.0 - flipped[:, 1]
        yield f"flipped{n}", a1, flipped
        inpl = a1.copy()
        inpl[:, 0] += rng.uniform(-180, 180, n)
        yield f"inplane{n}", a1, inpl
        special = rng.choice([0.0, 90.0, 180.0, -180.0, -90.0, 45.0], (n, 3))
        yield f"special{n}", special, rng.choice([0.0, 90.0, 180.0, -90.0], (n, 3))


def compare_with_original():
    n = 0
    rng = np.random.default_rng(3)
    for tag, a1, a2 in rotation_inputs(rng):
        r1 = srot.from_euler("zxz", a1, degrees=True)
        r2 = srot.from_euler("zxz", a2, degrees=True)
        variants = [("rot", r1, r2), ("euler", a1, a2), ("mixed", r1, a2)]
        if len(a1) == 1:
            variants.append(("single", r1[0], r2[0]))
        for vt, x, y in variants:
            for sym in (1, 2, 6):
                if vt == "single" and sym > 1:
                    continue
                for rt in ("all", "angular_distance", "cone_distance", "in_plane_distance", "something_else"):
                    o = call(orig["compare_rotations"], x, y, c_symmetry=sym, rotation_type=rt)
                    c = call(geom.compare_rotations, x, y, c_symmetry=sym, rotation_type=rt)
                    if rt != "something_else":
                        check(not isinstance(c, Exception), f"{tag}/{vt}/{sym}/{rt}: raised {c!r}")
                    check(identical(o, c), f"{tag}/{vt}/sym={sym}/{rt}: compare_rotations differs from the original")
                    n += 1
                check(identical(call(orig["angular_distance"], x, y, c_symmetry=sym), call(geom.angular_distance, x, y, c_symmetry=sym)),
                      f"{tag}/{vt}/sym={sym}: angular_distance differs from the original")
                check(identical(call(orig["cone_inplane_distance"], x, y, c_symmetry=sym), call(geom.cone_inplane_distance, x, y, c_symmetry=sym)),
                      f"{tag}/{vt}/sym={sym}: cone_inplane_distance differs from the original")
            if vt != "euler":
                rx_, ry_ = (x, y) if vt != "mixed" else (r1, r2)
                check(identical(call(orig["cone_distance"], rx_, ry_), call(geom.cone_distance, rx_, ry_)), f"{tag}/{vt}: cone_distance differs")
        # radians and another convention through the array path
        o = call(orig["angular_distance"], np.radians(a1), np.radians(a2), convention="zyz", degrees=False)
        c = call(geom.angular_distance, np.radians(a1), np.radians(a2), convention="zyz", degrees=False)
        check(identical(o, c) and not isinstance(c, Exception), f"{tag}: angular_distance zyz/radians differs")
        o = call(orig["cone_inplane_distance"], np.radians(a1), np.radians(a2), convention="zyz", degrees=False)
        c = call(geom.cone_inplane_distance, np.radians(a1), np.radians(a2), convention="zyz", degrees=False)
        check(identical(o, c) and not isinstance(c, Exception), f"{tag}: cone_inplane_distance zyz/radians differs")
    # sizes that differ: the original prints a message and compare_rotations fails on the missing result
    r3, r5 = srot.random(3, random_state=1), srot.random(5, random_state=2)
    check(identical(call(orig["angular_distance"], r3, r5), call(geom.angular_distance, r3, r5)), "size mismatch: angular_distance")
    check(identical(call(orig["compare_rotations"], r3, r5), call(geom.compare_rotations, r3, r5)), "size mismatch: compare_rotations")
    # whole table, original functions swapped in
    for tag, df_a, df_b, k, px in scenarios(seed=13, n_random=30):
        m_a, m_b = cryomotl.Motl(motl_df=df_a.copy()), cryomotl.Motl(motl_df=df_b.copy())
        for rt in ("angular_distance", "cone_distance", "in_plane_distance"):
            cur = nnana.get_nn_stats(m_a, m_b, pixel_size=px, nn_number=k, rotation_type=rt)
            keep = geom.compare_rotations
            geom.compare_rotations = orig["compare_rotations"]
            try:
                old = nnana.get_nn_stats(m_a, m_b, pixel_size=px, nn_number=k, rotation_type=rt)
            finally:
                geom.compare_rotations = keep
            check(same_tables(old, cur), f"{tag}/{rt}: get_nn_stats table differs from the one built with the original functions")
            n += 1
    return n


if __name__ == "__main__":
    n1 = run_property(nnana.get_nn_stats, seed=2, n_random=40)
    n2 = compare_with_original()
    print(f"{n1} property scenarios, {n2} old-vs-current comparisons")
    if FAILS:
        print(f"FAILED ({len(FAILS)} checks)")
        sys.exit(1)
    print("PASS")
