"""Demo for property C03 (RELION <-> cryoCAT conversion preserves pose and identity), change b.

Run as:  cd /tmp/wt6/C03 && /venv/bin/python /tmp/seedsP/C03/b/demo.py
Prints PASS and exits 0 when the property holds (on the clean tree and with the patch applied).

Part 1 checks the property against an independent statement of the convention (hand-written rotation matrices,
independent STAR writer / parser, independently formatted names).
Part 2 runs the ORIGINAL text of the refactored functions (kept below) side by side with whatever the worktree
currently contains and demands identical tables.
"""
import sys, os

sys.path.insert(0, os.getcwd())
import re
import tempfile
import warnings

warnings.simplefilter("ignore")

import numpy as np
import pandas as pd
from scipy.spatial.transform import Rotation as rot

from cryocat import cryomotl, starfileio
from cryocat.cryomotl import Motl, RelionMotl

assert os.path.abspath(cryomotl.__file__).startswith(os.path.abspath(os.getcwd())), cryomotl.__file__

FAILS = []
N_CHECKS = [0]


def check(cond, msg):
    N_CHECKS[0] += 1
    if not cond:
        FAILS.append(msg)
        if len(FAILS) <= 25:
            print("FAIL:", msg)


# --------------------------------------------------------------------------------------------------------------
# independent statement of the conventions
# --------------------------------------------------------------------------------------------------------------
def _axis_rot(axis, deg):
    a = np.deg2rad(np.asarray(deg, dtype=float))
    c, s = np.cos(a), np.sin(a)
    m = np.zeros((a.shape[0], 3, 3))
    if axis == "z":
        m[:, 0, 0], m[:, 0, 1], m[:, 1, 0], m[:, 1, 1], m[:, 2, 2] = c, -s, s, c, 1.0
    elif axis == "x":
        m[:, 1, 1], m[:, 1, 2], m[:, 2, 1], m[:, 2, 2], m[:, 0, 0] = c, -s, s, c, 1.0
    else:
        m[:, 0, 0], m[:, 0, 2], m[:, 2, 0], m[:, 2, 2], m[:, 1, 1] = c, s, -s, c, 1.0
    return m


def particle_matrix(phi, theta, psi):
    # cryoCAT: extrinsic zxz -> first Rz(phi), then Rx(theta), then Rz(psi), all about fixed axes
    return _axis_rot("z", psi) @ _axis_rot("x", theta) @ _axis_rot("z", phi)


def relion_matrix(rot_, tilt, psi):
    # RELION: intrinsic ZYZ
    return _axis_rot("z", rot_) @ _axis_rot("y", tilt) @ _axis_rot("z", psi)


def is_inverse(ma, mb, atol):
    prod = ma @ mb
    return bool(np.allclose(prod, np.eye(3)[None, :, :], atol=atol))


VERSIONS = (3.0, 3.1, 4.0)


def names_for(version):
    if version >= 4.0:
        return "rlnTomoName", "rlnTomoParticleName"
    return "rlnMicrographName", "rlnImageName"


def origin_names(version):
    if version >= 3.1:
        return ["rlnOriginXAngst", "rlnOriginYAngst", "rlnOriginZAngst"]
    return ["rlnOriginX", "rlnOriginY", "rlnOriginZ"]


COORD = ["rlnCoordinateX", "rlnCoordinateY", "rlnCoordinateZ"]
ANGLES = ["rlnAngleRot", "rlnAngleTilt", "rlnAnglePsi"]

# (tomo_format, subtomo_format, expected tomo string, expected subtomo string); None -> plain integer
FORMATS_3 = [
    ("", "", None, None, True),
    ("/p/to/$xxx.rec", "/s/$xxx/$xxx_$yyyy_2.5A.mrc", lambda t: f"/p/to/{t:03d}.rec", lambda t, s: f"/s/{t:03d}/{t:03d}_{s:04d}_2.5A.mrc", True),
    # the subtomogram number is not the second number of this name, so it cannot be parsed back
    ("/p/$xxxx/$xxxx_$xx.rec", "/s/$yy_$yyyyyy_1.0A.mrc", lambda t: f"/p/{t:04d}/{t:04d}_$xx.rec", lambda t, s: f"/s/$yy_{s:06d}_1.0A.mrc", False),
    ("", "/s/$xx/$xx_$y_3A.mrc", None, lambda t, s: f"/s/{t:02d}/{t:02d}_{s:d}_3A.mrc", True),
    ("tomo$x.mrc", "", lambda t: f"tomo{t:d}.mrc", None, True),
]
FORMATS_4 = [
    ("", "", None, None, True),
    ("TS_$xxx", "TS_$xxx/$yyyy", lambda t: f"TS_{t:03d}", lambda t, s: f"TS_{t:03d}/{s:04d}", True),
    ("/d/TS_$xxxxx", "/d/TS_$xx/$y", lambda t: f"/d/TS_{t:05d}", lambda t, s: f"/d/TS_{t:02d}/{s:d}", True),
    ("", "rec_$xxx/$yyyyyyy", None, lambda t, s: f"rec_{t:03d}/{s:07d}", True),
]


def special_angles(rng, n):
    ang = rng.uniform(-720.0, 720.0, size=(n, 3))
    # gimbal lock and other edge cases in the middle angle
    edge_mid = np.array([0.0, 180.0, -180.0, 360.0, -360.0, 540.0, 1e-9, 180.0 - 1e-9, 90.0, -90.0])
    edge_out = np.array([0.0, 180.0, -180.0, 360.0, 90.0, -90.0, 270.0, 45.0])
    k = rng.random(n)
    sel = k < 0.35
    ang[sel, 1] = rng.choice(edge_mid, size=int(sel.sum()))
    sel = (k > 0.25) & (k < 0.5)
    ang[sel, 0] = rng.choice(edge_out, size=int(sel.sum()))
    sel = (k > 0.4) & (k < 0.6)
    ang[sel, 2] = rng.choice(edge_out, size=int(sel.sum()))
    if n >= 1:
        ang[0] = rng.choice([[0.0, 0.0, 0.0], [30.0, 0.0, 40.0], [10.0, 180.0, -20.0], [-15.0, 100.0, 500.0]])
    return ang


def make_index(rng, n, kind):
    if kind == "default":
        return None
    if kind == "offset":
        return np.arange(n) + 1000
    if kind == "shuffled":
        return rng.permutation(n)
    return [f"r{i}" for i in rng.permutation(n)]


def make_motl_df(rng, n, index_kind="default"):
    df = pd.DataFrame(np.zeros((n, len(Motl.motl_columns))), columns=Motl.motl_columns)
    df["tomo_id"] = np.sort(rng.integers(1, 99, size=n)).astype(float)
    sub = rng.choice(np.arange(1, 9000), size=n, replace=False)
    if rng.random() < 0.5:
        sub = np.sort(sub)
    df["subtomo_id"] = sub.astype(float)
    pos = rng.uniform(-3000.0, 3000.0, size=(n, 3))
    sel = rng.random(n) < 0.2
    pos[sel] = np.round(pos[sel])
    shifts = rng.uniform(-25.0, 25.0, size=(n, 3))
    shifts[rng.random(n) < 0.25] = 0.0
    df[["x", "y", "z"]] = pos
    df[["shift_x", "shift_y", "shift_z"]] = shifts
    df[["phi", "theta", "psi"]] = special_angles(rng, n)
    df["class"] = rng.integers(1, 12, size=n).astype(float)
    df["score"] = rng.uniform(0, 1, size=n)
    df["object_id"] = rng.integers(1, 20, size=n).astype(float)
    idx = make_index(rng, n, index_kind)
    if idx is not None:
        df.index = idx
    return df


def make_relion_df(rng, n, version, ps, halfset, unique_ids=True, index_kind="default", pixel_column=False):
    tomo_col, sub_col = names_for(version)
    tomo = np.sort(rng.integers(1, 500, size=n))
    if unique_ids:
        sub = rng.choice(np.arange(1, 90000), size=n, replace=False)
    else:
        sub = rng.integers(1, max(2, n // 2 + 1), size=n)
    coords = rng.uniform(-4000.0, 4000.0, size=(n, 3))
    origin = rng.uniform(-30.0, 30.0, size=(n, 3))
    origin[rng.random(n) < 0.2] = 0.0
    angles = special_angles(rng, n)
    data = {}
    if version >= 4.0:
        data[tomo_col] = [f"TS_{t:03d}" for t in tomo]
        data[sub_col] = [f"TS_{t:03d}/{s:d}" for t, s in zip(tomo, sub)]
    else:
        data[tomo_col] = [f"/data/set7/tomo/{t:03d}_{ps}A.rec" for t in tomo]
        data[sub_col] = [f"/data/set7/sub4/{t:03d}_{s:07d}_{ps}A.mrc" for t, s in zip(tomo, sub)]
    for i, c in enumerate(COORD):
        data[c] = coords[:, i]
    for i, c in enumerate(ANGLES):
        data[c] = angles[:, i]
    for i, c in enumerate(origin_names(version)):
        data[c] = origin[:, i]
    cls = rng.integers(1, 9, size=n)
    data["rlnClassNumber"] = cls
    hs = None
    if halfset == "two":
        hs = rng.integers(1, 3, size=n)
        if n >= 2 and len(np.unique(hs)) < 2:
            hs[0], hs[1] = 1, 2
        data["rlnRandomSubset"] = hs
    elif halfset == "blocks":
        hs = np.where(np.arange(n) < n // 2, 2, 1)
        data["rlnRandomSubset"] = hs
    elif halfset == "one":
        hs = np.full(n, 1)
        data["rlnRandomSubset"] = hs
    if pixel_column and version < 4.0:
        data["rlnPixelSize"] = np.full(n, ps)
    rdf = pd.DataFrame(data)
    cols = list(rdf.columns)
    rdf = rdf[list(rng.permutation(cols))]
    idx = make_index(rng, n, index_kind)
    if idx is not None:
        rdf.index = idx
    expected = dict(tomo=tomo, sub=sub, coords=coords, origin=origin, angles=angles, cls=cls, hs=hs)
    return rdf, expected


def expected_subtomo_ids(sub, hs):
    """Independent statement: geom3 keeps the number from the name; subtomo_id keeps it when unique, otherwise 1..n;
    with two half-sets the ids are the smallest strictly increasing sequence with odd <-> half-set 1."""
    n = len(sub)
    ids = np.asarray(sub, dtype=float)
    if len(set(sub.tolist())) != n:
        ids = np.arange(1, n + 1, dtype=float)
    if hs is not None and len(set(hs.tolist())) == 2:
        out = []
        last = 0
        for h in hs:
            c = last + 1
            want_odd = h % 2 == 1
            if (c % 2 == 1) != want_odd:
                c += 1
            out.append(c)
            last = c
        ids = np.asarray(out, dtype=float)
    return ids


# --------------------------------------------------------------------------------------------------------------
# independent STAR writer / parser
# --------------------------------------------------------------------------------------------------------------
def write_star(path, rdf, version, ps, optics):
    lines = ["", "# written by the independent demo writer", ""]
    if version >= 3.1 and optics:
        lines += ["data_optics", "", "loop_", "_rlnOpticsGroup #1", "_rlnOpticsGroupName #2", "_rlnImagePixelSize #3"]
        lines += [f"1 opticsGroup1 {ps!r}", "", ""]
    lines += ["data_" if version < 3.1 else "data_particles", "", "loop_"]
    for i, c in enumerate(rdf.columns, 1):
        lines.append(f"_{c} #{i}")
    for row in rdf.itertuples(index=False):
        vals = []
        for v in row:
            if isinstance(v, (float, np.floating)):
                vals.append(f"{v:.6f}")
            else:
                vals.append(str(v))
        lines.append("  ".join(vals))
    lines.append("")
    with open(path, "w") as f:
        f.write("\n".join(lines) + "\n")


def parse_star(path):
    blocks = {}
    cur = None
    cols = None
    rows = None
    with open(path) as f:
        for raw in f:
            line = raw.strip()
            if not line or line.startswith("#"):
                continue
            if line.startswith("data_"):
                cur = line
                cols, rows = [], []
                blocks[cur] = (cols, rows)
            elif line == "loop_":
                continue
            elif line.startswith("_"):
                cols.append(line.split()[0][1:])
            else:
                rows.append(line.split())
    out = {}
    for k, (cols, rows) in blocks.items():
        out[k] = pd.DataFrame(rows, columns=cols)
    return out


# --------------------------------------------------------------------------------------------------------------
# Part 1: the property
# --------------------------------------------------------------------------------------------------------------
def check_export_table(tag, r, src, version, ps, fmt, atol):
    tomo_col, sub_col = names_for(version)
    n = src.shape[0]
    check(r.shape[0] == n, f"{tag}: row count")
    full = src[["x", "y", "z"]].to_numpy() + src[["shift_x", "shift_y", "shift_z"]].to_numpy()
    check(np.allclose(r[COORD].to_numpy(dtype=float), full, atol=atol, rtol=0), f"{tag}: rlnCoordinate = x + shift")
    check(np.all(r[origin_names(version)].to_numpy(dtype=float) == 0.0), f"{tag}: origins zero")
    other = origin_names(3.0 if version >= 3.1 else 3.1)
    check(not any(c in r.columns for c in other), f"{tag}: no origin columns of the other unit")
    a = r[ANGLES].to_numpy(dtype=float)
    pm = particle_matrix(src["phi"].to_numpy(), src["theta"].to_numpy(), src["psi"].to_numpy())
    rm = relion_matrix(a[:, 0], a[:, 1], a[:, 2])
    check(is_inverse(rm, pm, max(atol, 1e-9) * 10), f"{tag}: ZYZ rotation is the inverse of the zxz rotation")
    check(np.array_equal(r["rlnClassNumber"].to_numpy(dtype=float), src["class"].to_numpy(dtype=float)), f"{tag}: class")
    tomo = src["tomo_id"].to_numpy().astype(int)
    sub = src["subtomo_id"].to_numpy().astype(int)
    tf, sf, et, es, _ = fmt
    exp_t = [str(t) if et is None else et(t) for t in tomo]
    exp_s = [str(s) if es is None else es(t, s) for t, s in zip(tomo, sub)]
    check([str(v) for v in r[tomo_col].tolist()] == exp_t, f"{tag}: tomogram names {r[tomo_col].tolist()[:3]} vs {exp_t[:3]}")
    check([str(v) for v in r[sub_col].tolist()] == exp_s, f"{tag}: subtomogram names {r[sub_col].tolist()[:3]} vs {exp_s[:3]}")
    hs = r["rlnRandomSubset"].to_numpy(dtype=float)
    check(np.array_equal(hs, np.where(sub % 2 == 1, 1.0, 2.0)), f"{tag}: half-set 1/2 <-> odd/even subtomo number")
    if version < 4.0:
        check(np.allclose(r["rlnPixelSize"].to_numpy(dtype=float), ps), f"{tag}: rlnPixelSize")


def check_import(tag, m, exp, version, ps, atol):
    d = m.df
    n = len(exp["tomo"])
    check(d.shape[0] == n, f"{tag}: row count")
    check(np.allclose(d[["x", "y", "z"]].to_numpy(dtype=float), exp["coords"], atol=atol, rtol=0), f"{tag}: x,y,z = rlnCoordinate")
    sh = -exp["origin"]
    if version >= 3.1:
        sh = sh / ps
    check(np.allclose(d[["shift_x", "shift_y", "shift_z"]].to_numpy(dtype=float), sh, atol=atol, rtol=0), f"{tag}: shift = -origin (/ps)")
    a = exp["angles"]
    rm = relion_matrix(a[:, 0], a[:, 1], a[:, 2])
    pm = particle_matrix(d["phi"].to_numpy(dtype=float), d["theta"].to_numpy(dtype=float), d["psi"].to_numpy(dtype=float))
    check(is_inverse(pm, rm, max(atol, 1e-9) * 10), f"{tag}: zxz rotation is the inverse of the ZYZ rotation")
    check(np.array_equal(d["tomo_id"].to_numpy(dtype=float), exp["tomo"].astype(float)), f"{tag}: tomo_id")
    check(np.array_equal(d["class"].to_numpy(dtype=float), exp["cls"].astype(float)), f"{tag}: class")
    check(np.array_equal(d["geom3"].to_numpy(dtype=float), exp["sub"].astype(float)), f"{tag}: geom3 = subtomo number")
    ids = expected_subtomo_ids(exp["sub"], exp["hs"])
    check(np.array_equal(d["subtomo_id"].to_numpy(dtype=float), ids), f"{tag}: subtomo_id {d['subtomo_id'].tolist()[:6]} vs {ids[:6]}")
    if exp["hs"] is not None and len(set(exp["hs"].tolist())) == 2:
        got = d["subtomo_id"].to_numpy().astype(int)
        check(np.array_equal(got % 2 == 1, exp["hs"] == 1), f"{tag}: half-set 1 <-> odd")
        check(np.all(np.diff(got) > 0), f"{tag}: renumbered ids increase")
    check(np.array_equal(m.relion_df["ccSubtomoID"].to_numpy(dtype=float), d["subtomo_id"].to_numpy(dtype=float)), f"{tag}: ccSubtomoID")


def same_pose(tag, d1, d2, atol):
    p1 = d1[["x", "y", "z"]].to_numpy(dtype=float) + d1[["shift_x", "shift_y", "shift_z"]].to_numpy(dtype=float)
    p2 = d2[["x", "y", "z"]].to_numpy(dtype=float) + d2[["shift_x", "shift_y", "shift_z"]].to_numpy(dtype=float)
    check(np.allclose(p1, p2, atol=atol, rtol=0), f"{tag}: same complete position")
    m1 = particle_matrix(d1["phi"].to_numpy(dtype=float), d1["theta"].to_numpy(dtype=float), d1["psi"].to_numpy(dtype=float))
    m2 = particle_matrix(d2["phi"].to_numpy(dtype=float), d2["theta"].to_numpy(dtype=float), d2["psi"].to_numpy(dtype=float))
    check(np.allclose(m1, m2, atol=atol * 10, rtol=0), f"{tag}: same orientation")
    check(np.array_equal(d1["tomo_id"].to_numpy(dtype=float), d2["tomo_id"].to_numpy(dtype=float)), f"{tag}: same tomo_id")
    check(np.array_equal(d1["class"].to_numpy(dtype=float), d2["class"].to_numpy(dtype=float)), f"{tag}: same class")


def part1(tmpdir, seed=20240):
    rng = np.random.default_rng(seed)
    sizes = [1, 2, 3, 7, 40, 300]
    pixel_sizes = [1.0, 2.5, 0.731, 13.48]
    index_kinds = ["default", "offset", "shuffled", "labels"]
    case = 0
    for version in VERSIONS:
        formats = FORMATS_4 if version >= 4.0 else FORMATS_3
        for n in sizes:
            for fi, fmt in enumerate(formats):
                case += 1
                ps = pixel_sizes[case % len(pixel_sizes)]
                kind = index_kinds[case % len(index_kinds)]
                src = make_motl_df(rng, n, kind)
                src_copy = src.copy(deep=True)
                tag = f"v{version} n={n} fmt={fi} ps={ps} idx={kind}"
                m = RelionMotl(src, version=version, pixel_size=ps, binning=1.0)
                before = m.df.copy(deep=True)
                # ---- export in memory
                r = m.create_relion_df(tomo_format=fmt[0], subtomo_format=fmt[1])
                check_export_table(tag + " export", r, src_copy, version, ps, fmt, 1e-9)
                # repeated call on the same object gives the same table and does not touch the particle list
                r_again = m.create_relion_df(tomo_format=fmt[0], subtomo_format=fmt[1])
                check(r.equals(r_again), f"{tag}: repeated export identical")
                check(m.df.equals(before), f"{tag}: export leaves the particle list untouched")
                check(src.equals(src_copy), f"{tag}: caller's frame untouched")
                # ---- in-memory round trip (only when the names can be parsed back: both formats or none)
                parse_ok = fmt[4]
                if parse_ok:
                    back = RelionMotl(r, version=version, pixel_size=ps)
                    same_pose(tag + " roundtrip-mem", back.df, before, 1e-8)
                    check(np.array_equal(back.df["geom3"].to_numpy(dtype=float), before["subtomo_id"].to_numpy(dtype=float)), f"{tag}: geom3 keeps the subtomo number (mem)")
                    ids = back.df["subtomo_id"].to_numpy().astype(int)
                    check(np.array_equal(ids % 2, before["subtomo_id"].to_numpy().astype(int) % 2), f"{tag}: parity of subtomo ids survives (mem)")
                # ---- through a STAR file
                for optics in (False, True):
                    if optics and version < 3.1:
                        continue
                    path = os.path.join(tmpdir, f"exp_{case}_{int(optics)}.star")
                    m.write_out(path, write_optics=optics, tomo_format=fmt[0], subtomo_format=fmt[1])
                    check(m.df.equals(before), f"{tag}: write_out leaves the particle list untouched")
                    blocks = parse_star(path)
                    spec = "data_" if version < 3.1 else "data_particles"
                    check(spec in blocks, f"{tag}: block {spec} in file, got {list(blocks)}")
                    check(("data_optics" in blocks) == optics, f"{tag}: optics block on/off")
                    if spec not in blocks:
                        continue
                    check_export_table(tag + f" file(optics={optics})", blocks[spec], src_copy, version, ps, fmt, 1e-6)
                    if optics:
                        check(np.isclose(float(blocks["data_optics"]["rlnImagePixelSize"].iloc[0]), ps, atol=1e-6), f"{tag}: optics pixel size")
                    if parse_ok:
                        for given_ps in (ps, None):
                            if given_ps is None and version >= 4.0 and not optics:
                                continue  # pixel size cannot be known
                            back = RelionMotl(path, pixel_size=given_ps)
                            check(back.version == version, f"{tag}: version recognised from file ({back.version})")
                            same_pose(tag + f" roundtrip-file(optics={optics},ps={given_ps})", back.df, before, 2e-6)
                            check(np.array_equal(back.df["geom3"].to_numpy(dtype=float), before["subtomo_id"].to_numpy(dtype=float)), f"{tag}: geom3 keeps the subtomo number (file)")

    # ---- import of independently generated RELION data
    for version in VERSIONS:
        for n in sizes:
            for halfset in (None, "two", "blocks", "one"):
                for unique_ids in (True, False):
                    case += 1
                    ps = pixel_sizes[case % len(pixel_sizes)]
                    kind = index_kinds[case % len(index_kinds)]
                    tag = f"import v{version} n={n} hs={halfset} unique={unique_ids} ps={ps} idx={kind}"
                    rdf, exp = make_relion_df(rng, n, version, ps, halfset, unique_ids, kind, pixel_column=(case % 3 == 0))
                    rdf_copy = rdf.copy(deep=True)
                    m = RelionMotl(rdf, version=version, pixel_size=ps)
                    check_import(tag, m, exp, version, ps, 1e-9)
                    check(rdf.equals(rdf_copy), f"{tag}: caller's RELION frame untouched")
                    # version detected from the columns, pixel size from the rlnPixelSize column when present
                    if "rlnPixelSize" in rdf.columns:
                        m_auto = RelionMotl(rdf)
                        check(m_auto.version == version, f"{tag}: version auto ({m_auto.version})")
                        check_import(tag + " auto", m_auto, exp, version, ps, 1e-9)
                    # second conversion on the same object (repeated call)
                    m.convert_to_motl(rdf)
                    check_import(tag + " repeated", m, exp, version, ps, 1e-9)
                    # through a file
                    for optics in (False, True):
                        if optics and version < 3.1:
                            continue
                        path = os.path.join(tmpdir, f"imp_{case}_{int(optics)}.star")
                        write_star(path, rdf, version, ps, optics)
                        mf = RelionMotl(path, pixel_size=ps)
                        check(mf.version == version, f"{tag}: file version ({mf.version})")
                        check_import(tag + f" file(optics={optics})", mf, exp, version, ps, 2e-6)
                        if optics:
                            mo = RelionMotl(path)  # pixel size taken from the optics block
                            check_import(tag + " file(ps from optics)", mo, exp, version, ps, 2e-6)
                        # and back out again: export of imported data returns the RELION pose
                        r2 = mf.create_relion_df(binning=1.0)
                        full = exp["coords"] - exp["origin"] / (ps if version >= 3.1 else 1.0)
                        check(np.allclose(r2[COORD].to_numpy(dtype=float), full, atol=1e-5, rtol=0), f"{tag}: re-export position")
                        a1, a2 = exp["angles"], r2[ANGLES].to_numpy(dtype=float)
                        check(np.allclose(relion_matrix(a1[:, 0], a1[:, 1], a1[:, 2]), relion_matrix(a2[:, 0], a2[:, 1], a2[:, 2]), atol=1e-6), f"{tag}: re-export orientation")

    # ---- module level converters
    for version in VERSIONS:
        src = make_motl_df(rng, 25, "default")
        ps = 1.7
        fmt = (FORMATS_4 if version >= 4.0 else FORMATS_3)[1]
        path = os.path.join(tmpdir, f"conv_{version}.star")
        empath = os.path.join(tmpdir, f"conv_{version}.em")
        rm = cryomotl.emmotl2relion(src, output_motl_path=path, tomo_format=fmt[0], subtomo_format=fmt[1], relion_version=version, pixel_size=ps, binning=1.0, write_optics=(version >= 3.1))
        blocks = parse_star(path)
        spec = "data_" if version < 3.1 else "data_particles"
        # emmotl2relion updates the coordinates first: x+shift is what must be written either way
        check_export_table(f"emmotl2relion v{version}", blocks[spec], src, version, ps, fmt, 1e-6)
        em = cryomotl.relion2emmotl(path, output_motl_path=empath, pixel_size=ps)
        same_pose(f"relion2emmotl v{version}", em.df, src, 2e-6)
        sg = cryomotl.relion2stopgap(path)
        same_pose(f"relion2stopgap v{version}", sg.df, src, 2e-6)
        rm2 = cryomotl.stopgap2relion(sg.df, relion_version=version, pixel_size=ps)
        same_pose(f"stopgap2relion v{version}", rm2.df, src, 2e-6)


# --------------------------------------------------------------------------------------------------------------
# Part 2: original text of the refactored functions against the worktree
# --------------------------------------------------------------------------------------------------------------
ORIG_SRC = r'''
def parse_subtomo_id(self, relion_df):
    """The function parses the subtomogram id from a Relion starfile. The function takes
    in a pandas.DataFrame in relion format and looks for the `rlnImageName` (for Relion 3.1 and lower) column
    or for the `rlnTomoParticleName` (for Relion 4.0 and higher) column and tries to parse the subtomogram id for each
    particle. It checks whether the subtomogram indices are unique and if not, it renumbers the `subtomo_id` to a
    sequence from 1 to length of the particle list and stores the original value in `geom3`.

    Parameters
    ----------
    relion_df : pandas.DataFrame
        The DataFrame in Relion format containing the subtomogram numbers.

    Notes
    -----
    The function modifies the `subtomo_id` column of `self.df` to store the subtomogram indices. In case they are
    not uniqe it also modifies `geom3` columns of `self.df`.

    TODO: Add custom format specifier.

    Warnings
    --------
    Due to lack of format in relion starfiles it is possible that this function will fail. Currently, following
    formats are expected:

    - Relion 3.1 and lower for "rlnImageName": second number in the last entry (/path/tomoID_subtomoID_pixelSize.mrc)
    - Relion 4.0 and higher for "rlnTomoParticleName": the only number in the last entry (TS_tomoID/subtomoID)
    - Relion 4.0 and higher for "rlnTomoParticleName": the only number in the last entry (TS_tomoID/subtomoID)

    Returns
    -------
    None

    """
    # parsing out subtomo number
    if self.subtomo_id_name in relion_df.columns:
        image_names = relion_df[self.subtomo_id_name].tolist()

        # Note: following will fail if the subtomos are named differently for each row - once with string, once with
        # number
        if all(isinstance(i, (int, float)) for i in image_names):
            subtomo_idx = image_names
        else:
            subtomo_names = [i.rsplit("/", 1)[-1] for i in image_names]
            subtomo_idx = []

            for j in subtomo_names:
                if self.version >= 4.0:
                    subtomo_idx.append(float(j))
                else:
                    subtomo_idx.append(float(re.findall(r"\d+", j)[1]))

    # Check if the subtomo_idx are unique and if not store them at geom3 and renumber particles
    self.df["geom3"] = subtomo_idx
    self.df["subtomo_id"] = subtomo_idx

    if len(np.unique(subtomo_idx)) != len(subtomo_idx):
        self.df["subtomo_id"] = np.arange(1, relion_df.shape[0] + 1, 1)

    # If there is information about half-sets renumber the subtomo_idx accordintly
    if "rlnRandomSubset" in relion_df.columns and relion_df["rlnRandomSubset"].nunique() == 2:
        halfset_num = relion_df["rlnRandomSubset"].values % 2
        c = 1 if halfset_num[0] == 1 else 2
        subtomo_id_num = [c]
        for i in range(1, self.df.shape[0]):
            if (c % 2 == 1 and halfset_num[i] == 1) or (c % 2 == 0 and halfset_num[i] == 0):
                c += 2
            else:
                c += 1
            # c = np.ceil(c / 2) * 2 + halfset_num[i]
            subtomo_id_num.append(c)

        self.df["subtomo_id"] = subtomo_id_num
'''

_ns = {"rot": rot, "np": np, "pd": pd, "re": re, "warnings": warnings, "starfileio": starfileio, "RelionMotl": RelionMotl}
exec(ORIG_SRC, _ns)


class OrigRelionMotl(RelionMotl):
    pass


for _name in ['parse_subtomo_id']:
    setattr(OrigRelionMotl, _name, _ns[_name])


def frames_identical(tag, a, b):
    try:
        pd.testing.assert_frame_equal(a, b, check_exact=True, check_dtype=True)
        check(True, tag)
    except AssertionError as e:
        check(False, f"{tag}: original and current implementation differ: {str(e)[:300]}")


def part2(tmpdir, seed=777):
    rng = np.random.default_rng(seed)
    sizes = [1, 2, 5, 33, 300]
    case = 0
    for version in VERSIONS:
        formats = FORMATS_4 if version >= 4.0 else FORMATS_3
        for n in sizes:
            for fi, fmt in enumerate(formats):
                case += 1
                ps = [1.0, 2.5, 0.731, 13.48][case % 4]
                kind = ["default", "offset", "shuffled", "labels"][case % 4]
                src = make_motl_df(rng, n, kind)
                tag = f"orig-vs-current export v{version} n={n} fmt={fi}"
                mo = OrigRelionMotl(src, version=version, pixel_size=ps, binning=1.0)
                mc = RelionMotl(src, version=version, pixel_size=ps, binning=1.0)
                ro = mo.create_relion_df(tomo_format=fmt[0], subtomo_format=fmt[1])
                rc = mc.create_relion_df(tomo_format=fmt[0], subtomo_format=fmt[1])
                frames_identical(tag, ro, rc)
                frames_identical(tag + " df", mo.df, mc.df)
                po, pc = os.path.join(tmpdir, "o.star"), os.path.join(tmpdir, "c.star")
                mo.write_out(po, write_optics=(version >= 3.1), tomo_format=fmt[0], subtomo_format=fmt[1])
                mc.write_out(pc, write_optics=(version >= 3.1), tomo_format=fmt[0], subtomo_format=fmt[1])
                check(open(po).read() == open(pc).read(), tag + ": written files identical")
                # use_original_entries path after an import
                if fmt[4]:
                    bo = OrigRelionMotl(ro, version=version, pixel_size=ps, binning=1.0)
                    bc = RelionMotl(rc, version=version, pixel_size=ps, binning=1.0)
                    frames_identical(tag + " re-import df", bo.df, bc.df)
                    frames_identical(tag + " re-import relion_df", bo.relion_df, bc.relion_df)
                    frames_identical(tag + " original entries", bo.create_relion_df(use_original_entries=True), bc.create_relion_df(use_original_entries=True))
        for n in sizes:
            for halfset in (None, "two", "blocks", "one"):
                for unique_ids in (True, False):
                    case += 1
                    ps = [1.0, 2.5, 0.731, 13.48][case % 4]
                    kind = ["default", "offset", "shuffled", "labels"][case % 4]
                    rdf, exp = make_relion_df(rng, n, version, ps, halfset, unique_ids, kind, pixel_column=(case % 3 == 0))
                    tag = f"orig-vs-current import v{version} n={n} hs={halfset} unique={unique_ids}"
                    mo = OrigRelionMotl(rdf, version=version, pixel_size=ps)
                    mc = RelionMotl(rdf, version=version, pixel_size=ps)
                    frames_identical(tag, mo.df, mc.df)
                    frames_identical(tag + " relion_df", mo.relion_df, mc.relion_df)
                    if "rlnPixelSize" in rdf.columns:
                        frames_identical(tag + " auto", OrigRelionMotl(rdf).df, RelionMotl(rdf).df)
                    # direct calls of the individual steps on fresh objects
                    fo, fc = OrigRelionMotl(version=version, pixel_size=ps), RelionMotl(version=version, pixel_size=ps)
                    for obj in (fo, fc):
                        obj.convert_shifts(rdf)
                        obj.convert_angles_from_relion(rdf)
                        obj.parse_tomo_id(rdf)
                        obj.parse_subtomo_id(rdf)
                    frames_identical(tag + " single steps", fo.df, fc.df)
                    fo, fc = OrigRelionMotl(version=version, pixel_size=ps), RelionMotl(version=version, pixel_size=ps)
                    fo.convert_angles_from_relion(rdf)
                    fc.convert_angles_from_relion(rdf)
                    frames_identical(tag + " angles on a fresh object", fo.df, fc.df)
                    path = os.path.join(tmpdir, "imp.star")
                    write_star(path, rdf, version, ps, version >= 3.1)
                    frames_identical(tag + " file", OrigRelionMotl(path, pixel_size=ps).df, RelionMotl(path, pixel_size=ps).df)
    # ---- extra for this change: many half-set patterns fed directly to parse_subtomo_id
    for version in VERSIONS:
        tomo_col, sub_col = names_for(version)
        for trial in range(120):
            n = int(rng.choice([2, 3, 4, 9, 50, 300]))
            labels = [(1, 2), (2, 1), (3, 4), (1, 3), (0, 1), (-1, 2), (2, 4), (1001, 1002)][trial % 8]
            p = [0.5, 0.05, 0.95, 0.3][trial % 4]
            hs = np.where(rng.random(n) < p, labels[0], labels[1])
            i, j = rng.choice(n, size=2, replace=False)
            hs[i], hs[j] = labels[0], labels[1]  # both labels are present
            hs = hs.astype(float) if trial % 3 == 0 else hs
            sub = rng.choice(np.arange(1, 5000), size=n, replace=(trial % 5 == 0))
            if version >= 4.0:
                names = [f"TS_{7:03d}/{s:d}" for s in sub]
            else:
                names = [f"/x1/y2/{7:03d}_{s:06d}_1.5A.mrc" for s in sub]
            if trial % 7 == 0:
                names = [float(s) for s in sub]  # numeric names are taken as they are
            rdf = pd.DataFrame({sub_col: names, "rlnRandomSubset": hs})
            if trial % 2:
                rdf.index = rng.permutation(n) + 10
            fo, fc = OrigRelionMotl(version=version, pixel_size=1.5), RelionMotl(version=version, pixel_size=1.5)
            fo.parse_subtomo_id(rdf)
            fc.parse_subtomo_id(rdf)
            frames_identical(f"half-set pattern v{version} trial {trial}", fo.df, fc.df)
            got = fc.df["subtomo_id"].to_numpy()
            check(np.array_equal(got.astype(float), expected_subtomo_ids(sub, np.asarray(hs).astype(int))), f"half-set pattern v{version} trial {trial}: independent numbering")
            check(np.array_equal(fc.df["geom3"].to_numpy(dtype=float), sub.astype(float)), f"half-set pattern v{version} trial {trial}: geom3")



if __name__ == "__main__":
    with tempfile.TemporaryDirectory() as tmp:
        part1(tmp)
        n1 = N_CHECKS[0]
        part2(tmp)
    print(f"checks: property {n1}, original-vs-current {N_CHECKS[0] - n1}, failures {len(FAILS)}")
    if FAILS:
        print("FAILED")
        sys.exit(1)
    print("PASS")
