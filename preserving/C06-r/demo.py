"""C06 demo for change b (validation: normals_to_euler_angles names wrongly shaped normals with a ValueError) -- rotation geometry primitives of cryocat.geom agree with SO(3) ground truth.

Run as:  cd /tmp/wt11/C06 && /venv/bin/python /tmp/seedsU/C06/<a|b|c>/demo.py

Part 1 checks the property against an independent computation (explicit zxz matrices written out with
sin/cos, relative rotation angle from the matrix trace / skew part, z-axis angle from atan2(|cross|, dot)).
Part 2 runs the functions of the tree next to a verbatim copy of the ORIGINAL functions (text below) on the
same inputs -- including the random state consumed by normals_to_euler_angles -- and demands bit-identical
results and identical exception types.
Part 3 holds the change-specific checks (inputs outside the quantifier raise; diagnostics leave random state,
inputs and results alone, also with DEBUG logging switched on).
The demo passes on the unmodified tree and with each of the three patches a, b, c.
"""
import os
import sys

sys.path.insert(0, os.getcwd())
os.environ.setdefault("MPLBACKEND", "Agg")

import io
import logging
import contextlib
import warnings
import itertools

import numpy as np
import pandas as pd
from scipy.spatial.transform import Rotation as srot

from cryocat import geom
from cryocat.exceptions import UserInputError

warnings.filterwarnings("ignore")  # scipy's gimbal-lock warnings of as_euler, NaN rows of zero normals
np.seterr(all="ignore")

assert os.path.abspath(geom.__file__).startswith(os.getcwd()), geom.__file__

# --------------------------------------------------------------------------------------------------------
# verbatim text of the functions at the unmodified HEAD (docstrings shortened)
# --------------------------------------------------------------------------------------------------------
ORIGINAL = r'''
def compare_rotations(angles1, angles2, c_symmetry=1, rotation_type="all"):
    dist_degrees = angular_distance(angles1, angles2, c_symmetry=c_symmetry)[0]
    dist_degrees_normals, dist_degrees_inplane = cone_inplane_distance(angles1, angles2, c_symmetry=c_symmetry)

    if rotation_type == "all":
        return dist_degrees, dist_degrees_normals, dist_degrees_inplane
    elif rotation_type == "angular_distance":
        return dist_degrees
    elif rotation_type == "cone_distance":
        return dist_degrees_normals
    elif rotation_type == "in_plane_distance":
        return dist_degrees_inplane
    else:
        raise UserInputError(f"The rotation type {rotation_type} is not supported.")


def euler_angles_to_normals(angles):
    points = visualize_angles(angles, plot_rotations=False)
    n_length = np.linalg.norm(points, axis=1, keepdims=True)
    normalized_normal_vectors = points / n_length

    return normalized_normal_vectors


def normals_to_euler_angles(input_normals, output_order="zxz"):
    if isinstance(input_normals, pd.DataFrame):
        normals = input_normals.loc[:, ["x", "y", "z"]].values
    elif isinstance(input_normals, np.ndarray):
        normals = input_normals
    else:
        raise UserInputError("The input_normals have to be either pandas dataFrame or numpy array")

    # normalize vectors
    normals = normals / np.linalg.norm(normals, axis=1)[:, np.newaxis]
    theta = np.degrees(np.arctan2(np.sqrt(normals[:, 0] ** 2 + normals[:, 1] ** 2), normals[:, 2]))

    psi = 90 + np.degrees(np.arctan2(normals[:, 1], normals[:, 0]))
    b_idx = np.where((normals[:, 0] == 0) & (normals[:, 1] == 0))
    psi[b_idx] = 0

    phi = np.random.rand(normals.shape[0]) * 360

    if output_order == "zzx":
        angles = np.column_stack((phi, psi, theta))
    else:
        angles = np.column_stack((phi, theta, psi))

    return angles


def cone_distance(input_rot1, input_rot2):
    point = [0, 0, 1.0]

    vec1 = np.array(input_rot1.apply(point), ndmin=2)
    vec2 = np.array(input_rot2.apply(point), ndmin=2)

    vec1_n = np.linalg.norm(vec1, axis=1)
    vec1 = vec1 / vec1_n[:, np.newaxis]
    vec2_n = np.linalg.norm(vec2, axis=1)
    vec2 = vec2 / vec2_n[:, np.newaxis]
    cone_angle = np.degrees(np.arccos(np.maximum(np.minimum(np.sum(vec1 * vec2, axis=1), 1.0), -1.0)))

    return cone_angle


def inplane_distance(input_rot1, input_rot2, convention="zxz", degrees=True, c_symmetry=1):
    phi1 = np.array(input_rot1.as_euler(convention, degrees=degrees), ndmin=2)[:, 0]
    phi2 = np.array(input_rot2.as_euler(convention, degrees=degrees), ndmin=2)[:, 0]

    # Remove flot precision errors during conversion
    phi1 = np.where(abs(phi1) < ANGLE_DEGREES_TOL, 0.0, phi1)
    phi2 = np.where(abs(phi2) < ANGLE_DEGREES_TOL, 0.0, phi2)

    # From Scipy the phi is from [-180,180] -> change to [0.0,360]
    phi1 += 180.0
    phi2 += 180.0

    # Get the angular range for symmetry and divide the angles to be only in that range
    if c_symmetry > 1:
        sym_div = 360.0 / c_symmetry
        phi1 = np.mod(phi1, sym_div)
        phi2 = np.mod(phi2, sym_div)

    inplane_angle = np.abs(phi1 - phi2)

    inplane_angle = np.where(inplane_angle > 180.0, np.abs(inplane_angle - 360.0), inplane_angle)

    return inplane_angle


def cone_inplane_distance(input_rot1, input_rot2, convention="zxz", degrees=True, c_symmetry=1):
    if isinstance(input_rot1, np.ndarray):
        rot1 = srot.from_euler(convention, input_rot1, degrees=degrees)
    else:
        rot1 = input_rot1

    if isinstance(input_rot2, np.ndarray):
        rot2 = srot.from_euler(convention, input_rot2, degrees=degrees)
    else:
        rot2 = input_rot2

    cone_angle = cone_distance(rot1, rot2)
    inplane_angle = inplane_distance(rot1, rot2, convention, degrees, c_symmetry)

    return cone_angle, inplane_angle


def angular_distance(input_rot1, input_rot2, convention="zxz", degrees=True, c_symmetry=1):
    if isinstance(input_rot1, np.ndarray):
        rot1 = srot.from_euler(convention, input_rot1, degrees=degrees)
    else:
        rot1 = input_rot1

    if isinstance(input_rot2, np.ndarray):
        rot2 = srot.from_euler(convention, input_rot2, degrees=degrees)
    else:
        rot2 = input_rot2

    if c_symmetry > 1:
        angles1 = rot1.as_euler(convention, degrees=degrees)
        angles2 = rot2.as_euler(convention, degrees=degrees)
        sym_div = 360.0 / c_symmetry
        angles1[:, 0] = np.mod(angles1[:, 0], sym_div)
        angles2[:, 0] = np.mod(angles2[:, 0], sym_div)
        rot1 = srot.from_euler(convention, angles1, degrees=degrees)
        rot2 = srot.from_euler(convention, angles2, degrees=degrees)

    q1 = np.array(rot1.as_quat(), ndmin=2)
    q2 = np.array(rot2.as_quat(), ndmin=2)

    if q1.shape != q2.shape:
        print("The size of input rotations differ!!!")
        return

    angle = np.degrees(2 * np.arccos(np.clip(np.abs(np.sum(q1 * q2, axis=1)), 0.0, 1.0)))
    angle = angle.astype(float)

    dist = 1 - np.power(np.sum(q1 * q2, 1), 2)

    dist[dist < 10e-8] = 0

    return angle, dist


def visualize_rotations(
    rotations,
    plot_rotations=True,
    color_map=None,
    marker_size=20,
    alpha=1.0,
    radius=1.0,
):
    starting_point = np.array([0.0, 0.0, radius])
    new_points = np.array(rotations.apply(starting_point), ndmin=2)

    if plot_rotations:
        fig = plt.figure()
        ax = fig.add_subplot(projection="3d")

        if color_map is None:
            ax.scatter(
                new_points[:, 0],
                new_points[:, 1],
                new_points[:, 2],
                s=marker_size,
                alpha=alpha,
            )
        else:
            ax.scatter(
                new_points[:, 0],
                new_points[:, 1],
                new_points[:, 2],
                s=marker_size,
                alpha=alpha,
                c=color_map,
            )
            # plt.colorbar(color_map)

        ax.set_xlim3d(-radius, radius)
        ax.set_ylim3d(-radius, radius)
        ax.set_zlim3d(-radius, radius)

    return new_points


def angle_between_vectors(vectors1, vectors2):
    dot_products = np.einsum("ij,ij->i", vectors1, vectors2)
    norms1 = np.linalg.norm(vectors1, axis=1)
    norms2 = np.linalg.norm(vectors2, axis=1)

    cosines = dot_products / (norms1 * norms2)
    radians = np.arccos(np.clip(cosines, -1.0, 1.0))
    degrees = np.degrees(radians)

    return degrees


def visualize_angles(angles, plot_rotations=True, color_map=None):
    rotations = srot.from_euler("zxz", angles=angles, degrees=True)
    new_points = visualize_rotations(rotations, plot_rotations, color_map)

    return new_points
'''

_ns = dict(vars(geom))  # the originals see the module's imports / constants, and each other (defined below)
exec(compile(ORIGINAL, "<original geom functions>", "exec"), _ns)


class _Orig:
    pass


orig = _Orig()
NAMES = [
    "compare_rotations", "euler_angles_to_normals", "normals_to_euler_angles", "cone_distance", "inplane_distance",
    "cone_inplane_distance", "angular_distance", "visualize_rotations", "angle_between_vectors", "visualize_angles",
]
for _n in NAMES:
    setattr(orig, _n, _ns[_n])
    assert getattr(geom, _n) is not _ns[_n]

FAIL = []
NCHECK = [0]


def check(cond, msg):
    NCHECK[0] += 1
    if not cond:
        FAIL.append(msg)
        if len(FAIL) <= 25:
            print("FAIL:", msg)


# --------------------------------------------------------------------------------------------------------
# independent ground truth
# --------------------------------------------------------------------------------------------------------
def Rz(a):
    c, s = np.cos(a), np.sin(a)
    o, z = np.ones_like(a), np.zeros_like(a)
    return np.stack([np.stack([c, -s, z], -1), np.stack([s, c, z], -1), np.stack([z, z, o], -1)], -2)


def Rx(a):
    c, s = np.cos(a), np.sin(a)
    o, z = np.ones_like(a), np.zeros_like(a)
    return np.stack([np.stack([o, z, z], -1), np.stack([z, c, -s], -1), np.stack([z, s, c], -1)], -2)


def zxz_matrix(angles_deg):
    """extrinsic zxz (phi, theta, psi): R = Rz(psi) Rx(theta) Rz(phi) -- written out, no scipy"""
    a = np.radians(np.atleast_2d(np.asarray(angles_deg, dtype=float)))
    return Rz(a[:, 2]) @ Rx(a[:, 1]) @ Rz(a[:, 0])


def zaxis_from_angles(angles_deg):
    a = np.radians(np.atleast_2d(np.asarray(angles_deg, dtype=float)))
    th, ps = a[:, 1], a[:, 2]
    return np.column_stack([np.sin(ps) * np.sin(th), -np.cos(ps) * np.sin(th), np.cos(th)])


def rotation_angle_deg(M):
    """rotation angle of matrices (n,3,3) by atan2(|skew part|, trace part): accurate near 0 and near 180"""
    s = 0.5 * np.sqrt(
        (M[:, 2, 1] - M[:, 1, 2]) ** 2 + (M[:, 0, 2] - M[:, 2, 0]) ** 2 + (M[:, 1, 0] - M[:, 0, 1]) ** 2
    )
    c = 0.5 * (np.trace(M, axis1=1, axis2=2) - 1.0)
    return np.degrees(np.arctan2(s, c))


def vec_angle_deg(u, v):
    return np.degrees(np.arctan2(np.linalg.norm(np.cross(u, v), axis=1), np.sum(u * v, axis=1)))


def mats(rot):
    m = rot.as_matrix()
    return m.reshape(-1, 3, 3)


TOL = 1e-5  # degrees; 2*acos|q1.q2| has sqrt(eps) conditioning near 0 (about 4e-6 degrees on the clean tree)


def identical(x, y):
    """bit-identical results (same nesting, type, dtype, shape, values; NaN == NaN)"""
    if isinstance(x, tuple) or isinstance(y, tuple):
        return (
            isinstance(x, tuple) and isinstance(y, tuple) and len(x) == len(y)
            and all(identical(a, b) for a, b in zip(x, y))
        )
    if x is None or y is None:
        return x is None and y is None
    if type(x) is not type(y):
        return False
    x = np.asarray(x)
    y = np.asarray(y)
    return x.dtype == y.dtype and x.shape == y.shape and np.array_equal(x, y, equal_nan=(x.dtype.kind == "f"))


def run(f, args, kwargs, seed):
    np.random.seed(seed)
    out = io.StringIO()
    try:
        with contextlib.redirect_stdout(out), warnings.catch_warnings():
            warnings.simplefilter("ignore")
            res = f(*args, **kwargs)
        exc = None
    except Exception as e:  # noqa
        res, exc = None, type(e)
    state = np.random.get_state()
    return res, exc, out.getvalue(), state


def same_state(s1, s2):
    return s1[0] == s2[0] and np.array_equal(s1[1], s2[1]) and s1[2:] == s2[2:]


def snapshot(a):
    if isinstance(a, np.ndarray):
        return a.copy()
    if isinstance(a, pd.DataFrame):
        return a.copy(deep=True)
    if isinstance(a, srot):
        return a.as_quat().copy()
    return a


def unchanged(a, snap):
    if isinstance(a, np.ndarray):
        return a.dtype == snap.dtype and np.array_equal(a, snap, equal_nan=a.dtype.kind == "f")
    if isinstance(a, pd.DataFrame):
        return a.equals(snap) and a.index.equals(snap.index) and list(a.columns) == list(snap.columns)
    if isinstance(a, srot):
        return np.array_equal(a.as_quat(), snap)
    return True


def both(name, *args, seed=12345, **kwargs):
    """tree's function vs original text on the same inputs: result, exception type, stdout, random state, inputs"""
    snaps = [snapshot(a) for a in args]
    r_o, e_o, p_o, s_o = run(getattr(orig, name), args, kwargs, seed)
    check(all(unchanged(a, s) for a, s in zip(args, snaps)), f"{name}: original mutated its input")
    r_n, e_n, p_n, s_n = run(getattr(geom, name), args, kwargs, seed)
    check(all(unchanged(a, s) for a, s in zip(args, snaps)), f"{name}: tree's function mutated its input")
    check(e_o is e_n, f"{name}: exception {e_n} vs original {e_o}")
    check(identical(r_o, r_n), f"{name}: result differs from the original function  kwargs={kwargs}")
    check(p_o == p_n, f"{name}: printed output differs")
    check(same_state(s_o, s_n), f"{name}: random state after the call differs")
    # repeated call on the same objects gives the same again
    r_n2, e_n2, _, _ = run(getattr(geom, name), args, kwargs, seed)
    check(e_n2 is e_n and identical(r_n, r_n2), f"{name}: second call on the same objects differs")
    return r_n


# --------------------------------------------------------------------------------------------------------
# inputs inside the quantifier
# --------------------------------------------------------------------------------------------------------
rng = np.random.default_rng(20260928)


def euler_lattice(step=45):
    phi = np.arange(0, 360, step)
    theta = np.arange(0, 180 + step, step)
    psi = np.arange(0, 360, step)
    return np.array(list(itertools.product(phi, theta, psi)), dtype=float)


LATTICE = euler_lattice()  # 8*5*8 = 320 triplets incl. the poles theta = 0, 180
CUBE = srot.create_group("O")  # the 24 cube rotations
assert len(CUBE) == 24


def gimbal(n):
    th = rng.choice([0.0, 180.0], size=n)
    return np.column_stack([rng.uniform(-180, 180, n), th, rng.uniform(-180, 180, n)])


def near(rot, eps):
    n = len(rot)
    return rot * srot.from_rotvec(rng.normal(size=(n, 3)) * eps)


def antipodal(rot):
    """rot composed with a half turn about a random axis -> distance exactly 180"""
    n = len(rot)
    ax = rng.normal(size=(n, 3))
    ax /= np.linalg.norm(ax, axis=1, keepdims=True)
    return rot * srot.from_rotvec(ax * np.pi)


def pair_sets():
    sets = []
    for n in (1, 2, 3, 7, 64, 499, 500):
        r1 = srot.random(n, random_state=int(rng.integers(1 << 30)))
        r2 = srot.random(n, random_state=int(rng.integers(1 << 30)))
        sets.append((f"random{n}", r1, r2))
        sets.append((f"equal{n}", r1, r1))
        sets.append((f"equalcopy{n}", r1, srot.from_quat(r1.as_quat().copy())))
        sets.append((f"negquat{n}", r1, srot.from_quat(-r1.as_quat())))
        for eps in (1e-12, 1e-9, 1e-6, 1e-3):
            sets.append((f"near{n}_{eps}", r1, near(r1, eps)))
        sets.append((f"antipodal{n}", r1, antipodal(r1)))
        sets.append((f"antipodal_near{n}", r1, near(antipodal(r1), 1e-7)))
        g1 = srot.from_euler("zxz", gimbal(n), degrees=True)
        g2 = srot.from_euler("zxz", gimbal(n), degrees=True)
        sets.append((f"gimbal{n}", g1, g2))
        sets.append((f"gimbal_vs_random{n}", g1, r2))
    # the 24 cube rotations, all ordered pairs
    i, j = np.divmod(np.arange(24 * 24), 24)
    sets.append(("cube", CUBE[i], CUBE[j]))
    # Euler lattice in 45 degree steps: all pairs of a 320-element lattice
    i, j = np.divmod(np.arange(len(LATTICE) ** 2), len(LATTICE))
    lat = srot.from_euler("zxz", LATTICE, degrees=True)
    sets.append(("lattice", lat[i], lat[j]))
    return sets


PAIRS = pair_sets()


# --------------------------------------------------------------------------------------------------------
# Part 1: the property, against the independent computation
# --------------------------------------------------------------------------------------------------------
def property_distances():
    for label, r1, r2 in PAIRS:
        n = len(r1)
        M1, M2 = mats(r1), mats(r2)
        res = geom.angular_distance(r1, r2)
        check(isinstance(res, tuple) and len(res) == 2, f"angular_distance[{label}] returns (angle, dist)")
        ang, dist = res
        check(ang.shape == (n,) and ang.dtype == np.float64, f"angular_distance[{label}] shape/dtype")
        truth = rotation_angle_deg(np.transpose(M1, (0, 2, 1)) @ M2)
        check(np.all(np.isfinite(ang)), f"angular_distance[{label}] finite (no NaN for equal rotations)")
        check(np.all(ang >= 0.0) and np.all(ang <= 180.0), f"angular_distance[{label}] in [0,180]")
        check(np.allclose(ang, truth, rtol=0, atol=TOL), f"angular_distance[{label}] = angle of relative rotation "
              f"(max dev {np.max(np.abs(ang - truth)):.3g})")
        check(np.allclose(dist, np.sin(np.radians(truth) / 2) ** 2, rtol=0, atol=2e-7),
              f"angular_distance[{label}] second value = sin^2(angle/2)")
        # symmetric
        ang_t = geom.angular_distance(r2, r1)[0]
        check(np.array_equal(ang, ang_t), f"angular_distance[{label}] symmetric")
        if label.startswith("equal") or label.startswith("negquat"):
            check(np.all(ang <= TOL), f"angular_distance[{label}] zero for equal rotations")
        if label.startswith("antipodal") and "near" not in label:
            check(np.all(np.abs(ang - 180.0) <= TOL), f"angular_distance[{label}] 180 for half turns")
        # zero only for equal rotations
        check(np.all(ang[truth > 1e-4] > 1e-4 - TOL), f"angular_distance[{label}] nonzero for different rotations")
        # common rotation on either side
        g = srot.random(n, random_state=int(rng.integers(1 << 30)))
        g1 = srot.random(random_state=int(rng.integers(1 << 30)))
        for lab2, a, b in (("left", g * r1, g * r2), ("right", r1 * g, r2 * g), ("left1", g1 * r1, g1 * r2),
                           ("right1", r1 * g1, r2 * g1)):
            inv = geom.angular_distance(a, b)[0]
            check(np.allclose(inv, ang, rtol=0, atol=TOL), f"angular_distance[{label}] invariant under common {lab2} "
                  f"rotation (max dev {np.max(np.abs(inv - ang)):.3g})")
        # triangle inequality with a third rotation (random, one of the pair, near one of the pair)
        for r3 in (g, r1, near(r2, 1e-6), antipodal(r1)):
            d13 = geom.angular_distance(r1, r3)[0]
            d32 = geom.angular_distance(r3, r2)[0]
            check(np.all(ang <= d13 + d32 + TOL), f"angular_distance[{label}] triangle inequality")

        # Euler-angle (ndarray) inputs give the same as Rotation inputs built from them
        e1 = r1.as_euler("zxz", degrees=True)
        e2 = r2.as_euler("zxz", degrees=True)
        with warnings.catch_warnings():
            warnings.simplefilter("ignore")
            ang_e = geom.angular_distance(e1, e2)[0]
        truth_e = rotation_angle_deg(np.transpose(zxz_matrix(e1), (0, 2, 1)) @ zxz_matrix(e2))
        check(np.allclose(ang_e, truth_e, rtol=0, atol=TOL), f"angular_distance[{label}] Euler input vs explicit matrices")

        # cone distance = angle between the two z-axes
        cone = geom.cone_distance(r1, r2)
        ctruth = vec_angle_deg(M1[:, :, 2], M2[:, :, 2])
        check(cone.shape == (n,), f"cone_distance[{label}] shape")
        check(np.all(np.isfinite(cone)) and np.all(cone >= 0) and np.all(cone <= 180), f"cone_distance[{label}] in [0,180]")
        check(np.allclose(cone, ctruth, rtol=0, atol=TOL), f"cone_distance[{label}] = angle between z axes "
              f"(max dev {np.max(np.abs(cone - ctruth)):.3g})")
        # in-plane distance in [0,180], zero for equal orientations
        with warnings.catch_warnings():
            warnings.simplefilter("ignore")
            inpl = geom.inplane_distance(r1, r2)
            cone2, inpl2 = geom.cone_inplane_distance(r1, r2)
            allthree = geom.compare_rotations(r1, r2)
        check(inpl.shape == (n,) and np.all(inpl >= 0) and np.all(inpl <= 180.0), f"inplane_distance[{label}] in [0,180]")
        if label.startswith("equal") and not label.startswith("equalcopy"):
            check(np.all(inpl == 0.0), f"inplane_distance[{label}] zero for equal orientations")
            check(np.all(cone <= TOL), f"cone_distance[{label}] zero for equal orientations")
        check(np.array_equal(cone, cone2) and np.array_equal(inpl, inpl2), f"cone_inplane_distance[{label}] = (cone, inplane)")
        check(np.array_equal(allthree[0], ang) and np.array_equal(allthree[1], cone) and np.array_equal(allthree[2], inpl),
              f"compare_rotations[{label}] = the three distances")

    # single (non-batched) Rotation objects
    for e1, e2 in ([[0, 0, 0], [45, 45, 0]], [[10, 20, 30], [10, 20, 30]], [[0, 0, 0], [0, 180, 0]],
                   [[12, 0, 33], [-50, 180, 7]], [[0, 0, 0], [180, 0, 0]]):
        r1 = srot.from_euler("zxz", e1, degrees=True)
        r2 = srot.from_euler("zxz", e2, degrees=True)
        M1, M2 = zxz_matrix(e1), zxz_matrix(e2)
        ang = geom.angular_distance(r1, r2)[0]
        check(ang.shape == (1,) and abs(ang[0] - rotation_angle_deg(np.transpose(M1, (0, 2, 1)) @ M2)[0]) <= TOL,
              f"angular_distance single {e1} {e2}")
        cone = geom.cone_distance(r1, r2)
        check(cone.shape == (1,) and abs(cone[0] - vec_angle_deg(M1[:, :, 2], M2[:, :, 2])[0]) <= TOL,
              f"cone_distance single {e1} {e2}")
        with warnings.catch_warnings():
            warnings.simplefilter("ignore")
            inpl = geom.inplane_distance(r1, r2)
        check(inpl.shape == (1,) and 0 <= inpl[0] <= 180, f"inplane_distance single {e1} {e2}")
        if e1 == e2:
            check(inpl[0] == 0 and ang[0] <= TOL and cone[0] <= TOL, "single equal orientations -> all distances zero")


def angle_batches():
    out = []
    for n in (1, 2, 3, 10, 255, 500):
        out.append((f"rand{n}", rng.uniform(-360, 360, size=(n, 3))))
        out.append((f"gimbal{n}", gimbal(n)))
        out.append((f"int{n}", rng.integers(-360, 361, size=(n, 3))))
        out.append((f"same{n}", np.tile(rng.uniform(-180, 180, size=(1, 3)), (n, 1))))
    out.append(("lattice", LATTICE))
    out.append(("lattice_int", LATTICE.astype(np.int64)))
    out.append(("cube", CUBE.as_euler("zxz", degrees=True)))
    out.append(("zeros", np.zeros((5, 3))))
    out.append(("poles", np.array([[0.0, 0, 0], [0, 180, 0], [90, 0, 90], [90, 180, -90], [0, 90, 0], [0, 90, 90]])))
    out.append(("single1d", np.array([10.0, 20.0, 30.0])))
    out.append(("single1d_int", np.array([10, 20, 30])))
    out.append(("float32", rng.uniform(-180, 180, size=(9, 3)).astype(np.float32)))
    return out


ANGLES = angle_batches()


def property_euler_to_normals():
    for label, ang in ANGLES:
        with warnings.catch_warnings():
            warnings.simplefilter("ignore")
            nrm = geom.euler_angles_to_normals(ang)
        n = np.atleast_2d(ang).shape[0]
        check(isinstance(nrm, np.ndarray) and nrm.shape == (n, 3), f"euler_angles_to_normals[{label}] one vector per orientation")
        check(np.allclose(np.linalg.norm(nrm, axis=1), 1.0, rtol=0, atol=1e-12), f"euler_angles_to_normals[{label}] unit length")
        check(np.allclose(nrm, zaxis_from_angles(ang), rtol=0, atol=1e-9), f"euler_angles_to_normals[{label}] = image of z axis")
        check(np.allclose(nrm, zxz_matrix(ang)[:, :, 2], rtol=0, atol=1e-9), f"euler_angles_to_normals[{label}] = 3rd matrix column")
        with warnings.catch_warnings():
            warnings.simplefilter("ignore")
            pts = geom.visualize_angles(ang, plot_rotations=False)
            pts2 = geom.visualize_rotations(srot.from_euler("zxz", ang, degrees=True), plot_rotations=False, radius=2.5)
        check(pts.shape == (n, 3) and np.allclose(pts, zaxis_from_angles(ang), rtol=0, atol=1e-9), f"visualize_angles[{label}]")
        check(np.allclose(pts2, 2.5 * zaxis_from_angles(ang), rtol=0, atol=1e-9), f"visualize_rotations[{label}] radius")


def normal_batches():
    out = []
    for n in (1, 2, 3, 10, 255, 500):
        v = rng.normal(size=(n, 3))
        out.append((f"rand{n}", v))
        out.append((f"long{n}", v * rng.uniform(1e-3, 1e4, size=(n, 1))))
        out.append((f"unit{n}", v / np.linalg.norm(v, axis=1, keepdims=True)))
        out.append((f"int{n}", rng.integers(1, 9, size=(n, 3)) * rng.choice([-1, 1], size=(n, 3))))
    axes = np.array([[1, 0, 0], [-1, 0, 0], [0, 1, 0], [0, -1, 0], [0, 0, 1], [0, 0, -1]], dtype=float)
    out.append(("axes", axes))
    out.append(("axes_int", axes.astype(np.int64)))
    out.append(("axes_long", axes * 37.5))
    out.append(("plus_z", np.array([[0.0, 0.0, 1.0]])))
    out.append(("minus_z", np.array([[0.0, 0.0, -4.0]])))
    out.append(("negzero_z", np.array([[-0.0, 0.0, 2.0], [0.0, -0.0, -2.0], [-0.0, -0.0, 1.0]])))
    out.append(("near_z", np.array([[1e-9, 0.0, 1.0], [0.0, -1e-9, -1.0], [1e-300, 1e-300, 1.0]])))
    out.append(("xy_plane", np.array([[1.0, 1.0, 0.0], [-2.0, 1.0, 0.0], [0.0, -3.0, 0.0], [5.0, 0.0, 0.0]])))
    out.append(("y_zero", np.array([[1.0, 0.0, 1.0], [-1.0, 0.0, 1.0], [2.0, 0.0, -1.0]])))
    out.append(("float32", rng.normal(size=(11, 3)).astype(np.float32)))
    out.append(("fortran", np.asfortranarray(rng.normal(size=(6, 3)))))
    out.append(("view", rng.normal(size=(12, 6))[::2, 1:4]))
    return out


NORMALS = normal_batches()


def as_frames(label, v):
    """DataFrame versions: default index, non-default / duplicated row index, extra columns in another order"""
    n = v.shape[0]
    d0 = pd.DataFrame(v, columns=["x", "y", "z"])
    d1 = pd.DataFrame(v, columns=["x", "y", "z"], index=np.arange(n)[::-1] * 3 + 100)
    d2 = pd.DataFrame({"score": np.arange(n, dtype=float), "z": v[:, 2], "y": v[:, 1], "x": v[:, 0]}, index=[7] * n)
    return [(label + "_df", d0), (label + "_df_idx", d1), (label + "_df_cols", d2)]


def check_normals_result(label, v, ang, order):
    n = v.shape[0]
    check(isinstance(ang, np.ndarray) and ang.shape == (n, 3) and ang.dtype == np.float64, f"normals_to_euler_angles[{label},{order}] shape")
    zxz = ang[:, [0, 2, 1]] if order == "zzx" else ang  # zzx output is stored as (phi, psi, theta)
    vf = np.asarray(v, dtype=float)
    unit = vf / np.sqrt(np.sum(vf * vf, axis=1))[:, None]
    check(np.all((zxz[:, 0] >= 0) & (zxz[:, 0] < 360)), f"normals_to_euler_angles[{label},{order}] phi in [0,360)")
    tol = 1e-6 if v.dtype == np.float32 else 1e-9
    check(np.allclose(zaxis_from_angles(zxz), unit, rtol=0, atol=tol), f"normals_to_euler_angles[{label},{order}] z-axis = normalised normal")
    z2 = mats(srot.from_euler("zxz", zxz, degrees=True))[:, :, 2]
    check(np.allclose(z2, unit, rtol=0, atol=tol), f"normals_to_euler_angles[{label},{order}] z-axis (scipy) = normalised normal")
    # round trip through euler_angles_to_normals
    if order == "zxz":
        back = geom.euler_angles_to_normals(ang)
        check(np.allclose(back, unit, rtol=0, atol=tol), f"normals -> angles -> normals round trip [{label}]")
    # normals along z: psi is reset to 0, theta is 0 / 180
    along = (vf[:, 0] == 0) & (vf[:, 1] == 0)
    if along.any():
        check(np.all(zxz[along, 2] == 0.0), f"normals_to_euler_angles[{label},{order}] psi = 0 along z")
        check(np.all(zxz[along, 1] == np.where(vf[along, 2] > 0, 0.0, 180.0)), f"normals_to_euler_angles[{label},{order}] theta at poles")


def property_normals_to_euler():
    for label, v in NORMALS:
        for order in ("zxz", "zzx"):
            np.random.seed(int(rng.integers(1 << 30)))
            ang = geom.normals_to_euler_angles(v, output_order=order)
            check_normals_result(label, v, ang, order)
        ang = geom.normals_to_euler_angles(v)
        check_normals_result(label, v, ang, "zxz")
        for lab2, df in as_frames(label, v):
            for order in ("zxz", "zzx"):
                ang = geom.normals_to_euler_angles(df, output_order=order)
                check_normals_result(lab2, v, ang, order)


# --------------------------------------------------------------------------------------------------------
# Part 2: the tree's functions next to the original text
# --------------------------------------------------------------------------------------------------------
def compare_with_original():
    for label, r1, r2 in PAIRS:
        if label in ("lattice",):
            sel = rng.choice(len(r1), size=4000, replace=False)
            r1, r2 = r1[sel], r2[sel]
        both("angular_distance", r1, r2)
        both("cone_distance", r1, r2)
        both("inplane_distance", r1, r2)
        both("cone_inplane_distance", r1, r2)
        both("compare_rotations", r1, r2)
        both("visualize_rotations", r1, plot_rotations=False)
        both("visualize_rotations", r2, plot_rotations=False, radius=3.0)
        if len(r1) > 1:
            for c in (2, 3, 6):
                both("angular_distance", r1, r2, c_symmetry=c)
                both("inplane_distance", r1, r2, c_symmetry=c)
                both("cone_inplane_distance", r1, r2, c_symmetry=c)
                both("compare_rotations", r1, r2, c_symmetry=c)
            for rt in ("angular_distance", "cone_distance", "in_plane_distance", "nonsense"):
                both("compare_rotations", r1, r2, rotation_type=rt)
            e1 = r1.as_euler("zxz", degrees=True)
            e2 = r2.as_euler("zxz", degrees=True)
            both("angular_distance", e1, e2)
            both("angular_distance", e1, r2)
            both("cone_inplane_distance", e1, e2)
            both("compare_rotations", e1, e2)
            both("angular_distance", np.radians(e1), np.radians(e2), degrees=False)
            both("angular_distance", r1.as_euler("zyz", degrees=True), r2.as_euler("zyz", degrees=True), convention="zyz")
            both("inplane_distance", r1, r2, convention="zyz")
            M1, M2 = mats(r1), mats(r2)
            both("angle_between_vectors", M1[:, :, 2], M2[:, :, 2])
            both("angle_between_vectors", M1[:, :, 2], M1[:, :, 2])
            both("angle_between_vectors", M1[:, :, 2] * 3.0, -M1[:, :, 2])
    # single rotations and size mismatch (prints and returns None)
    one = srot.from_euler("zxz", [10, 20, 30], degrees=True)
    two = srot.from_euler("zxz", [-70, 160, 3], degrees=True)
    for a, b in ((one, one), (one, two), (two, one)):
        both("angular_distance", a, b)
        both("cone_distance", a, b)
        both("inplane_distance", a, b)
        both("cone_inplane_distance", a, b)
        both("compare_rotations", a, b)
        both("visualize_rotations", a, plot_rotations=False)
    both("angular_distance", srot.random(3, random_state=1), srot.random(4, random_state=2))
    both("angular_distance", np.array([10.0, 20.0, 30.0]), np.array([[10.0, 20.0, 30.0]]))
    both("angle_between_vectors", np.array([[1, 0, 0], [0, 1, 0], [0, 0, 1]]), np.array([[0, 1, 0], [0, 0, 1], [1, 0, 0]]))

    for label, ang in ANGLES:
        both("euler_angles_to_normals", ang)
        both("visualize_angles", ang, plot_rotations=False)
    both("euler_angles_to_normals", np.zeros((0, 3)))
    both("euler_angles_to_normals", [[1.0, 2.0, 3.0], [4.0, 5.0, 6.0]])
    # plotting branch (Agg backend)
    import matplotlib.pyplot as plt
    both("visualize_angles", ANGLES[0][1], plot_rotations=True)
    both("visualize_rotations", CUBE, plot_rotations=True, color_map=np.arange(24.0))
    plt.close("all")

    for label, v in NORMALS:
        for seed in (0, 99):
            both("normals_to_euler_angles", v, seed=seed)
            both("normals_to_euler_angles", v, seed=seed, output_order="zzx")
            both("normals_to_euler_angles", v, "zxz", seed=seed)
        for lab2, df in as_frames(label, v):
            both("normals_to_euler_angles", df)
            both("normals_to_euler_angles", df, output_order="zzx")
    both("normals_to_euler_angles", np.zeros((0, 3)))
    both("normals_to_euler_angles", pd.DataFrame(np.zeros((0, 3)), columns=["x", "y", "z"]))
    both("normals_to_euler_angles", np.array([[0.0, 0.0, 0.0], [1.0, 2.0, 3.0]]))  # zero vector -> NaN row, same in both
    both("normals_to_euler_angles", np.array([[np.nan, 0.0, 1.0], [1.0, 2.0, 3.0]]))
    both("normals_to_euler_angles", rng.normal(size=(5, 4)))  # wider array: never failed, treatment unchanged
    both("normals_to_euler_angles", [[0.0, 0.0, 1.0]])  # list -> UserInputError in both
    both("normals_to_euler_angles", (0.0, 0.0, 1.0))
    both("normals_to_euler_angles", None)
    # a consecutive pair of calls draws consecutive random numbers in both versions
    v = NORMALS[0][1]
    np.random.seed(5)
    a1, a2 = orig.normals_to_euler_angles(v), orig.normals_to_euler_angles(v)
    np.random.seed(5)
    b1, b2 = geom.normals_to_euler_angles(v), geom.normals_to_euler_angles(v)
    check(identical(a1, b1) and identical(a2, b2) and not np.array_equal(b1, b2), "normals_to_euler_angles: consecutive calls draw the same random numbers")


# --------------------------------------------------------------------------------------------------------
# Part 3: change-specific checks (hold on the clean tree and with each patch)
# --------------------------------------------------------------------------------------------------------
def outside_quantifier_raises():
    """wrong shapes that fail already on the clean tree must keep failing (patch b only names the error)"""
    bad = [np.array([0.0, 0.0, 1.0]), np.array(1.0), np.zeros((4, 2)), np.zeros((4, 1)), np.zeros((0, 2)), np.zeros((3, 0))]
    for b in bad:
        for f in (orig.normals_to_euler_angles, geom.normals_to_euler_angles):
            try:
                with warnings.catch_warnings():
                    warnings.simplefilter("ignore")
                    f(b)
                raised = None
            except Exception as e:  # noqa
                raised = e
            check(raised is not None, f"normals of shape {b.shape} are refused")
            check(isinstance(raised, (ValueError, IndexError)), f"normals of shape {b.shape}: {type(raised)}")
    for f in (orig.normals_to_euler_angles, geom.normals_to_euler_angles):
        for b in ([[0, 0, 1]], "001", 3):
            try:
                f(b)
                raised = None
            except UserInputError as e:
                raised = e
            check(raised is not None, "non-array normals raise UserInputError")


def diagnostics_are_silent_and_side_effect_free():
    """everything again with DEBUG logging switched on for the whole cryocat hierarchy: same results, same random state"""
    stream = io.StringIO()
    log_errors = []

    class Handler(logging.StreamHandler):
        def handleError(self, record):  # a formatting error inside a log call must not go unnoticed
            log_errors.append(record)

    handler = Handler(stream)
    root = logging.getLogger()
    old_level = root.level
    lg = logging.getLogger("cryocat")
    lg_old = lg.level
    root.addHandler(handler)
    root.setLevel(logging.DEBUG)
    lg.setLevel(logging.DEBUG)
    try:
        r1 = srot.random(50, random_state=3)
        r2 = near(r1, 1e-9)
        for a, b in ((r1, r2), (r1, r1), (CUBE[:12], CUBE[12:])):
            both("angular_distance", a, b)
            both("cone_distance", a, b)
            both("inplane_distance", a, b)
            both("cone_inplane_distance", a, b)
            both("compare_rotations", a, b, c_symmetry=4)
        both("angular_distance", srot.random(3, random_state=1), srot.random(4, random_state=2))
        for label, ang in ANGLES[:8] + ANGLES[-6:]:
            both("euler_angles_to_normals", ang)
        both("euler_angles_to_normals", np.zeros((0, 3)))
        for label, v in NORMALS[:6] + NORMALS[-12:]:
            both("normals_to_euler_angles", v, seed=4)
            both("normals_to_euler_angles", v, seed=4, output_order="zzx")
            for lab2, df in as_frames(label, v):
                both("normals_to_euler_angles", df)
        both("normals_to_euler_angles", np.zeros((0, 3)))
        both("normals_to_euler_angles", np.array([[0.0, 0.0, 0.0], [np.nan, 2.0, 3.0]]))
    finally:
        root.removeHandler(handler)
        root.setLevel(old_level)
        lg.setLevel(lg_old)
    # whatever was logged went to the logging system, never to stdout (both() compares stdout) - and without errors
    check(not log_errors and "Traceback" not in stream.getvalue(), "a log call raised an error")


def main():
    np.seterr(all="ignore")
    warnings.filterwarnings("ignore")  # scipy's gimbal-lock warnings of as_euler
    property_distances()
    property_euler_to_normals()
    property_normals_to_euler()
    compare_with_original()
    outside_quantifier_raises()
    diagnostics_are_silent_and_side_effect_free()
    print(f"{NCHECK[0]} checks, {len(FAIL)} failed")
    if FAIL:
        print("FAIL")
        sys.exit(1)
    print("PASS")


if __name__ == "__main__":
    main()
