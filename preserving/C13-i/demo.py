import sys, os

sys.path.insert(0, os.getcwd())

import hashlib
import tempfile
import warnings

import numpy as np

warnings.filterwarnings("ignore", category=SyntaxWarning)

from cryocat import cryomask as cm
from cryocat import cryomap

FAILS = []
NCHECKS = [0]


def check(cond, msg):
    NCHECKS[0] += 1
    if not cond:
        FAILS.append(msg)
        if len(FAILS) < 30:
            print("FAIL:", msg)


# ----------------------------------------------------------------------------------------------------------------
# independent references (integer arithmetic on index grids; nothing from cryocat is used here)
# ----------------------------------------------------------------------------------------------------------------
def grids(size):
    return np.ogrid[0 : size[0], 0 : size[1], 0 : size[2]]


def sphere_ref(size, c, r):
    i, j, k = grids(size)
    d2 = (i - c[0]) ** 2 + (j - c[1]) ** 2 + (k - c[2]) ** 2
    if r < 0:
        return np.zeros(size, dtype=bool)
    return d2 <= r * r  # r is an integer or a half-integer: r*r is exact


def cylinder_ref(size, c, r, h):
    i, j, k = grids(size)
    d2 = (i - c[0]) ** 2 + (j - c[1]) ** 2
    return (d2 <= r * r) & (np.abs(k - c[2]) <= h // 2)


def ellipsoid_ref(size, c, radii):
    """exact: sum(d_a^2/r_a^2) <= 1  <=>  sum(d_a^2 * prod_{b!=a} r_b^2) <= prod r_b^2 (python/int64 integers).
    Returns (inside, on_boundary)."""
    r0, r1, r2 = (int(x) for x in radii)
    if r0 == 0 or r1 == 0 or r2 == 0:
        z = np.zeros(size, dtype=bool)
        return z, z
    i, j, k = grids(size)
    lhs = (
        ((i - c[0]) ** 2).astype(np.int64) * (r1 * r2) ** 2
        + ((j - c[1]) ** 2).astype(np.int64) * (r0 * r2) ** 2
        + ((k - c[2]) ** 2).astype(np.int64) * (r0 * r1) ** 2
    )
    rhs = (r0 * r1 * r2) ** 2
    return lhs <= rhs, lhs == rhs


def as_bool(mask):
    m = np.asarray(mask)
    check(np.all((m == 0) | (m == 1)), "hard mask has values other than 0 and 1")
    return m != 0


def rand_size(rng, even=False):
    if even:
        return tuple(int(x) for x in 2 * rng.integers(3, 25, 3))
    return tuple(int(x) for x in rng.integers(6, 49, 3))


def rand_center(rng, size):
    pick = rng.integers(0, 4)
    if pick == 0:
        return tuple(int(s) // 2 for s in size)
    if pick == 1:  # corners / faces
        return tuple(int(rng.choice([0, s - 1])) for s in size)
    return tuple(int(rng.integers(0, s)) for s in size)


def size_variants(rng, size):
    pick = rng.integers(0, 3)
    return [tuple(size), list(size), np.asarray(size)][pick]


# ----------------------------------------------------------------------------------------------------------------
# hard shapes
# ----------------------------------------------------------------------------------------------------------------
def check_hard_shapes(rng, n=60):
    for t in range(n):
        size = rand_size(rng)
        c = rand_center(rng, size)
        r = int(rng.integers(1, max(size) + 6))
        m = cm.spherical_mask(size_variants(rng, size), radius=r, center=size_variants(rng, c))
        check(m.shape == size, f"sphere shape {size}")
        check(np.array_equal(as_bool(m), sphere_ref(size, c, r)), f"sphere size={size} c={c} r={r}")

        # defaults: centre = size//2, radius = min(size)//2 ; cubic box from a single number
        m = cm.spherical_mask(size)
        check(
            np.array_equal(as_bool(m), sphere_ref(size, [s // 2 for s in size], min(size) // 2)),
            f"sphere defaults size={size}",
        )
        n1 = int(rng.integers(6, 49))
        m = cm.spherical_mask(n1, radius=r)
        check(np.array_equal(as_bool(m), sphere_ref((n1,) * 3, (n1 // 2,) * 3, r)), f"sphere cubic n={n1} r={r}")

        # cylinder; the z extent is kept inside the box
        half = int(rng.integers(0, (size[2] - 1) // 2 + 1))
        h = 2 * half + int(rng.integers(0, 2))
        h = max(h, 1)
        cz = int(rng.integers(h // 2, size[2] - h // 2))
        cc = (c[0], c[1], cz)
        rc = int(rng.integers(1, max(size[:2]) + 6))
        m = cm.cylindrical_mask(size_variants(rng, size), radius=rc, height=h, center=cc)
        check(np.array_equal(as_bool(m), cylinder_ref(size, cc, rc, h)), f"cylinder size={size} c={cc} r={rc} h={h}")
        m2 = cm.cylindrical_mask(size, radius=rc, height=h, center=cc, angles=np.zeros(3))
        check(np.array_equal(m, m2), "cylinder with zero angles differs")

        # spherical shell
        th = int(rng.integers(1, 8))
        rs = int(rng.integers(1, max(size)))
        m = cm.spherical_shell_mask(size, th, radius=rs, center=c)
        ref = sphere_ref(size, c, rs + th / 2) & ~sphere_ref(size, c, rs - th / 2)
        check(np.array_equal(as_bool(m), ref), f"s_shell size={size} c={c} r={rs} t={th}")

        # ellipsoids on even boxes
        esize = rand_size(rng, even=True)
        ec = rand_center(rng, esize)
        radii = tuple(int(x) for x in rng.integers(1, max(esize) // 2 + 8, 3))
        m = cm.ellipsoid_mask(size_variants(rng, esize), radii=size_variants(rng, radii), center=ec)
        inside, _ = ellipsoid_ref(esize, ec, radii)
        check(m.shape == esize, "ellipsoid shape")
        check(np.array_equal(as_bool(m), inside), f"ellipsoid size={esize} c={ec} radii={radii}")
        m = cm.ellipsoid_mask(esize)
        inside, _ = ellipsoid_ref(esize, [s // 2 for s in esize], [s // 2 for s in esize])
        check(np.array_equal(as_bool(m), inside), f"ellipsoid defaults size={esize}")

        # ellipsoid shell: radii +- t/2 are truncated to integers by the format helper
        th = int(rng.integers(1, 6))
        radii = tuple(int(x) for x in rng.integers((th + 1) // 2 + 1, max(esize) // 2 + 6, 3))
        m = cm.ellipsoid_shell_mask(esize, th, radii, center=ec)
        outer, _ = ellipsoid_ref(esize, ec, [int(x + th / 2) for x in radii])
        inner, _ = ellipsoid_ref(esize, ec, [int(x - th / 2) for x in radii])
        check(np.array_equal(as_bool(m), outer & ~inner), f"e_shell size={esize} c={ec} radii={radii} t={th}")


def check_generate_mask(rng, n=25):
    for t in range(n):
        r = int(rng.integers(1, 20))
        ms = int(rng.integers(6, 49))
        m = cm.generate_mask(f"sphere_r{r}", mask_size=ms)
        check(np.array_equal(as_bool(m), sphere_ref((ms,) * 3, (ms // 2,) * 3, r)), f"generate sphere_r{r} size {ms}")
        m = cm.generate_mask(f"sphere_r{r}")
        ds = -(-(2 * r + 4) // 2) * 2
        check(m.shape == (ds,) * 3, "generate default size")
        check(np.array_equal(as_bool(m), sphere_ref((ds,) * 3, (ds // 2,) * 3, r)), f"generate sphere_r{r}")
        exp = int(rng.integers(0, 9))
        m = cm.generate_mask(f"sphere_r{r}", mask_expansion=exp)
        ds = -(-(2 * r + exp) // 2) * 2
        check(np.array_equal(as_bool(m), sphere_ref((ds,) * 3, (ds // 2,) * 3, r)), f"generate sphere_r{r} exp {exp}")

        ms = int(rng.integers(10, 49))
        h = int(rng.integers(1, ms))  # fits: centre ms//2, half height h//2 <= (ms-1)//2
        if ms // 2 + h // 2 > ms - 1:
            h -= 2
        m = cm.generate_mask(f"cylinder_r{r}_h{h}", mask_size=ms)
        check(
            np.array_equal(as_bool(m), cylinder_ref((ms,) * 3, (ms // 2,) * 3, r, h)),
            f"generate cylinder_r{r}_h{h} size {ms}",
        )

        th = int(rng.integers(1, 7))
        m = cm.generate_mask(f"s_shell_r{r}_s{th}", mask_size=ms)
        ss = -(-(ms + th) // 2) * 2
        check(m.shape == (ss,) * 3, "generate s_shell size")
        cs = (ss // 2,) * 3
        ref = sphere_ref((ss,) * 3, cs, r + th / 2) & ~sphere_ref((ss,) * 3, cs, r - th / 2)
        check(np.array_equal(as_bool(m), ref), f"generate s_shell_r{r}_s{th} size {ms}")

        es = 2 * int(rng.integers(3, 25))
        radii = [int(x) for x in rng.integers(1, 20, 3)]
        m = cm.generate_mask(f"ellipsoid_rx{radii[0]}_ry{radii[1]}_rz{radii[2]}", mask_size=es)
        inside, _ = ellipsoid_ref((es,) * 3, (es // 2,) * 3, radii)
        check(np.array_equal(as_bool(m), inside), f"generate ellipsoid {radii} size {es}")

        th = int(rng.integers(1, 5))
        radii = [int(x) for x in rng.integers((th + 1) // 2 + 1, 20, 3)]
        m = cm.generate_mask(f"e_shell_rx{radii[0]}_ry{radii[1]}_rz{radii[2]}_s{th}", mask_size=es)
        outer, _ = ellipsoid_ref((es,) * 3, (es // 2,) * 3, [int(x + th / 2) for x in radii])
        inner, _ = ellipsoid_ref((es,) * 3, (es // 2,) * 3, [int(x - th / 2) for x in radii])
        check(np.array_equal(as_bool(m), outer & ~inner), f"generate e_shell {radii} s{th} size {es}")

    for bad in ["sphere_r", "sphere_r-3", "cube_r3", "cylinder_r3", "sphere_r3 ", "s_shell_r3"]:
        try:
            cm.generate_mask(bad)
            check(False, f"generate_mask accepted {bad!r}")
        except ValueError:
            pass


# ----------------------------------------------------------------------------------------------------------------
# soft masks
# ----------------------------------------------------------------------------------------------------------------
TOL01 = 1e-12


def check_soft(rng, n=14):
    sigmas = [0.0, 0.5, 1.0, 3.0]
    for t in range(n):
        sigma = sigmas[t] if t < len(sigmas) else float(np.round(rng.uniform(0.05, 3.0), 3))
        for outwards in (True, False):
            size = rand_size(rng)
            c = rand_center(rng, size)
            r = int(rng.integers(1, max(size) + 3))
            m = cm.spherical_mask(size, radius=r, center=c, gaussian=sigma, gaussian_outwards=outwards)
            check(m.shape == size, "soft sphere shape")
            check(m.min() >= -TOL01 and m.max() <= 1 + TOL01, f"soft sphere outside [0,1] {m.min()} {m.max()}")
            core = sphere_ref(size, c, r)
            if outwards:
                check(np.all(np.abs(m[core] - 1) <= 1e-3), f"soft sphere core size={size} c={c} r={r} s={sigma}")
            if sigma == 0:
                check(np.array_equal(m != 0, core), "sigma 0 sphere is not the hard sphere")

            # cylinder: choose the z extent so that also the extended solid fits into the box
            size = (int(rng.integers(6, 49)), int(rng.integers(6, 49)), 48)
            ext = int(np.ceil(5 * sigma)) + 1 if (outwards and sigma != 0) else 0
            half = int(rng.integers(0, 23 - ext + 1)) if 23 - ext >= 0 else 0
            h = max(2 * half + int(rng.integers(0, 2)), 1)
            lo = h // 2 + ext
            hi = size[2] - 1 - h // 2 - ext
            if lo <= hi:
                cz = int(rng.integers(lo, hi + 1))
                cc = (int(rng.integers(0, size[0])), int(rng.integers(0, size[1])), cz)
                rc = int(rng.integers(1, 40))
                m = cm.cylindrical_mask(size, radius=rc, height=h, center=cc, gaussian=sigma, gaussian_outwards=outwards)
                check(m.min() >= -TOL01 and m.max() <= 1 + TOL01, f"soft cylinder outside [0,1] {m.min()} {m.max()}")
                core = cylinder_ref(size, cc, rc, h)
                if outwards:
                    check(np.all(np.abs(m[core] - 1) <= 1e-3), f"soft cylinder core size={size} c={cc} r={rc} h={h}")

            esize = rand_size(rng, even=True)
            ec = rand_center(rng, esize)
            radii = tuple(int(x) for x in rng.integers(1, max(esize) // 2 + 4, 3))
            m = cm.ellipsoid_mask(esize, radii=radii, center=ec, gaussian=sigma, gaussian_outwards=outwards)
            m = np.asarray(m, dtype=float)
            check(m.min() >= -TOL01 and m.max() <= 1 + TOL01, f"soft ellipsoid outside [0,1] {m.min()} {m.max()}")
            core, _ = ellipsoid_ref(esize, ec, radii)
            if outwards:
                check(np.all(np.abs(m[core] - 1) <= 1e-3), f"soft ellipsoid core size={esize} c={ec} radii={radii}")

            th = int(rng.integers(1, 5))
            m = cm.spherical_shell_mask(size, th, radius=r, center=None, gaussian=sigma)
            check(m.min() >= -TOL01 and m.max() <= 1 + TOL01, "soft s_shell outside [0,1]")


# ----------------------------------------------------------------------------------------------------------------
# set algebra
# ----------------------------------------------------------------------------------------------------------------
def file_digest(path):
    with open(path, "rb") as f:
        return hashlib.sha256(f.read()).hexdigest()


def check_algebra_on(masks, bools, label, files=None):
    """masks: list handed to cryomask (arrays or paths); bools: the boolean arrays behind them (None for soft)."""
    keep = [np.array(m, copy=True) if isinstance(m, np.ndarray) else None for m in masks]
    digests = [file_digest(f) for f in files] if files else None
    for rep in range(2):  # repeated calls on the same objects
        u = cm.union(masks)
        i = cm.intersection(masks)
        s = cm.subtraction(masks)
        d = cm.difference(masks)
        for name, out in (("union", u), ("intersection", i), ("subtraction", s), ("difference", d)):
            check(isinstance(out, np.ndarray), f"{label} {name} type")
            check(out.min() >= 0.0 and out.max() <= 1.0, f"{label} {name} outside [0,1]")
            for m in masks:
                if isinstance(m, np.ndarray):
                    check(not np.shares_memory(out, m), f"{label} {name} output aliases an input")
        if bools is not None:
            b_or = np.logical_or.reduce(bools)
            b_and = np.logical_and.reduce(bools)
            rest = np.logical_or.reduce(bools[1:]) if len(bools) > 1 else np.zeros_like(bools[0])
            check(np.array_equal(u, b_or.astype(float)), f"{label} union != OR (rep {rep})")
            check(np.array_equal(i, b_and.astype(float)), f"{label} intersection != AND (rep {rep})")
            check(np.array_equal(s, (bools[0] & ~rest).astype(float)), f"{label} subtraction != AND-NOT (rep {rep})")
            check(np.array_equal(d, (b_or & ~b_and).astype(float)), f"{label} difference != OR minus AND (rep {rep})")
            if len(bools) == 2:
                check(np.array_equal(d, (bools[0] ^ bools[1]).astype(float)), f"{label} difference != XOR (rep {rep})")
        for m, k in zip(masks, keep):
            if k is not None:
                check(np.array_equal(m, k) and m.dtype == k.dtype, f"{label}: an input was modified (rep {rep})")
        if files:
            check([file_digest(f) for f in files] == digests, f"{label}: an input file was modified")


def check_algebra(rng, n=40):
    dtypes = [np.float64, np.float32, np.int64, np.int32]
    for t in range(n):
        shape = tuple(int(x) for x in rng.integers(6, 49, 3)) if t % 4 else tuple(int(x) for x in rng.integers(1, 6, 3))
        k = int(rng.integers(1, 6))
        p = rng.choice([0.0, 0.1, 0.5, 0.9, 1.0])
        bools = [rng.random(shape) < p for _ in range(k)]
        if t % 5 == 0 and k > 1:
            bools[1] = bools[0].copy()  # equal masks
        dt = dtypes[t % len(dtypes)]
        check_algebra_on([b.astype(dt) for b in bools], bools, f"binary {np.dtype(dt).name} k={k} {shape}")
        # first mask float, the others of mixed type (the first one fixes the type of the in-place subtraction)
        mixed = [bools[0].astype(np.float64)] + [b.astype(dtypes[int(rng.integers(0, 4))]) for b in bools[1:]]
        check_algebra_on(mixed, bools, f"binary mixed k={k} {shape}")
        # non-contiguous / read-only inputs
        big = [np.repeat(b.astype(float), 2, axis=0) for b in bools]
        views = [g[::2] for g in big]
        views[-1] = np.asfortranarray(bools[-1].astype(float))
        views[0].flags.writeable = False
        check_algebra_on(views, bools, f"binary views k={k} {shape}")
        # soft masks: only range / purity / no mutation are required
        soft = [rng.random(shape) for _ in range(k)]
        if k > 1:
            soft[1] = bools[1].astype(float)
        check_algebra_on(soft, None, f"soft k={k} {shape}")
        u, i, s, d = cm.union(soft), cm.intersection(soft), cm.subtraction(soft), cm.difference(soft)
        check(np.allclose(u, np.clip(np.sum(soft, axis=0), 0, 1)), "soft union value")
        check(np.allclose(i, np.prod(soft, axis=0)), "soft intersection value")
        check(np.allclose(s, np.clip(soft[0] - np.sum(soft[1:], axis=0), 0, 1)), "soft subtraction value")
        check(np.allclose(d, np.clip(u - i, 0, 1)), "soft difference value")

    # hard shapes as operands (sphere minus inner sphere is the shell)
    size, c = (20, 17, 14), (9, 8, 6)
    a = cm.spherical_mask(size, radius=7, center=c)
    b = cm.spherical_mask(size, radius=4, center=c)
    sh = cm.spherical_shell_mask(size, 3, radius=5.5, center=c)
    check(np.array_equal(cm.subtraction([a, b]), sh), "sphere(7) - sphere(4) != shell(5.5, 3)")
    check(np.array_equal(cm.difference([a, b]), sh), "sphere(7) xor sphere(4) != shell(5.5, 3)")
    check(np.array_equal(cm.intersection([a, b]), b) and np.array_equal(cm.union([a, b]), a), "nested spheres")


def check_algebra_files(rng, n=4):
    """masks given by file name (mrc / em / rec), alone or mixed with arrays"""
    with tempfile.TemporaryDirectory() as tmp:
        for t in range(n):
            shape = tuple(int(x) for x in rng.integers(6, 30, 3))
            k = int(rng.integers(1, 5))
            bools = [rng.random(shape) < 0.5 for _ in range(k)]
            names = []
            for q, b in enumerate(bools):
                ext = [".mrc", ".em", ".rec"][(q + t) % 3]
                name = os.path.join(tmp, f"m{t}_{q}{ext}")
                cryomap.write(b.astype(np.float32), name, data_type=np.single)
                names.append(name)
            check_algebra_on(names, bools, f"files k={k} {shape}", files=names)
            mixed = [names[q] if q % 2 == 0 else bools[q].astype(float) for q in range(k)]
            check_algebra_on(mixed, bools, f"files+arrays k={k} {shape}", files=names)
            # written result can be read back
            out = os.path.join(tmp, f"u{t}.mrc")
            u = cm.union(names, output_name=out)
            check(np.array_equal(cryomap.read(out), u), "written union differs from the returned one")
            out = os.path.join(tmp, f"s{t}.em")
            s = cm.subtraction(mixed, output_name=out)
            check(np.array_equal(cryomap.read(out), s), "written subtraction differs from the returned one")


def run_property_checks(seed=20240913):
    rng = np.random.default_rng(seed)
    with warnings.catch_warnings():
        warnings.simplefilter("ignore", RuntimeWarning)  # 0/0 in degenerate ellipsoids
        check_hard_shapes(rng)
        check_generate_mask(rng)
        check_soft(rng)
        check_algebra(rng)
        check_algebra_files(rng)


# ----------------------------------------------------------------------------------------------------------------
# change b: cryomap.read compared with its original text
# ----------------------------------------------------------------------------------------------------------------
ORIGINAL_READ = '''
def read(input_map, transpose=True, data_type=None):
    if isinstance(input_map, str):

        def valid_mrc(filename):
            pattern = r"\\.(mrc|ali|rec|st)(\\.\\d+)?$"
            return bool(re.search(pattern, filename))

        if valid_mrc(input_map):
            data = mrcfile.open(input_map).data
        elif input_map.endswith(".em"):
            data = emfile.read(input_map)[1]
        else:
            raise ValueError("The input map file name", input_map, "is neither em or mrc file!")

        if transpose:
            data = data.transpose(2, 1, 0)
    elif isinstance(input_map, np.ndarray):
        data = np.array(input_map)
    else:
        raise ValueError(f"Input map must be path to valid file or nparray")

    data = np.array(data, copy=True)
    if data_type is not None:
        data = data.astype(data_type)

    return data
'''


def same_array(a, b):
    """same class, dtype, shape, memory layout, flags and values"""
    return (
        type(a) is type(b)
        and a.dtype == b.dtype
        and a.shape == b.shape
        and a.strides == b.strides
        and a.flags.c_contiguous == b.flags.c_contiguous
        and a.flags.f_contiguous == b.flags.f_contiguous
        and a.flags.writeable == b.flags.writeable
        and a.flags.owndata == b.flags.owndata
        and (np.array_equal(a, b, equal_nan=True) if a.dtype.kind in "fc" else np.array_equal(a, b))
    )


def outcome(f, *args, **kwargs):
    try:
        return ("ok", f(*args, **kwargs))
    except Exception as e:  # noqa
        return ("err", type(e).__name__, e.args)


def check_read_against_original(seed=11):
    import re
    import warnings as _w
    import mrcfile
    import emfile

    orig = {"np": np, "re": re, "mrcfile": mrcfile, "emfile": emfile}
    exec(ORIGINAL_READ, orig)
    old_read = orig["read"]
    rng = np.random.default_rng(seed)

    def compare(arg, label, **kw):
        a, b = outcome(cryomap.read, arg, **kw), outcome(old_read, arg, **kw)
        check(a[0] == b[0], f"read {label} {kw}: outcome {a[0]} / {b[0]}")
        if a[0] == "err" or b[0] == "err":
            check(a == b, f"read {label} {kw}: errors differ {a} / {b}")
            return None
        check(same_array(a[1], b[1]), f"read {label} {kw}: arrays differ")
        check(type(a[1]) is np.ndarray and a[1].flags.writeable, f"read {label}: not a fresh writeable ndarray")
        if isinstance(arg, np.ndarray):
            check(not np.shares_memory(a[1], arg), f"read {label}: result shares memory with the input")
            keep = np.array(arg, copy=True)
            if a[1].size and a[1].dtype.kind in "fiub":
                a[1][...] = 1 - a[1] if a[1].dtype.kind != "b" else ~a[1]  # writing to the result ...
            same_in = np.array_equal(np.asarray(arg), keep, equal_nan=True) if keep.dtype.kind in "fc" else np.array_equal(np.asarray(arg), keep)
            check(same_in, f"read {label}: writing to the result changed the input")
        return a[1]

    # arrays of many kinds
    base = rng.random((7, 6, 5))
    arrays = {
        "c float64": base,
        "f order": np.asfortranarray(base),
        "float32": base.astype(np.float32),
        "int16": (base * 100).astype(np.int16),
        "uint8": (base * 255).astype(np.uint8),
        "bool": base > 0.5,
        "complex": base + 1j * base,
        "strided": np.repeat(base, 2, axis=1)[:, ::2],
        "transposed": base.transpose(2, 1, 0),
        "transposed strided": base.transpose(2, 0, 1)[::2],
        "reversed": base[::-1, :, ::-1],
        "broadcast": np.broadcast_to(base[0, 0], (4, 3, 5)),
        "slice": base[1:5, 2:4, 1:],
        "2d": base[0],
        "1d": base[0, 0],
        "0d": np.asarray(3.5),
        "empty": np.zeros((0, 4, 3)),
        "nan/inf": np.where(base > 0.7, np.nan, np.where(base < 0.1, np.inf, base)),
        "big endian": base.astype(">f4"),
        "matrix subclass": np.asmatrix(base[0]),
        "masked subclass": np.ma.masked_greater(base, 0.5),
        "object": np.asarray([[1, "a"], [None, 2.5]], dtype=object),
    }
    ro = base.copy()
    ro.flags.writeable = False
    arrays["read-only"] = ro
    for label, arr in arrays.items():
        for kw in ({}, {"transpose": False}, {"data_type": np.float32}, {"data_type": np.int8}, {"data_type": bool}):
            if arr.dtype == object and "data_type" in kw:
                continue
            with _w.catch_warnings():
                _w.simplefilter("ignore")
                compare(arr, label, **kw)

    # things that are neither a name nor an array
    for bad in (None, 5, 2.5, [1, 2, 3], [[1.0, 2.0]], (1, 2), b"x.mrc", {"a": 1}):
        compare(bad, f"bad {bad!r}")

    with tempfile.TemporaryDirectory() as tmp:
        import pathlib

        compare(pathlib.Path(tmp) / "x.mrc", "Path object")
        for name in ("x.txt", "x", "x.mrcs", "x.EM", "missing.mrc", "missing.em", "missing.rec.12", ""):
            compare(os.path.join(tmp, name) if name else "", f"name {name!r}")
        # a file that is not an mrc file although named so
        with open(os.path.join(tmp, "junk.mrc"), "wb") as f:
            f.write(b"junk" * 10)
        with open(os.path.join(tmp, "junk.em"), "wb") as f:
            f.write(b"junk" * 10)
        with _w.catch_warnings():
            _w.simplefilter("ignore")
            compare(os.path.join(tmp, "junk.mrc"), "junk mrc")
            compare(os.path.join(tmp, "junk.em"), "junk em")

        for t in range(12):
            shape = tuple(int(x) for x in rng.integers(1, 20, 3))
            vol = rng.normal(size=shape)
            for ext in (".mrc", ".em", ".rec", ".st", ".ali", ".mrc.3"):
                for dt in (np.single, np.int16, np.int8):
                    name = os.path.join(tmp, f"v{t}{ext}")
                    if ext in (".mrc", ".em", ".rec"):
                        cryomap.write(vol * 20, name, data_type=dt)
                    else:
                        mrcfile.write(name=name, data=(vol * 20).astype(dt).transpose(2, 1, 0), overwrite=True)
                    digest = file_digest(name)
                    for kw in ({}, {"transpose": False}, {"data_type": np.float64}, {"transpose": False, "data_type": np.int32}):
                        got = compare(name, f"file {ext} {np.dtype(dt).name}", **kw)
                        check(got is not None, f"file {ext} {np.dtype(dt).name}: could not be read")
                        if got is not None and not kw:
                            check(got.shape == shape, f"file {ext}: shape")
                            check(np.array_equal(got, (vol * 20).astype(dt)), f"file {ext}: voxels")
                    check(file_digest(name) == digest, f"file {ext}: reading changed the file")
                    # the file can be replaced straight after reading (nothing is left open / mapped)
                    os.remove(name)

        # many reads in a row do not leave handles behind
        name = os.path.join(tmp, "many.mrc")
        cryomap.write(rng.random((5, 4, 3)), name, data_type=np.single)
        first = cryomap.read(name)
        for _ in range(300):
            check(np.array_equal(cryomap.read(name), first), "repeated read")


if __name__ == "__main__":
    run_property_checks()
    check_read_against_original()
    if FAILS:
        print(f"FAIL ({len(FAILS)} checks failed)")
        sys.exit(1)
    print(f"PASS ({NCHECKS[0]} checks)")
