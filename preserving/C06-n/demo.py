"""Property C06 -- rotation geometry primitives of cryocat.geom agree with SO(3) ground truth.

Change a (kind 5, numerically equivalent rewrite): normals_to_euler_angles takes the length of the xy-part of
the normalised normal with np.hypot instead of sqrt(x**2 + y**2) (and normalises with keepdims=True);
cone_distance limits the cosine with np.clip instead of nested minimum / maximum.  theta may move by round-off
(seen: <= 3e-14 degrees), is identical for +-z and axis-aligned normals; everything else is bit-identical.

Run as:  cd /tmp/wt7/C06 && /venv/bin/python /tmp/seedsT/C06/a/demo.py
Prints PASS and exits 0 when (1) the property holds against an independent computation (rotation matrices
built by hand from Euler angles / quaternions, relative angle from atan2(sin, cos) of R1 R2^T) and (2) the
functions of the imported cryocat.geom return the same as the ORIGINAL function texts kept below.
"""
import os, sys
sys.path.insert(0, os.getcwd())
import warnings
import numpy as np
import pandas as pd
import matplotlib
matplotlib.use("Agg")
from scipy.spatial.transform import Rotation as srot
from cryocat import geom

warnings.simplefilter("ignore", UserWarning)      # scipy's gimbal-lock warning at theta in {0, 180}

# ---------------------------------------------------------------------------------------------------------
# ORIGINAL function texts (unmodified tree, HEAD 6462733).  They are executed in a copy of the module's
# namespace so that they call each other (and not the possibly patched module functions).
# ---------------------------------------------------------------------------------------------------------
ORIG_SRC = r'''
def compare_rotations(angles1, angles2, c_symmetry=1, rotation_type="all"):
    """Compare the rotations between two sets of angles.

    Parameters
    ----------
    angles1 : list
        The first set of angles.
    angles2 : list
        The second set of angles.
    c_symmetry : int
        The degree of rotational symmetry. Defaults to 1.

    Returns
    -------
    tuple
        A tuple containing the following distances:
        - dist_degrees (float): The overall angular distance between the two sets of angles.
        - dist_degrees_normals (float): The angular distance between the normal vectors of the two sets of angles.
        - dist_degrees_inplane (float): The angular distance within the plane of rotation between the two sets of angles.

    """

    dist_degrees = angular_distance(angles1, angles2, c_symmetry=c_symmetry)[0]
    dist_degrees_normals, dist_degrees_inplane = cone_inplane_distance(angles1, angles2, c_symmetry=c_symmetry)

    if rotation_type == "all":
        return dist_degrees, dist_degrees_normals, dist_degrees_inplane
    elif rotation_type == "angular_distance":
        return dist_degrees
    elif rotation_type == "cone_distance":
        return dist_degrees_normals
    elif rotation_type == "in_plane_distance":
        return dist_degrees_inplane
    else:
        raise UserInputError(f"The rotation type {rotation_type} is not supported.")


def euler_angles_to_normals(angles):
    """Compute normal vectors pointing in z-direction from Euler angles.

    Parameers
    ---------
    angles : ndarray (n,3)
        n triplets of Euler angles

    Returns
    -------
    ndarray (n,3)
        Unit length z-normal vectors associated to input Euler angles.
    """
    points = visualize_angles(angles, plot_rotations=False)
    n_length = np.linalg.norm(points, axis=1, keepdims=True)
    normalized_normal_vectors = points / n_length

    return normalized_normal_vectors


def normals_to_euler_angles(input_normals, output_order="zxz"):
    """Given normal vectors pointing in z-direction in particle frames,
    compute choice of Euler angles.

    Parameters
    ----------
    input_normals : ndarray, pandas dataFrame
        z-normal vectors
    output_order : str, optional
        Euler angle convention. Defaults to "zxz".

    Raises
    ------
    UserInputError
        input_normals have to be either pandas dataFrame or numpy array.

    Returns
    -------
    ndarray : (n,3)
        n triplets of Euler angles in choses convention.
    """
    if isinstance(input_normals, pd.DataFrame):
        normals = input_normals.loc[:, ["x", "y", "z"]].values
    elif isinstance(input_normals, np.ndarray):
        normals = input_normals
    else:
        raise UserInputError("The input_normals have to be either pandas dataFrame or numpy array")

    # normalize vectors
    normals = normals / np.linalg.norm(normals, axis=1)[:, np.newaxis]
    theta = np.degrees(np.arctan2(np.sqrt(normals[:, 0] ** 2 + normals[:, 1] ** 2), normals[:, 2]))

    psi = 90 + np.degrees(np.arctan2(normals[:, 1], normals[:, 0]))
    b_idx = np.where((normals[:, 0] == 0) & (normals[:, 1] == 0))
    psi[b_idx] = 0

    phi = np.random.rand(normals.shape[0]) * 360

    if output_order == "zzx":
        angles = np.column_stack((phi, psi, theta))
    else:
        angles = np.column_stack((phi, theta, psi))

    return angles


def cone_distance(input_rot1, input_rot2):
    """Compute great-circle distance between z-normals corresponding to orientations
    as represented by input rotations. This corresponds to angular distance between cone-rotation
    portions of respective input rotations.

    Parameters
    ----------
    input_rot1 : scipy.spatial.transform.Rotation object
        Rotation object describing orientation of particle
    input_rot2 : scipy.spatial.transform.Rotation object
        Rotation object describing orientation of particle

    Returns
    -------
    float
        cone-distance in degrees
    """
    point = [0, 0, 1.0]

    vec1 = np.array(input_rot1.apply(point), ndmin=2)
    vec2 = np.array(input_rot2.apply(point), ndmin=2)

    vec1_n = np.linalg.norm(vec1, axis=1)
    vec1 = vec1 / vec1_n[:, np.newaxis]
    vec2_n = np.linalg.norm(vec2, axis=1)
    vec2 = vec2 / vec2_n[:, np.newaxis]
    cone_angle = np.degrees(np.arccos(np.maximum(np.minimum(np.sum(vec1 * vec2, axis=1), 1.0), -1.0)))

    return cone_angle


def get_axis_from_rotation(input_rotation, axis="z"):
    """Given an input rotation, compute the desired unit normal vector
    from the coordinate frame associated to the rotation.

    Parameters
    ----------
    input_rotation : scipy.spatial.transform.Rotation object
        Rotation object describing orientation of particle
    axis : str, optional
        Desired coordinate direction. Defaults to "z".

    Raises
    ------
    ValueError
        Input must be valid scipy rotation object.

    Returns
    -------
    ndarray
        unit vector
    """

    matrix_rep = input_rotation.as_matrix()

    axes_dict = {"x": 0, "y": 1, "z": 2}

    if matrix_rep.shape == (3, 3):  # Single (3, 3) matrix
        ret_axis = matrix_rep[:, axes_dict[axis]]  # Extract column 1 for a single matrix
    elif matrix_rep.shape[1:] == (3, 3):  # Multiple (N, 3, 3) matrices
        ret_axis = matrix_rep[:, :, axes_dict[axis]]  # Extract column 1 for each (N, 3, 3) matrix
    else:
        raise ValueError("Input must be valid scipy rotation object.")

    return ret_axis


def inplane_distance(input_rot1, input_rot2, convention="zxz", degrees=True, c_symmetry=1):
    """Compute the angular distance between inplane-rotation portion of two given rotations.

    Parameters
    ----------
    input_rot1 : scipy.spatial.transform.Rotation object
        Rotation object describing orientation of particle.
    input_rot2 : scipy.spatial.transform.Rotation object
        Rotation object describing orientation of particle.
    convention : str, optional
        Euler angle convention. Defaults to "zxz".
    degrees : bool, optional
        Return angular distance in degrees (True) or radians (False). Defaults to True.
    c_symmetry : int, optional
        Rotational symmetry of underlying particles. Defaults to 1.

    Returns
    -------
    float
        Angular distance between inplane rotations.
    """
    phi1 = np.array(input_rot1.as_euler(convention, degrees=degrees), ndmin=2)[:, 0]
    phi2 = np.array(input_rot2.as_euler(convention, degrees=degrees), ndmin=2)[:, 0]

    # Remove flot precision errors during conversion
    phi1 = np.where(abs(phi1) < ANGLE_DEGREES_TOL, 0.0, phi1)
    phi2 = np.where(abs(phi2) < ANGLE_DEGREES_TOL, 0.0, phi2)

    # From Scipy the phi is from [-180,180] -> change to [0.0,360]
    phi1 += 180.0
    phi2 += 180.0

    # Get the angular range for symmetry and divide the angles to be only in that range
    if c_symmetry > 1:
        sym_div = 360.0 / c_symmetry
        phi1 = np.mod(phi1, sym_div)
        phi2 = np.mod(phi2, sym_div)

    inplane_angle = np.abs(phi1 - phi2)

    inplane_angle = np.where(inplane_angle > 180.0, np.abs(inplane_angle - 360.0), inplane_angle)

    return inplane_angle


def cone_inplane_distance(input_rot1, input_rot2, convention="zxz", degrees=True, c_symmetry=1):
    """Compute angular distance between cone-rotations and inplane-rotations, respectively.

    Parameters
    ----------
    input_rot1 : scipy.spatial.transform.Rotation object
        Rotation object describing orientation of particle.
    input_rot2 : scipy.spatial.transform.Rotation object
        Rotation object describing orientation of particle.
    convention : str, optional
        Euler angle convention. Defaults to "zxz".
    degrees :bool, optional
        Return angular distance in degrees (True) or radians (False). Defaults to True.
    c_symmetry : int, optional
        Rotational symmetry of underlying particles. Defaults to 1.

    Returns
    -------
    float
        Angular distance between cone-rotations
    float
        angular distance between inplane rotations.
    """
    if isinstance(input_rot1, np.ndarray):
        rot1 = srot.from_euler(convention, input_rot1, degrees=degrees)
    else:
        rot1 = input_rot1

    if isinstance(input_rot2, np.ndarray):
        rot2 = srot.from_euler(convention, input_rot2, degrees=degrees)
    else:
        rot2 = input_rot2

    cone_angle = cone_distance(rot1, rot2)
    inplane_angle = inplane_distance(rot1, rot2, convention, degrees, c_symmetry)

    return cone_angle, inplane_angle


def angular_distance(input_rot1, input_rot2, convention="zxz", degrees=True, c_symmetry=1):
    """Compute angular distance between two rotations. 
    Formula is based on this post
    https://math.stackexchange.com/questions/90081/quaternion-distance

    Parameters
    ----------
    input_rot1 : scipy.spatial.transform.Rotation object
        Rotation object describing orientation of particle.
    input_rot2 : scipy.spatial.transform.Rotation object
        Rotation object describing orientation of particle.
    convention : str, optional
        Euler angle convention. Defaults to "zxz".
    degrees : bool, optional
        Return angular distance in degrees (True) or radians (False). Defaults to True.
    c_symmetry : int, optional
        Rotational symmetry of underlying particles. Defaults to 1.

    Returns
    -------
    float
        Angular distance between input rotations.

    Examples
    --------
    >>> rot1 = srot.from_euler("zxz", [0, 0, 0], degrees=True)
    >>> rot2 = srot.from_euler("zxz", [45, 45, 0], degrees=True)
    >>> angular_distance(rot1, rot2)
    45.0
    """

    if isinstance(input_rot1, np.ndarray):
        rot1 = srot.from_euler(convention, input_rot1, degrees=degrees)
    else:
        rot1 = input_rot1

    if isinstance(input_rot2, np.ndarray):
        rot2 = srot.from_euler(convention, input_rot2, degrees=degrees)
    else:
        rot2 = input_rot2

    if c_symmetry > 1:
        angles1 = rot1.as_euler(convention, degrees=degrees)
        angles2 = rot2.as_euler(convention, degrees=degrees)
        sym_div = 360.0 / c_symmetry
        angles1[:, 0] = np.mod(angles1[:, 0], sym_div)
        angles2[:, 0] = np.mod(angles2[:, 0], sym_div)
        rot1 = srot.from_euler(convention, angles1, degrees=degrees)
        rot2 = srot.from_euler(convention, angles2, degrees=degrees)

    q1 = np.array(rot1.as_quat(), ndmin=2)
    q2 = np.array(rot2.as_quat(), ndmin=2)

    if q1.shape != q2.shape:
        print("The size of input rotations differ!!!")
        return

    angle = np.degrees(2 * np.arccos(np.clip(np.abs(np.sum(q1 * q2, axis=1)), 0.0, 1.0)))
    angle = angle.astype(float)

    dist = 1 - np.power(np.sum(q1 * q2, 1), 2)

    dist[dist < 10e-8] = 0

    return angle, dist


def visualize_rotations(
    rotations,
    plot_rotations=True,
    color_map=None,
    marker_size=20,
    alpha=1.0,
    radius=1.0,
):
    """Compute z-normals of input rotations. 
    If desried, generate plot depicting z-normals of input rotations.

    Parameters
    ----------
    rotations : array of scipy.spatial.transform.Rotation objects
        Orientations to be visualized
    plot_rotations : bool, optional
        If True, plot is generated. Defaults to True.
    color_map : str, optional
        Specify colormap for plot. Defaults to None.
    marker_size : int, optional
        Specify marker size for plot. Defaults to 20.
    alpha : float, optional
        Specify alpha parameter for plot. Defaults to 1.0.
    radius : float, optional
        Specify size of sphere for visualization. Defaults to 1.0.

    Returns
    -------
    ndarray (n,3)
        Array of z-normals.
    """
    starting_point = np.array([0.0, 0.0, radius])
    new_points = np.array(rotations.apply(starting_point), ndmin=2)

    if plot_rotations:
        fig = plt.figure()
        ax = fig.add_subplot(projection="3d")

        if color_map is None:
            ax.scatter(
                new_points[:, 0],
                new_points[:, 1],
                new_points[:, 2],
                s=marker_size,
                alpha=alpha,
            )
        else:
            ax.scatter(
                new_points[:, 0],
                new_points[:, 1],
                new_points[:, 2],
                s=marker_size,
                alpha=alpha,
                c=color_map,
            )
            # plt.colorbar(color_map)

        ax.set_xlim3d(-radius, radius)
        ax.set_ylim3d(-radius, radius)
        ax.set_zlim3d(-radius, radius)

    return new_points


def visualize_angles(angles, plot_rotations=True, color_map=None):
    """Compute z-normals of input orientations as described using Euler angles in zxz-convention. 
    If desried, generate plot depicting z-normals of input orientations.
    
    Parameters
    ---------- 
    angles : ndarray (n, 3) 
        Array of triplets of Euler angles in zxz-convention.
    plot_rotations : bool, optional
        If True, plot is generated. Defaults to True.
    color_map : str, optional
        Specify colormap for plot. Defaults to None.

    Returns
    -------
    ndarray (n,3)
        Array of z-normals.
    """
    rotations = srot.from_euler("zxz", angles=angles, degrees=True)
    new_points = visualize_rotations(rotations, plot_rotations, color_map)

    return new_points

'''
ORIG = dict(vars(geom))
exec(compile(ORIG_SRC, "<original geom functions>", "exec"), ORIG)

TOL_ANG = 5e-6    # degrees; 2*acos(|q1.q2|) and acos(n1.n2) lose half the digits next to 0 (1 ulp -> 1.7e-6 deg)
TOL_VEC = 1e-9
fails = []
nchecks = [0]


def check(cond, msg):
    nchecks[0] += 1
    if not cond:
        fails.append(msg)
        if len(fails) <= 25:
            print("FAIL:", msg)


# ----------------------------------------------------------------------------- independent ground truth
def _rz(a):
    c, s = np.cos(a), np.sin(a)
    m = np.zeros(a.shape + (3, 3)); m[..., 0, 0] = c; m[..., 0, 1] = -s; m[..., 1, 0] = s; m[..., 1, 1] = c; m[..., 2, 2] = 1
    return m


def _rx(a):
    c, s = np.cos(a), np.sin(a)
    m = np.zeros(a.shape + (3, 3)); m[..., 0, 0] = 1; m[..., 1, 1] = c; m[..., 1, 2] = -s; m[..., 2, 1] = s; m[..., 2, 2] = c
    return m


def mats_from_euler(angles):
    """extrinsic zxz(phi, theta, psi) in degrees:  R = Rz(psi) Rx(theta) Rz(phi)"""
    a = np.radians(np.atleast_2d(np.asarray(angles, dtype=float)))
    return _rz(a[:, 2]) @ _rx(a[:, 1]) @ _rz(a[:, 0])


def mats_from_quat(q):
    q = np.atleast_2d(np.asarray(q, dtype=float)); q = q / np.linalg.norm(q, axis=1, keepdims=True)
    x, y, z, w = q.T
    m = np.empty((q.shape[0], 3, 3))
    m[:, 0, 0] = 1 - 2 * (y * y + z * z); m[:, 0, 1] = 2 * (x * y - z * w); m[:, 0, 2] = 2 * (x * z + y * w)
    m[:, 1, 0] = 2 * (x * y + z * w); m[:, 1, 1] = 1 - 2 * (x * x + z * z); m[:, 1, 2] = 2 * (y * z - x * w)
    m[:, 2, 0] = 2 * (x * z - y * w); m[:, 2, 1] = 2 * (y * z + x * w); m[:, 2, 2] = 1 - 2 * (x * x + y * y)
    return m


def rel_angle(m1, m2):
    r = np.einsum("nij,nkj->nik", m1, m2)          # R1 R2^T
    sk = np.stack([r[:, 2, 1] - r[:, 1, 2], r[:, 0, 2] - r[:, 2, 0], r[:, 1, 0] - r[:, 0, 1]], axis=1)
    s = 0.5 * np.linalg.norm(sk, axis=1)
    c = 0.5 * (np.trace(r, axis1=1, axis2=2) - 1.0)
    return np.degrees(np.arctan2(s, c))


def vec_angle(v1, v2):
    return np.degrees(np.arctan2(np.linalg.norm(np.cross(v1, v2), axis=1), np.sum(v1 * v2, axis=1)))


def same(a, b, exact=True, tol=0.0, what=""):
    """compare two outputs (arrays / tuples of arrays / None)"""
    if a is None or b is None:
        return a is None and b is None
    if isinstance(a, tuple) or isinstance(b, tuple):
        return isinstance(a, tuple) and isinstance(b, tuple) and len(a) == len(b) and all(
            same(x, y, exact, tol) for x, y in zip(a, b))
    a = np.asarray(a); b = np.asarray(b)
    if a.shape != b.shape or a.dtype != b.dtype:
        return False
    if exact:
        return np.array_equal(a, b, equal_nan=True)
    return np.allclose(a, b, rtol=0, atol=tol, equal_nan=True)


rng = np.random.default_rng(20240606)


def rand_euler(n):
    return np.column_stack([rng.uniform(-180, 180, n), rng.uniform(0, 180, n), rng.uniform(-180, 180, n)])


def cube_rotations():
    import itertools
    out = []
    for p in itertools.permutations(range(3)):
        for sg in itertools.product([1, -1], repeat=3):
            m = np.zeros((3, 3))
            for i in range(3):
                m[i, p[i]] = sg[i]
            if np.linalg.det(m) > 0:
                out.append(m)
    return np.array(out)


CUBE = cube_rotations(); assert CUBE.shape == (24, 3, 3)
lat = np.array([[p, t, s] for p in range(-180, 180, 45) for t in range(0, 181, 45) for s in range(-180, 180, 45)], dtype=float)


# ------------------------------------------------------------------ 1. pairs: distance = relative angle
def check_pair(name, in1, in2, m1, m2, exact_equal=False):
    """in1/in2: what is handed to the functions (Rotation or ndarray of Euler angles); m1/m2 the true matrices"""
    keep1 = in1.copy() if isinstance(in1, np.ndarray) else in1.as_quat().copy()
    keep2 = in2.copy() if isinstance(in2, np.ndarray) else in2.as_quat().copy()
    res = geom.angular_distance(in1, in2)
    check(isinstance(res, tuple) and len(res) == 2, f"{name}: angular_distance does not return (angle, dist)")
    ang, dist = res
    n = m1.shape[0]
    check(ang.shape == (n,) and ang.dtype == np.float64, f"{name}: angle shape/dtype {ang.shape} {ang.dtype}")
    truth = rel_angle(m1, m2)
    check(np.all(np.abs(ang - truth) <= TOL_ANG), f"{name}: angular distance differs from rotation angle of R1 R2^T "
          f"(max {np.max(np.abs(ang - truth)):.3g})")
    check(np.all((ang >= 0) & (ang <= 180)), f"{name}: angular distance outside [0,180]")
    ang_sw, dist_sw = geom.angular_distance(in2, in1)
    check(np.array_equal(ang, ang_sw) and np.array_equal(dist, dist_sw), f"{name}: angular distance not symmetric")
    if exact_equal:
        check(np.all(ang <= TOL_ANG), f"{name}: distance of equal rotations not zero ({ang.max():.3g})")
        check(np.all(dist == 0), f"{name}: 1-(q.q)^2 of equal rotations not zero")
    # cone / in-plane
    cone, inpl = geom.cone_inplane_distance(in1, in2)
    check(cone.shape == (n,) and inpl.shape == (n,), f"{name}: cone/inplane shapes {cone.shape} {inpl.shape}")
    ctruth = vec_angle(m1[:, :, 2], m2[:, :, 2])
    check(np.all(np.abs(cone - ctruth) <= TOL_ANG), f"{name}: cone distance differs from angle between z-axes "
          f"(max {np.max(np.abs(cone - ctruth)):.3g})")
    check(np.all((inpl >= 0) & (inpl <= 180)), f"{name}: in-plane distance outside [0,180]")
    if exact_equal:
        check(np.all(inpl == 0), f"{name}: in-plane distance of equal orientations not zero")
        check(np.all(cone <= TOL_ANG), f"{name}: cone distance of equal orientations not zero")
    # compare_rotations = the three together, and its selectors
    allr = geom.compare_rotations(in1, in2)
    check(same(allr, (ang, cone, inpl)), f"{name}: compare_rotations differs from the three distances")
    check(same(geom.compare_rotations(in1, in2, rotation_type="angular_distance"), ang)
          and same(geom.compare_rotations(in1, in2, rotation_type="cone_distance"), cone)
          and same(geom.compare_rotations(in1, in2, rotation_type="in_plane_distance"), inpl),
          f"{name}: compare_rotations selectors")
    # repeated call on the same objects, inputs untouched
    check(same(geom.angular_distance(in1, in2), res), f"{name}: second call differs")
    now1 = in1 if isinstance(in1, np.ndarray) else in1.as_quat()
    now2 = in2 if isinstance(in2, np.ndarray) else in2.as_quat()
    check(np.array_equal(now1, keep1) and np.array_equal(now2, keep2), f"{name}: inputs modified")
    # ---- module vs ORIGINAL text
    for fn in ("angular_distance", "cone_inplane_distance", "compare_rotations"):
        check(same(getattr(geom, fn)(in1, in2), ORIG[fn](in1, in2)), f"{name}: {fn} differs from the original")
    if not isinstance(in1, np.ndarray):
        check(same(geom.cone_distance(in1, in2), ORIG["cone_distance"](in1, in2)), f"{name}: cone_distance differs from original")
        check(same(geom.inplane_distance(in1, in2), ORIG["inplane_distance"](in1, in2)), f"{name}: inplane_distance differs from original")
        check(same(geom.cone_distance(in1, in2), cone) and same(geom.inplane_distance(in1, in2), inpl),
              f"{name}: cone_inplane_distance differs from cone_distance / inplane_distance")
    for cs in (2, 3, 6):
        if m1.shape[0] >= 1 and (isinstance(in1, np.ndarray) and in1.ndim == 2 or (not isinstance(in1, np.ndarray) and not in1.single)):
            check(same(geom.angular_distance(in1, in2, c_symmetry=cs), ORIG["angular_distance"](in1, in2, c_symmetry=cs)),
                  f"{name}: angular_distance c_symmetry={cs} differs from original")
            check(same(geom.cone_inplane_distance(in1, in2, c_symmetry=cs), ORIG["cone_inplane_distance"](in1, in2, c_symmetry=cs)),
                  f"{name}: cone_inplane_distance c_symmetry={cs} differs from original")
            check(same(geom.compare_rotations(in1, in2, cs), ORIG["compare_rotations"](in1, in2, cs)),
                  f"{name}: compare_rotations c_symmetry={cs} differs from original")
    return ang


def both_forms(name, e1, e2, exact_equal=False):
    """Euler-angle arrays handed over as ndarray and as Rotation objects"""
    m1, m2 = mats_from_euler(e1), mats_from_euler(e2)
    check_pair(name + " [ndarray]", e1, e2, m1, m2, exact_equal)
    check_pair(name + " [Rotation]", srot.from_euler("zxz", e1, degrees=True), srot.from_euler("zxz", e2, degrees=True), m1, m2, exact_equal)


for n in (1, 2, 3, 7, 64, 499, 500):
    both_forms(f"random n={n}", rand_euler(n), rand_euler(n))
# integer element type
ei1 = rng.integers(-180, 181, (50, 3)); ei2 = rng.integers(-180, 181, (50, 3))
check_pair("integer Euler angles", ei1, ei2, mats_from_euler(ei1), mats_from_euler(ei2))
# random quaternions
for n in (1, 5, 300):
    q1 = rng.normal(size=(n, 4)); q2 = rng.normal(size=(n, 4))
    check_pair(f"random quats n={n}", srot.from_quat(q1), srot.from_quat(q2), mats_from_quat(q1), mats_from_quat(q2))
# single (non-batched) Rotation objects and single triples
e1 = rand_euler(1); e2 = rand_euler(1)
check_pair("single Rotation", srot.from_euler("zxz", e1[0], degrees=True), srot.from_euler("zxz", e2[0], degrees=True),
           mats_from_euler(e1), mats_from_euler(e2))
check_pair("single triple", e1[0].copy(), e2[0].copy(), mats_from_euler(e1), mats_from_euler(e2))
# equal rotations
e = np.vstack([rand_euler(200), lat])
both_forms("equal", e, e.copy(), exact_equal=True)
qe = rng.normal(size=(300, 4))
check_pair("equal quats", srot.from_quat(qe), srot.from_quat(qe.copy()), mats_from_quat(qe), mats_from_quat(qe), exact_equal=True)
# near-identical
for eps in (1e-9, 1e-6, 1e-4, 1e-2):
    e = rand_euler(200)
    both_forms(f"near-identical eps={eps}", e, e + rng.normal(scale=eps, size=e.shape))
# antipodal: B = A * (180 deg about a random axis)  and about the coordinate axes
A = srot.from_quat(rng.normal(size=(203, 4)))
ax = rng.normal(size=(200, 3)); ax /= np.linalg.norm(ax, axis=1, keepdims=True); ax = np.vstack([ax, np.eye(3)])
H = srot.from_rotvec(np.pi * ax)
for nm, B in (("right", A * H), ("left", H * A)):
    ang = check_pair(f"antipodal {nm}", A, B, mats_from_quat(A.as_quat()), mats_from_quat(B.as_quat()))
    check(np.all(np.abs(ang - 180) <= TOL_ANG), f"antipodal {nm}: not 180")
# gimbal lock theta in {0, 180}
for t1 in (0.0, 180.0):
    for t2 in (0.0, 180.0, None):
        e1 = rand_euler(100); e1[:, 1] = t1
        e2 = rand_euler(100)
        if t2 is not None:
            e2[:, 1] = t2
        with warnings.catch_warnings():
            warnings.simplefilter("ignore")
            both_forms(f"gimbal {t1}/{t2}", e1, e2)
# 24 cube rotations, all pairs
i, j = np.meshgrid(np.arange(24), np.arange(24), indexing="ij"); i = i.ravel(); j = j.ravel()
with warnings.catch_warnings():
    warnings.simplefilter("ignore")
    C = srot.from_matrix(CUBE)
    ang = check_pair("cube pairs", C[i], C[j], CUBE[i], CUBE[j])
    check(np.all(np.min(np.abs(ang[:, None] - np.array([0, 90, 120, 180.0])[None, :]), axis=1) <= TOL_ANG),
          "cube pairs: angle not in {0,90,120,180}")
    # Euler lattice in 45-degree steps: every orientation against 40 random partners + itself shifted
    for rep in range(3):
        perm = rng.permutation(len(lat))
        both_forms(f"lattice rep={rep}", lat, lat[perm])
    both_forms("lattice neighbours", lat[:-1], lat[1:])

# ------------------------------------------------------------------ 2. invariance and triangle inequality
with warnings.catch_warnings():
    warnings.simplefilter("ignore")
    pools = [srot.from_quat(rng.normal(size=(400, 4))), srot.from_euler("zxz", lat, degrees=True), C[rng.integers(0, 24, 300)]]
    for k, P in enumerate(pools):
        n = len(P)
        a = P[rng.permutation(n)]; b = P[rng.permutation(n)]; c = P[rng.permutation(n)]
        g = srot.from_quat(rng.normal(size=(n, 4))); g1 = srot.from_quat(rng.normal(size=4))
        d_ab = geom.angular_distance(a, b)[0]
        for nm, aa, bb in (("left", g * a, g * b), ("right", a * g, b * g), ("left-one", g1 * a, g1 * b), ("right-one", a * g1, b * g1)):
            d2 = geom.angular_distance(aa, bb)[0]
            check(np.all(np.abs(d2 - d_ab) <= TOL_ANG), f"pool {k}: not invariant under common {nm} factor ({np.max(np.abs(d2 - d_ab)):.3g})")
        d_bc = geom.angular_distance(b, c)[0]; d_ac = geom.angular_distance(a, c)[0]
        check(np.all(d_ac <= d_ab + d_bc + 3 * TOL_ANG), f"pool {k}: triangle inequality violated")
        # degenerate triangles: c on the geodesic from a through b
        rv = (a.inv() * b).as_rotvec()
        c2 = a * srot.from_rotvec(0.5 * rv)
        check(np.all(geom.angular_distance(a, b)[0] <= geom.angular_distance(a, c2)[0] + geom.angular_distance(c2, b)[0] + 3 * TOL_ANG),
              f"pool {k}: degenerate triangle violated")

# ------------------------------------------------------------------ 3. Euler angles -> normals
def check_e2n(name, angles):
    keep = np.array(angles, copy=True)
    v = geom.euler_angles_to_normals(angles)
    m = mats_from_euler(angles)
    n = m.shape[0]
    check(v.shape == (n, 3), f"{name}: euler_angles_to_normals shape {v.shape}, expected {(n, 3)}")
    check(np.all(np.abs(np.linalg.norm(v, axis=1) - 1) <= 1e-12), f"{name}: normals not of unit length")
    check(np.all(np.abs(v - m[:, :, 2]) <= TOL_VEC), f"{name}: normal is not the image of the z-axis")
    check(same(v, ORIG["euler_angles_to_normals"](angles)), f"{name}: euler_angles_to_normals differs from original")
    check(same(geom.euler_angles_to_normals(angles), v) and np.array_equal(keep, angles), f"{name}: repeated call / input modified")
    p = geom.visualize_angles(angles, plot_rotations=False)
    check(same(p, ORIG["visualize_angles"](angles, plot_rotations=False)), f"{name}: visualize_angles differs from original")
    check(np.all(np.abs(p - m[:, :, 2]) <= TOL_VEC), f"{name}: visualize_angles is not the image of the z-axis")
    rot = srot.from_euler("zxz", angles, degrees=True)
    for rad in (1.0, 2.5):
        pr = geom.visualize_rotations(rot, plot_rotations=False, radius=rad)
        check(np.all(np.abs(pr - rad * m[:, :, 2]) <= TOL_VEC * rad), f"{name}: visualize_rotations radius={rad}")
        check(same(pr, ORIG["visualize_rotations"](rot, plot_rotations=False, radius=rad)), f"{name}: visualize_rotations differs from original")
    check(same(geom.visualize_rotations(rot, False), ORIG["visualize_rotations"](rot, False)), f"{name}: visualize_rotations positional")
    check(same(geom.visualize_angles(angles, False), ORIG["visualize_angles"](angles, False)), f"{name}: visualize_angles positional")
    for axn, col in (("x", 0), ("y", 1), ("z", 2)):
        got = geom.get_axis_from_rotation(rot, axn)
        check(np.all(np.abs(np.atleast_2d(got) - m[:, :, col]) <= TOL_VEC), f"{name}: get_axis_from_rotation {axn}")


with warnings.catch_warnings():
    warnings.simplefilter("ignore")
    for n in (1, 2, 3, 4, 9, 100, 500):
        check_e2n(f"e2n n={n}", rand_euler(n))
    check_e2n("e2n single triple", rand_euler(1)[0])
    check_e2n("e2n lattice", lat)
    check_e2n("e2n integer", rng.integers(-180, 181, (40, 3)))
    g = rand_euler(60); g[:30, 1] = 0; g[30:, 1] = 180
    check_e2n("e2n poles", g)
    check_e2n("e2n cube", C.as_euler("zxz", degrees=True))
    # plotting route returns the same points
    import matplotlib.pyplot as plt
    e = rand_euler(5)
    check(same(geom.visualize_angles(e), geom.visualize_angles(e, plot_rotations=False)), "plotting changes the points")
    check(same(geom.visualize_angles(e, True, np.arange(5.0)), ORIG["visualize_angles"](e, True, np.arange(5.0))), "plotting with colour map")
    plt.close("all")

# ------------------------------------------------------------------ 4. normals -> Euler angles
SPECIAL = np.array([[0, 0, 1], [0, 0, -1], [1, 0, 0], [-1, 0, 0], [0, 1, 0], [0, -1, 0], [0, 0, 5], [0, 0, -0.25],
                    [3, 0, 0], [0, -7, 0], [1, 1, 0], [1, 0, 1], [0, 1, -1], [-2, 2, 0]], dtype=float)


def check_n2e(name, normals, special=False, seed=1, tol_vec=TOL_VEC, tol_cmp=1e-10):
    arr = normals.loc[:, ["x", "y", "z"]].to_numpy() if isinstance(normals, pd.DataFrame) else np.asarray(normals)
    keep = arr.copy()
    unit = arr / np.linalg.norm(arr.astype(float), axis=1, keepdims=True)
    for order in ("zxz", "zzx"):
        np.random.seed(seed); got = geom.normals_to_euler_angles(normals, output_order=order)
        np.random.seed(seed); ref = ORIG["normals_to_euler_angles"](normals, output_order=order)
        np.random.seed(seed); again = geom.normals_to_euler_angles(normals, output_order=order)
        check(got.shape == (arr.shape[0], 3) and got.dtype == np.float64, f"{name}/{order}: shape {got.shape}")
        zxz = got if order == "zxz" else got[:, [0, 2, 1]]       # zzx rows are (phi, psi, theta)
        z = mats_from_euler(zxz)[:, :, 2]
        check(np.all(np.abs(z - unit) <= tol_vec), f"{name}/{order}: z-axis of the returned orientation is not the normalised normal "
              f"(max {np.max(np.abs(z - unit)) if len(z) else 0:.3g})")
        check(np.all((zxz[:, 1] >= 0) & (zxz[:, 1] <= 180)) and np.all((zxz[:, 0] >= 0) & (zxz[:, 0] < 360)), f"{name}/{order}: angle ranges")
        # module vs original: identical random phi and psi, theta within round-off and identical at the special points
        check(same(got[:, 0], ref[:, 0]) and same(zxz[:, 2], (ref if order == "zxz" else ref[:, [0, 2, 1]])[:, 2]),
              f"{name}/{order}: phi / psi differ from original")
        check(same(got, ref, exact=False, tol=tol_cmp), f"{name}/{order}: differs from original beyond round-off")
        if special:
            check(same(got, ref), f"{name}/{order}: differs from original at special points")
        check(same(got, again), f"{name}/{order}: repeated call differs")
    now = normals.loc[:, ["x", "y", "z"]].to_numpy() if isinstance(normals, pd.DataFrame) else np.asarray(normals)
    check(np.array_equal(now, keep), f"{name}: input modified")
    # the generator is advanced by exactly one draw of n numbers, as before
    np.random.seed(7); geom.normals_to_euler_angles(normals); s1 = np.random.rand()
    np.random.seed(7); ORIG["normals_to_euler_angles"](normals); s2 = np.random.rand()
    check(s1 == s2, f"{name}: random stream consumed differently")


for n in (1, 2, 3, 10, 257, 500):
    v = rng.normal(size=(n, 3)) * 10.0 ** rng.uniform(-3, 3, size=(n, 1))
    check_n2e(f"n2e random n={n}", v, seed=n)
    df = pd.DataFrame(v, columns=["x", "y", "z"], index=rng.permutation(n) * 3 + 11)
    df.insert(1, "extra", np.arange(n)); df = df[["z", "extra", "y", "x"]]
    check_n2e(f"n2e DataFrame n={n}", df, seed=n)
check_n2e("n2e special", SPECIAL, special=True)
check_n2e("n2e special int", SPECIAL[[0, 1, 2, 3, 4, 5, 8, 9, 10, 11, 12, 13]].astype(int), special=True)
check_n2e("n2e special DataFrame", pd.DataFrame(SPECIAL, columns=["x", "y", "z"], index=np.arange(len(SPECIAL))[::-1]), special=True)
# single precision normals are normalised in single precision -> tolerances of that precision
check_n2e("n2e float32", rng.normal(size=(50, 3)).astype(np.float32), tol_vec=2e-6, tol_cmp=1e-4)
tiny = SPECIAL[:2] + rng.normal(scale=1e-9, size=(40, 1, 3)).reshape(40, 1, 3); tiny = tiny.reshape(-1, 3)
check_n2e("n2e next to the poles", tiny)
# xy-part so small that its square underflows (the squares vanish, the length itself does not)
check_n2e("n2e underflowing xy-part", np.array([[1e-200, 0, 1], [0, -1e-180, -1], [3e-170, 4e-170, 2], [1e-320, 0, 1], [1e-160, 1e-160, -3]]))
check_n2e("n2e xy-plane", np.column_stack([rng.normal(size=(60, 2)), np.zeros(60)]))
# round trip: normals -> angles -> normals
v = rng.normal(size=(300, 3)) * 4
np.random.seed(3); back = geom.euler_angles_to_normals(geom.normals_to_euler_angles(v))
check(np.all(np.abs(back - v / np.linalg.norm(v, axis=1, keepdims=True)) <= TOL_VEC), "round trip normals -> angles -> normals")
try:
    geom.normals_to_euler_angles([[0, 0, 1]])
    check(False, "list of normals accepted (was an error)")
except geom.UserInputError:
    pass
try:
    geom.compare_rotations(rand_euler(3), rand_euler(3), rotation_type="nope")
    check(False, "unknown rotation_type accepted")
except geom.UserInputError:
    pass
# different sizes: message and None, as before
import io, contextlib
buf = io.StringIO()
with contextlib.redirect_stdout(buf):
    r = geom.angular_distance(rand_euler(3), rand_euler(4))
check(r is None and "differ" in buf.getvalue(), "size mismatch no longer reported with None")



print(f"{nchecks[0]} checks, {len(fails)} failed")
if fails:
    print("FAIL")
    sys.exit(1)
print("PASS")
