"""C13 demo (change b: loop state restructured): masks -- analytic shapes and voxel-wise set algebra.

Run as:  cd /tmp/wt13/C13 && /venv/bin/python /tmp/seedsW/C13/b/demo.py

Part 1 checks the property against an independent (exact integer) computation.
Part 2 compares the functions of the tree under test with the original function text kept below (ORIG_SRC).
Part 3 checks that the caller's inputs are left untouched and that repeated calls give the same answer.
Prints PASS and exits 0 when everything holds.
"""
import sys, os

sys.path.insert(0, os.getcwd())
import warnings

warnings.filterwarnings("ignore")
import itertools
import tempfile
import numpy as np

from cryocat import cryomask as cm
from cryocat import cryomap

# ----------------------------------------------------------------------------------------------------------------
# the original text (HEAD b1093bd) of the anchored functions, docstrings dropped; executed in its own namespace so
# that the originals call one another and not the functions of the tree under test
ORIG_SRC = r'''
def parse_shape_string(shape_string):

    # Define regular expressions for each shape type
    patterns = {
        "sphere": r"^sphere_r(\d+)$",
        "cylinder": r"^cylinder_r(\d+)_h(\d+)$",
        "s_shell": r"^s_shell_r(\d+)_s(\d+)$",
        "ellipsoid": r"^ellipsoid_rx(\d+)_ry(\d+)_rz(\d+)$",
        "e_shell": r"^e_shell_rx(\d+)_ry(\d+)_rz(\d+)_s(\d+)$",
    }

    for shape_type, pattern in patterns.items():
        match = re.match(pattern, shape_string)
        if match:
            numbers = [int(num) for num in match.groups()]
            return shape_type, numbers

    raise ValueError(f"String '{shape_string}' does not match any known shape pattern.")


def generate_mask(mask_shape, mask_size=None, mask_expansion=4):

    shape, specs = parse_shape_string(mask_shape)

    if mask_size is None:
        mask_size = 2 * np.max(specs) + mask_expansion
        mask_size = math.ceil(mask_size / 2) * 2

    if shape == "sphere":
        mask = spherical_mask(mask_size=mask_size, radius=specs[0])
    elif shape == "cylinder":
        mask = cylindrical_mask(mask_size=mask_size, radius=specs[0], height=specs[1])
    elif shape == "s_shell":
        mask_size = math.ceil((mask_size + specs[1]) / 2) * 2
        mask = spherical_shell_mask(mask_size=mask_size, shell_thickness=specs[1], radius=specs[0])
    elif shape == "ellipsoid":
        mask = ellipsoid_mask(mask_size=mask_size, radii=specs)
    elif shape == "e_shell":
        mask = ellipsoid_shell_mask(mask_size=mask_size, shell_thickness=specs[3], radii=specs[0:3])

    return mask


def add_gaussian(input_mask, sigma):

    if sigma == 0:
        return input_mask
    else:
        return filters.gaussian(input_mask, sigma=sigma)


def write_out(input_mask, output_name):

    if output_name is not None:
        cryomap.write(input_mask, output_name, data_type=np.single)


def rotate(input_mask, angles):

    if angles is None or not np.any(angles):
        return input_mask
    else:
        return cryomap.rotate(input_mask, rotation_angles=angles)


def postprocess(input_mask, gaussian, angles, output_name):

    mask = add_gaussian(input_mask, gaussian)
    mask = rotate(mask, angles)
    write_out(mask, output_name)

    return mask


def union(mask_list, output_name=None):

    final_mask = np.zeros(cryomap.read(mask_list[0]).shape)

    for m in mask_list:
        mask = cryomap.read(m)
        final_mask += mask

    final_mask = np.clip(final_mask, 0.0, 1.0)

    write_out(final_mask, output_name)

    return final_mask


def intersection(mask_list, output_name=None):
    final_mask = np.ones(cryomap.read(mask_list[0]).shape)

    for m in mask_list:
        mask = cryomap.read(m)
        final_mask *= mask

    final_mask = np.clip(final_mask, 0.0, 1.0)
    write_out(final_mask, output_name)

    return final_mask


def subtraction(mask_list, output_name=None):
    # in floating point, like union and intersection: unsigned masks would wrap around at 0 - 1, boolean ones have no `-`
    final_mask = cryomap.read(mask_list[0]).astype(float)

    for m in mask_list[1:]:
        mask = cryomap.read(m)
        final_mask -= mask

    final_mask = np.clip(final_mask, 0.0, 1.0)
    write_out(final_mask, output_name)

    return final_mask


def difference(mask_list, output_name=None):

    union_mask = union(mask_list)
    inter_mask = intersection(mask_list)

    final_mask = union_mask - inter_mask
    final_mask = np.clip(final_mask, 0.0, 1.0)
    write_out(final_mask, output_name)

    return final_mask


def spherical_shell_mask(mask_size, shell_thickness, radius=None, center=None, gaussian=0.0, output_name=None):

    mask_size = get_correct_format(mask_size)
    center = get_correct_format(center, reference_size=mask_size)

    if radius is None:
        radius = np.amin(mask_size) // 2

    shell_thickness = shell_thickness / 2

    sp1 = spherical_mask(mask_size, radius=radius + shell_thickness, center=center)
    sp2 = spherical_mask(mask_size, radius=radius - shell_thickness, center=center)

    shell_mask = sp1 - sp2

    shell_mask = postprocess(shell_mask, gaussian, np.asarray([0, 0, 0]), output_name)

    return shell_mask


def spherical_mask(mask_size, radius=None, center=None, gaussian=0.0, gaussian_outwards=True, output_name=None):

    mask_size = get_correct_format(mask_size)
    center = get_correct_format(center, reference_size=mask_size)

    if radius is None:
        radius = np.amin(mask_size) // 2

    radius = preprocess_params(radius, gaussian, gaussian_outwards)

    x, y, z = np.mgrid[0 : mask_size[0] : 1, 0 : mask_size[1] : 1, 0 : mask_size[2] : 1]
    mask = np.sqrt((x - center[0]) ** 2 + (y - center[1]) ** 2 + (z - center[2]) ** 2)
    mask[mask > radius] = 0
    mask[mask > 0] = 1
    if radius >= 0:
        # the distance map is zero at the center, so the center has to be set explicitly (a negative radius is an empty sphere)
        mask[center[0], center[1], center[2]] = 1

    mask = postprocess(mask, gaussian, np.asarray([0, 0, 0]), output_name)

    return mask


def cylindrical_mask(
    mask_size,
    radius=None,
    height=None,
    center=None,
    gaussian=0,
    gaussian_outwards=True,
    angles=None,
    output_name=None,
):
    mask_size = get_correct_format(mask_size)
    center = get_correct_format(center, reference_size=mask_size)

    if radius is None:
        radius = np.amin(mask_size[:2]) // 2  # only x, y are relevant

    if height is None:
        height = mask_size[2]

    height = height // 2

    radius = preprocess_params(radius, gaussian, gaussian_outwards)
    height = preprocess_params(height, gaussian, gaussian_outwards)

    x, y = np.mgrid[0 : mask_size[0] : 1, 0 : mask_size[1] : 1]
    mask_xy = np.sqrt((x - center[0]) ** 2 + (y - center[1]) ** 2)
    mask_xy[mask_xy > radius] = 0
    mask_xy[mask_xy > 0] = 1
    mask_xy[center[0], center[1]] = 1

    mask = np.zeros(mask_size)
    mask[:, :, center[2] - height : center[2] + height + 1] = np.tile(mask_xy[:, :, None], (1, 1, height * 2 + 1))

    mask = postprocess(mask, gaussian, angles, output_name)

    return mask


def get_correct_format(input_value, reference_size=None):

    def format_input(unformatted_value):
        if isinstance(unformatted_value, (tuple, list, np.ndarray)):
            if len(unformatted_value) == 3:
                return np.asarray(unformatted_value).astype(int)
            elif len(unformatted_value) == 1:
                return np.full((3,), unformatted_value).astype(int)
            else:
                raise ValueError("The size have to be a single number or have to have length of 3!")
        elif isinstance(unformatted_value, (float, int)):
            return np.full((3,), unformatted_value).astype(int)

    if input_value is not None:
        size_correct_format = format_input(input_value)
    elif reference_size is not None:
        box_size = format_input(reference_size)
        size_correct_format = box_size // 2
    else:
        raise ValueError("Either input_size or referene_size have to be specified")

    return size_correct_format


def ellipsoid_shell_mask(mask_size, shell_thickness, radii, center=None, gaussian=0.0, angles=None, output_name=None):

    mask_size = get_correct_format(mask_size)
    center = get_correct_format(center, reference_size=mask_size)
    radii = get_correct_format(radii, reference_size=mask_size)

    shell_thickness = shell_thickness / 2

    e1 = ellipsoid_mask(mask_size, radii=radii + shell_thickness, center=center)
    e2 = ellipsoid_mask(mask_size, radii=radii - shell_thickness, center=center)

    shell_mask = e1 & ~e2

    shell_mask = postprocess(shell_mask, gaussian, angles, output_name)

    return shell_mask


def ellipsoid_mask(
    mask_size,
    radii=None,
    center=None,
    gaussian=0,
    output_name=None,
    angles=None,
    gaussian_outwards=True,
):
    mask_shape = get_correct_format(mask_size)
    center = get_correct_format(center, reference_size=mask_shape)
    radii = get_correct_format(radii, reference_size=mask_shape)

    radii = preprocess_params(radii, gaussian, gaussian_outwards)

    # Build a grid and get its points as a list
    xi = tuple(np.linspace(1, s, s) - np.floor(0.5 * s) for s in mask_shape)

    # Build a list of points forming the grid
    xi = np.meshgrid(*xi, indexing="ij")
    points = np.array(xi).reshape(3, -1)[::-1]

    # Find grid center
    grid_center = 0.5 * mask_shape - center
    grid_center = np.tile(grid_center.reshape(3, 1), (1, points.shape[1]))

    # Reorder coordinates back to ZYX to match the order of numpy array axis
    points = points[:, ::-1]
    grid_center = grid_center[::-1]
    radii = radii[::-1]
    radii = np.tile(radii.reshape(3, 1), (1, points.shape[1]))

    # Draw the ellipsoid
    # dx**2 + dy**2 + dz**2 = r**2
    # dx**2 / r**2 + dy**2 / r**2 + dz**2 / r**2 = 1
    ellipsoid = (points - grid_center) ** 2
    ellipsoid = ellipsoid / radii**2
    # Sum dx, dy, dz / r**2
    distance = np.sum(ellipsoid, axis=0).reshape(mask_shape)

    mask = distance <= 1

    mask = postprocess(mask, gaussian, angles, output_name)

    return mask


def preprocess_params(radius, gaussian, gaussian_outwards):

    blur_factor = 5.0

    if gaussian != 0.0 and gaussian_outwards:
        new_radius = np.ceil(radius + gaussian * blur_factor).astype(int)
    else:
        new_radius = radius

    return new_radius

'''
ORIG = {k: v for k, v in vars(cm).items() if not k.startswith("__")}
exec(compile(ORIG_SRC, "<original cryomask>", "exec"), ORIG)

rng = np.random.default_rng(20260928)
FAIL = []
COUNT = {}


def note(ok, what):
    COUNT[what.split(":")[0]] = COUNT.get(what.split(":")[0], 0) + 1
    if not ok:
        FAIL.append(what)
        if len(FAIL) <= 25:
            print("  MISMATCH", what)


def run(fn, *a, **k):
    try:
        return ("ok", fn(*a, **k))
    except Exception as e:  # the outcome includes the kind of failure
        return ("err", type(e).__name__, str(e))


def same(r1, r2):
    if r1[0] != r2[0]:
        return False
    if r1[0] == "err":
        return r1[1:] == r2[1:]
    a, b = r1[1], r2[1]
    if not isinstance(a, np.ndarray) or not isinstance(b, np.ndarray):
        return type(a) is type(b) and equal_args(a, b)
    return a.dtype == b.dtype and a.shape == b.shape and np.array_equal(a, b, equal_nan=True)


# ----------------------------------------------------------------------------------------------------------------
# independent references: exact integer arithmetic on index grids
def grids(size):
    return np.meshgrid(*[np.arange(int(s), dtype=np.int64) for s in size], indexing="ij")


def ref_sphere(size, c, r):
    """distance <= r, r may be a multiple of 0.5 (shells); a negative radius is empty"""
    i, j, k = grids(size)
    d2 = (i - c[0]) ** 2 + (j - c[1]) ** 2 + (k - c[2]) ** 2
    r2 = int(round(2 * r))
    assert r2 == 2 * r
    if r2 < 0:
        return np.zeros(tuple(size), bool)
    return 4 * d2 <= r2 * r2


def ref_cylinder(size, c, r, h):
    i, j, k = grids(size)
    return ((i - c[0]) ** 2 + (j - c[1]) ** 2 <= r * r) & (np.abs(k - c[2]) <= h // 2)


def ref_ellipsoid(size, c, rad):
    """sum((i-c)/r)^2 <= 1 without any division; returns the closed solid and the voxels exactly on the surface.
    The toolkit divides in floating point, so a voxel with sum == 1 exactly (e.g. offsets (7, 22, 14) for r = 27) can
    come out as 1.0000000000000002: those voxels are left out of the comparison (and counted)."""
    i, j, k = grids(size)
    rx, ry, rz = [int(v) ** 2 for v in rad]
    lhs = (i - c[0]) ** 2 * ry * rz + (j - c[1]) ** 2 * rx * rz + (k - c[2]) ** 2 * rx * ry
    return lhs <= rx * ry * rz, lhs == rx * ry * rz


def ell_ok(got, closed, surface):
    got = np.asarray(got)
    lost = int(np.sum(surface & closed & ~got))
    COUNT["(ellipsoid surface voxels decided by rounding)"] = COUNT.get("(ellipsoid surface voxels decided by rounding)", 0) + lost
    return got.dtype == bool and got.shape == closed.shape and np.array_equal(got[~surface], closed[~surface])


def ref_e_shell(size, c, outer, inner):
    o, so = ref_ellipsoid(size, c, outer)
    i, si = ref_ellipsoid(size, c, inner)
    return o & ~i, so | si


def rand_size(even=False, lo=6, hi=48):
    s = rng.integers(lo, hi + 1, 3)
    if rng.random() < 0.25:
        s = rng.integers(lo, 17, 3)  # small boxes: borders matter more often
    if even:
        s = (s // 2) * 2
        s[s < lo] = lo
    return [int(v) for v in s]


def rand_center(size):
    mode = rng.integers(0, 4)
    if mode == 0:
        return None
    if mode == 1:  # a corner / face
        return [int(rng.choice([0, s - 1])) for s in size]
    return [int(rng.integers(0, s)) for s in size]


def eff_center(size, c):
    return [s // 2 for s in size] if c is None else list(c)


def rand_radius(size):
    mode = rng.integers(0, 5)
    if mode == 0:
        return int(rng.integers(1, 4))
    if mode == 1:
        return int(rng.integers(max(size), 2 * max(size)))  # beyond the box
    return int(rng.integers(1, max(size)))


FUNCS = [
    "parse_shape_string", "generate_mask", "add_gaussian", "postprocess", "union", "intersection", "subtraction",
    "difference", "spherical_shell_mask", "spherical_mask", "cylindrical_mask", "get_correct_format",
    "ellipsoid_shell_mask", "ellipsoid_mask", "preprocess_params",
]


def equal_args(x, y):
    if isinstance(y, np.ndarray):
        return isinstance(x, np.ndarray) and x.dtype == y.dtype and x.shape == y.shape and np.array_equal(x, y)
    if isinstance(y, (list, tuple)):
        return type(x) is type(y) and len(x) == len(y) and all(equal_args(p, q) for p, q in zip(x, y))
    if isinstance(y, dict):
        return isinstance(x, dict) and list(x) == list(y) and all(equal_args(x[k], y[k]) for k in y)
    return type(x) is type(y) and x == y


def both(name, *a, **k):
    """call the tree's function and the original one on equal (separately copied) inputs, compare outcomes,
    return the outcome of the tree's function"""
    import copy

    a1, k1 = copy.deepcopy((a, k))
    a2, k2 = copy.deepcopy((a, k))
    r_new = run(getattr(cm, name), *a1, **k1)
    r_old = run(ORIG[name], *a2, **k2)
    note(same(r_new, r_old), f"old-vs-new {name}: args={a!r:.150} kw={k!r:.150} -> {r_new!r:.80} / {r_old!r:.80}")
    # the arguments are still what the caller passed
    note(equal_args((a1, k1), (a, k)), f"input untouched {name}: an argument was changed by the tree's function")
    note(equal_args((a2, k2), (a, k)), f"input untouched {name}: an argument was changed by the original function")
    return r_new


# ----------------------------------------------------------------------------------------------------------------
# 1. hard-edged shapes
def check_hard_shapes(n):
    for t in range(n):
        size = rand_size()
        c = rand_center(size)
        ce = eff_center(size, c)
        # sphere
        r = rand_radius(size) if rng.random() > 0.1 else None
        res = both("spherical_mask", size, radius=r, center=c)
        re_ = min(size) // 2 if r is None else r
        ok = res[0] == "ok" and np.array_equal(res[1] == 1, ref_sphere(size, ce, re_)) and set(np.unique(res[1])) <= {0.0, 1.0}
        note(ok, f"sphere: size={size} c={c} r={r} {res[0]}")
        # repeated call on the same argument objects
        res2 = run(cm.spherical_mask, size, radius=r, center=c)
        note(same(res, res2), f"sphere repeated: size={size} c={c} r={r}")

        # cylinder: the slab has to fit in the box (the function refuses otherwise), the disc may be anything
        r = rand_radius(size) if rng.random() > 0.1 else None
        h = int(rng.integers(1, 2 * size[2])) if rng.random() > 0.1 else None
        res = both("cylindrical_mask", size, radius=r, height=h, center=c)
        re_ = min(size[:2]) // 2 if r is None else r
        he = size[2] if h is None else h
        fits = ce[2] - he // 2 >= 0 and ce[2] + he // 2 + 1 <= size[2]
        if res[0] == "ok":
            exp = ref_cylinder(size, ce, re_, he)
            if fits:
                note(np.array_equal(res[1] == 1, exp) and set(np.unique(res[1])) <= {0.0, 1.0}, f"cylinder: size={size} c={c} r={r} h={h}")
            else:
                COUNT["cylinder slab outside, returned"] = COUNT.get("cylinder slab outside, returned", 0) + 1
        else:
            note(not fits, f"cylinder: size={size} c={c} r={r} h={h} raised {res[1:]} although the slab fits")
            COUNT["cylinder slab outside, refused"] = COUNT.get("cylinder slab outside, refused", 0) + 1
        # a cylinder whose slab certainly fits
        cz = ce[2]
        hmax = 2 * min(cz, size[2] - 1 - cz) + 1
        h = int(rng.integers(1, hmax + 1))
        res = both("cylindrical_mask", size, radius=re_, height=h, center=ce)
        note(res[0] == "ok" and np.array_equal(res[1] == 1, ref_cylinder(size, ce, re_, h)), f"cylinder fitting: size={size} c={ce} r={re_} h={h}")

        # ellipsoid (even boxes)
        size = rand_size(even=True)
        c = rand_center(size)
        ce = eff_center(size, c)
        rad = [rand_radius(size) for _ in range(3)] if rng.random() > 0.1 else None
        if rad is not None and rng.random() < 0.2:
            rad = int(rad[0])  # one number for all three axes
        res = both("ellipsoid_mask", size, radii=rad, center=c)
        rade = [s // 2 for s in size] if rad is None else ([rad] * 3 if isinstance(rad, int) else rad)
        ok = res[0] == "ok" and ell_ok(res[1], *ref_ellipsoid(size, ce, rade))
        note(ok, f"ellipsoid: size={size} c={c} radii={rad} {res[0]}")
        res2 = run(cm.ellipsoid_mask, size, radii=rad, center=c)
        note(same(res, res2), f"ellipsoid repeated: size={size} c={c} radii={rad}")
        # odd boxes: no analytic claim, only old-vs-new
        both("ellipsoid_mask", [s + 1 for s in size], radii=rad, center=c)
        # numpy arrays / tuples as arguments
        both("ellipsoid_mask", np.asarray(size), radii=np.asarray(rade), center=tuple(ce))
        both("cylindrical_mask", tuple(size), radius=2, height=3, center=np.asarray(ce))


# 2. shells
def check_shells(n):
    for t in range(n):
        size = rand_size()
        c = rand_center(size)
        ce = eff_center(size, c)
        r = rand_radius(size) if rng.random() > 0.1 else None
        th = int(rng.integers(1, 9))
        res = both("spherical_shell_mask", size, th, radius=r, center=c)
        re_ = min(size) // 2 if r is None else r
        exp = ref_sphere(size, ce, re_ + th / 2) & ~ref_sphere(size, ce, re_ - th / 2)
        note(res[0] == "ok" and np.array_equal(res[1] == 1, exp) and set(np.unique(res[1])) <= {0.0, 1.0}, f"s_shell: size={size} c={c} r={r} t={th}")

        size = rand_size(even=True)
        c = rand_center(size)
        ce = eff_center(size, c)
        rad = [rand_radius(size) + 1 for _ in range(3)]
        th = int(rng.integers(1, 2 * min(rad) - 1)) if min(rad) > 1 else 1
        th = min(th, 12)
        res = both("ellipsoid_shell_mask", size, th, rad, center=c)
        outer = [int(v + th / 2) for v in rad]
        inner = [int(v - th / 2) for v in rad]
        if min(inner) >= 1:
            note(res[0] == "ok" and ell_ok(res[1], *ref_e_shell(size, ce, outer, inner)), f"e_shell: size={size} c={c} radii={rad} t={th}")
        # thick shells (inner radii <= 0): old-vs-new only
        both("ellipsoid_shell_mask", size, 2 * max(rad) + 3, rad, center=c)


# 3. the name-based generator
def check_generator(n):
    for t in range(n):
        r = int(rng.integers(1, 19))
        name = f"sphere_r{r}"
        for ms in (None, int(rng.integers(6, 49))):
            for kw in ({}, {"mask_expansion": int(rng.integers(0, 8))}):
                res = both("generate_mask", name, mask_size=ms, **kw)
                s = ms if ms is not None else int(np.ceil((2 * r + kw.get("mask_expansion", 4)) / 2) * 2)
                exp = ref_sphere([s] * 3, [s // 2] * 3, r)
                note(res[0] == "ok" and np.array_equal(res[1] == 1, exp), f"generate sphere: {name} {ms} {kw}")
        r, h = int(rng.integers(1, 19)), int(rng.integers(1, 19))
        name = f"cylinder_r{r}_h{h}"
        res = both("generate_mask", name)
        s = 2 * max(r, h) + 4
        note(res[0] == "ok" and np.array_equal(res[1] == 1, ref_cylinder([s] * 3, [s // 2] * 3, r, h)), f"generate cylinder: {name}")
        ms = int(rng.integers(6, 49))
        res = both("generate_mask", name, mask_size=ms)
        if res[0] == "ok" and ms // 2 - h // 2 >= 0 and ms // 2 + h // 2 + 1 <= ms:
            note(np.array_equal(res[1] == 1, ref_cylinder([ms] * 3, [ms // 2] * 3, r, h)), f"generate cylinder: {name} {ms}")
        r, th = int(rng.integers(1, 16)), int(rng.integers(1, 9))
        name = f"s_shell_r{r}_s{th}"
        for ms in (None, int(rng.integers(6, 41))):
            res = both("generate_mask", name, mask_size=ms)
            s = ms if ms is not None else 2 * max(r, th) + 4
            s = int(np.ceil((s + th) / 2) * 2)
            exp = ref_sphere([s] * 3, [s // 2] * 3, r + th / 2) & ~ref_sphere([s] * 3, [s // 2] * 3, r - th / 2)
            note(res[0] == "ok" and res[1].shape == (s, s, s) and np.array_equal(res[1] == 1, exp), f"generate s_shell: {name} {ms}")
        rad = [int(v) for v in rng.integers(1, 19, 3)]
        name = "ellipsoid_rx{}_ry{}_rz{}".format(*rad)
        for ms in (None, 2 * int(rng.integers(3, 25))):
            res = both("generate_mask", name, mask_size=ms)
            s = ms if ms is not None else 2 * max(rad) + 4
            note(res[0] == "ok" and ell_ok(res[1], *ref_ellipsoid([s] * 3, [s // 2] * 3, rad)), f"generate ellipsoid: {name} {ms}")
        rad = [int(v) for v in rng.integers(3, 19, 3)]
        th = 2 * int(rng.integers(1, min(rad)))  # even, inner radii stay >= 1
        name = "e_shell_rx{}_ry{}_rz{}_s{}".format(*rad, th)
        res = both("generate_mask", name)
        s = 2 * max(rad + [th]) + 4
        exp = ref_e_shell([s] * 3, [s // 2] * 3, [v + th // 2 for v in rad], [v - th // 2 for v in rad])
        note(res[0] == "ok" and ell_ok(res[1], *exp), f"generate e_shell: {name}")
    for bad in ("sphere", "sphere_r", "cube_r3", "cylinder_r3", "sphere_r3_h2", "ellipsoid_rx1_ry2", " sphere_r3", "sphere_r3\n", "e_shell_rx1_ry2_rz3", ""):
        res = both("parse_shape_string", bad)
        both("generate_mask", bad)
        note(res[0] == "err" and res[1] == "ValueError" if bad != "sphere_r3\n" else True, f"parse: {bad!r} not refused")
    for good, exp in (("sphere_r10", ("sphere", [10])), ("cylinder_r5_h20", ("cylinder", [5, 20])), ("s_shell_r7_s2", ("s_shell", [7, 2])),
                      ("ellipsoid_rx1_ry22_rz3", ("ellipsoid", [1, 22, 3])), ("e_shell_rx1_ry2_rz3_s4", ("e_shell", [1, 2, 3, 4])), ("sphere_r007", ("sphere", [7]))):
        res = both("parse_shape_string", good)
        note(res == ("ok", exp), f"parse: {good} -> {res}")


# 4. soft edges
def check_soft(n):
    for t in range(n):
        sigma = float(rng.choice([0.0, 0.5, 1.0, 1.5, 2.0, 3.0, float(np.round(rng.uniform(0.1, 3.0), 2))]))
        outwards = bool(rng.integers(0, 2))
        size = rand_size(hi=40)
        c = rand_center(size)
        ce = eff_center(size, c)
        r = rand_radius(size)
        res = both("spherical_mask", size, radius=r, center=c, gaussian=sigma, gaussian_outwards=outwards)
        ok = res[0] == "ok" and res[1].min() >= -1e-9 and res[1].max() <= 1 + 1e-9
        note(ok, f"soft sphere range: size={size} c={c} r={r} g={sigma} out={outwards}")
        if ok and outwards:
            core = ref_sphere(size, ce, r)
            note(np.all(np.abs(res[1][core] - 1) <= 1e-3), f"soft sphere core: size={size} c={c} r={r} g={sigma}")
        # cylinder with a slab that fits even after widening
        cz = ce[2]
        room = min(cz, size[2] - 1 - cz) - int(np.ceil(5 * sigma))
        if room >= 0:
            h = int(rng.integers(1, 2 * room + 2))
            res = both("cylindrical_mask", size, radius=r, height=h, center=c, gaussian=sigma, gaussian_outwards=outwards)
            ok = res[0] == "ok" and res[1].min() >= -1e-9 and res[1].max() <= 1 + 1e-9
            note(ok, f"soft cylinder range: size={size} c={c} r={r} h={h} g={sigma} out={outwards} {res[0]}")
            if ok and outwards:
                core = ref_cylinder(size, ce, r, h)
                note(np.all(np.abs(res[1][core] - 1) <= 1e-3), f"soft cylinder core: size={size} c={c} r={r} h={h} g={sigma}")
        else:
            both("cylindrical_mask", size, radius=r, height=3, center=c, gaussian=sigma, gaussian_outwards=outwards)
        size = rand_size(even=True, hi=40)
        c = rand_center(size)
        ce = eff_center(size, c)
        rad = [rand_radius(size) for _ in range(3)]
        res = both("ellipsoid_mask", size, radii=rad, center=c, gaussian=sigma, gaussian_outwards=outwards)
        ok = res[0] == "ok" and res[1].min() >= -1e-9 and res[1].max() <= 1 + 1e-9
        note(ok, f"soft ellipsoid range: size={size} c={c} radii={rad} g={sigma} out={outwards}")
        if ok and outwards:
            core = ref_ellipsoid(size, ce, rad)[0]
            note(np.all(np.abs(np.asarray(res[1], float)[core] - 1) <= 1e-3), f"soft ellipsoid core: size={size} c={c} radii={rad} g={sigma}")
        # soft shells: range only
        res = both("spherical_shell_mask", size, int(rng.integers(1, 6)), radius=r, center=c, gaussian=sigma)
        note(res[0] == "ok" and res[1].min() >= -1e-9 and res[1].max() <= 1 + 1e-9, f"soft s_shell range: size={size} g={sigma}")
        res = both("ellipsoid_shell_mask", size, 2, [v + 2 for v in rad], center=c, gaussian=sigma)
        note(res[0] == "ok" and res[1].min() >= -1e-9 and res[1].max() <= 1 + 1e-9, f"soft e_shell range: size={size} g={sigma}")
        # the small helpers
        for rr in (r, np.asarray(rad), 2.5):
            both("preprocess_params", rr, sigma, outwards)
        m = (rng.random(size) < 0.3).astype(float)
        both("add_gaussian", m, sigma)
        both("postprocess", m, sigma, None, None)
        both("postprocess", m, sigma, np.asarray([0, 0, 0]), None)
    for v in (5, 5.7, [4], [1, 2, 3], (3, 4, 5), np.asarray([6, 7, 8]), np.asarray([2.9, 3.1, 4.5]), [1, 2], None):
        both("get_correct_format", v)
        both("get_correct_format", None, reference_size=v)
        both("get_correct_format", v, reference_size=[10, 12, 14])


# 5. set algebra
DTYPES = [np.float64, np.float32, bool, np.uint8, np.int8, np.int64]


def rand_binary(shape, kind):
    if kind == 0:
        m = rng.random(shape) < rng.choice([0.05, 0.3, 0.5, 0.9])
    elif kind == 1:
        m = np.zeros(shape, bool)  # an empty mask
    elif kind == 2:
        m = np.ones(shape, bool)  # a full one
    else:
        size = list(shape)
        m = cm.spherical_mask(size, radius=int(rng.integers(1, max(size))), center=[int(rng.integers(0, s)) for s in size]) == 1
    return m


def check_algebra(n, tmp):
    for t in range(n):
        shape = tuple(rand_size(hi=24))
        k = int(rng.integers(1, 6))
        kinds = [int(rng.choice([0, 0, 0, 1, 2, 3])) for _ in range(k)]
        bools = [rand_binary(shape, kd) for kd in kinds]
        if k >= 2 and rng.random() < 0.2:
            bools[-1] = bools[0].copy()  # the same content twice
        masks = [b.astype(rng.choice(DTYPES)) for b in bools]
        if k >= 2 and rng.random() < 0.2:
            masks[1] = masks[0]  # the very same object twice
            bools[1] = bools[0]
        keep = [m.copy() for m in masks]
        OR = np.logical_or.reduce(bools)
        AND = np.logical_and.reduce(bools)
        SUB = bools[0] & ~np.logical_or.reduce(bools[1:]) if k > 1 else bools[0]
        XOR = OR & ~AND
        if k == 2:
            assert np.array_equal(XOR, bools[0] ^ bools[1])
        for name, exp in (("union", OR), ("intersection", AND), ("subtraction", SUB), ("difference", XOR)):
            res = both(name, masks)
            ok = res[0] == "ok" and res[1].shape == shape and np.array_equal(res[1], exp.astype(float)) and res[1].min() >= 0 and res[1].max() <= 1
            note(ok, f"algebra {name}: shape={shape} k={k} dtypes={[m.dtype.name for m in masks]} {res[0]}")
            note(all(a.dtype == b.dtype and np.array_equal(a, b) for a, b in zip(masks, keep)), f"algebra {name}: inputs modified")
            if res[0] == "ok":
                note(all(not np.shares_memory(res[1], m) for m in masks), f"algebra {name}: result aliases an input")
            # repeated call on the same list object
            res2 = run(getattr(cm, name), masks)
            note(same(res, res2), f"algebra {name} repeated: shape={shape} k={k}")
            # a tuple instead of a list
            res3 = run(getattr(cm, name), tuple(masks))
            note(same(res, res3), f"algebra {name} tuple: shape={shape} k={k}")
        # soft masks: range only (and old-vs-new)
        soft = [rng.random(shape).astype(rng.choice([np.float64, np.float32])) for _ in range(k)]
        if rng.random() < 0.5:
            soft[0] = cm.spherical_mask(list(shape), radius=3, gaussian=1.0)
        keep = [m.copy() for m in soft]
        for name in ("union", "intersection", "subtraction", "difference"):
            res = both(name, soft)
            note(res[0] == "ok" and res[1].min() >= 0 and res[1].max() <= 1, f"algebra soft {name}: shape={shape} k={k}")
            note(all(a.dtype == b.dtype and np.array_equal(a, b) for a, b in zip(soft, keep)), f"algebra soft {name}: inputs modified")
        # masks given as files (mixed with arrays), result written out
        if t % 6 == 0:
            paths = []
            for i, m in enumerate(masks):
                if i % 2 == 0:
                    p = os.path.join(tmp, f"m{t}_{i}." + ("mrc" if i % 4 == 0 else "em"))
                    cryomap.write(m.astype(np.single), p, data_type=np.single)
                    paths.append(p)
                else:
                    paths.append(m)
            for name, exp in (("union", OR), ("intersection", AND), ("subtraction", SUB), ("difference", XOR)):
                out = os.path.join(tmp, f"out{t}_{name}.mrc")
                r_new = run(getattr(cm, name), paths, output_name=out)
                got = cryomap.read(out) if os.path.exists(out) else None
                r_old = run(ORIG[name], paths, output_name=out)
                note(same(r_new, r_old), f"old-vs-new {name} (files): k={k}")
                note(r_new[0] == "ok" and np.array_equal(r_new[1], exp.astype(float)), f"algebra {name} (files): shape={shape} k={k} {r_new[0]}")
                note(got is not None and np.array_equal(got, exp.astype(np.single)), f"algebra {name} (files): written result")
    # degenerate lists: the outcome (an error) is the same as before
    for name in ("union", "intersection", "subtraction", "difference"):
        both(name, [])
        both(name, [np.ones((4, 5, 6)), np.ones((4, 5, 7))])
        both(name, [np.ones((4, 5, 6)), "nonexistent.txt"])
        both(name, [np.ones((4, 5, 6)), 3])
        both(name, np.stack([np.eye(6)[:, :, None] * np.ones((1, 1, 6)), np.ones((6, 6, 6))]))


np.seterr(all="ignore")
N = int(os.environ.get("C13_N", "100"))
check_hard_shapes(N)
check_shells(N)
check_generator(max(N // 3, 5))
check_soft(max(N // 2, 5))
with tempfile.TemporaryDirectory() as tmp:
    check_algebra(N, tmp)

for k in sorted(COUNT):
    print(f"  {COUNT[k]:6d}  {k}")
if FAIL:
    print(f"FAIL ({len(FAIL)} mismatches)")
    sys.exit(1)
print("PASS")
